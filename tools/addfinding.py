#!/usr/bin/env python3
"""tools/addfinding.py PROP STATUS COMMIT SIG WHAT WITNESS_JSON  (development helper; never used at run time)"""
import json, sys
prop, status, commit, sig, what, wit = sys.argv[1:7]
p = "/verif/known_findings.json"
d = json.load(open(p))
ent = {"property": prop, "status": status, "sig": sig, "what": what, "witness": json.loads(wit)}
if status == "fixed":
    ent["commit"] = commit
    ent["record"] = f"fixed: property={prop} {commit} {what}"
d["findings"].append(ent)
json.dump(d, open(p, "w"), indent=1, ensure_ascii=False)
print("ok", len(d["findings"]))
