#!/usr/bin/env python3
"""Write the prompt for an independent seeding sub-agent: tools/mkprompt.py <prop> <round-letter> <worktree>.

The prompt contains the property text (id, title, statement, quantifier), the summaries of the changes
filed so far for that property (so that the new one uses another mechanism), and the deliverables;
it names nothing from /verif.  The caller creates the worktree.
"""
import glob
import json
import os
import sys

VERIF = os.path.dirname(os.path.dirname(os.path.abspath(__file__)))

TESTER = """\
A strong tester already runs the real code on: every short sequence of the scanner's tokens; grammar-derived documents
with ground truth; Unicode garbage; irregular letters (ß İ ı ſ ǅ, combining marks, CJK, digits of other scripts);
odd white space (NBSP, form feed, U+2028, lone CR, BOM, CRLF); sizes and run lengths around every power of two up to
65537, nesting to 20000; falsy and reserved-looking names and values ('', '0', 0, False, ID, ENTRYTYPE); duplicate
keys and duplicate field keys; libraries built in code, by the parser, parsed into an existing library; subclass
instances; equal-but-distinct blocks; blocks whose start lines are out of order; reused and reconfigured middleware
and format objects; the same call repeated after tampering with its result; stacks of 0-3 shipped middlewares in
any order in both in-place modes; files with BOMs, encodings, duck-typed file objects; @string blocks named like
values, keys or month names; macro chains and cycles; libraries edited through add/remove/replace/re-keying before
use; documents parsed in pieces into one library under different stacks; pairs of names related by case, Unicode
normalisation, prefix; arguments that are the object's own stored parts; k = 2..1000 repetitions of a feature in
one value; a third shipped middleware between two others; `@type( ... )` blocks; probes overriding transform_block.
So a change that any of those would expose at once is of little interest.  Think about what ELSE a realistic
maintenance change could depend on: a combination of two features, an option value nobody sets, a specific
position (first/last/only block or field), a relation between two items (equal, prefix, case variant, same
object), something remembered from an earlier call or an earlier block, an exception path, a particular length
or count relation, an interaction with another shipped middleware or with the writer's options."""


def main():
    prop, letter, wt = sys.argv[1], sys.argv[2], sys.argv[3]
    p = [json.loads(l) for l in open(os.path.join(VERIF, "properties.jsonl")) if json.loads(l)["id"] == prop][0]
    earlier = []
    for m in sorted(glob.glob(os.path.join(VERIF, "seeded", prop + "-*", "meta.json"))):
        d = json.load(open(m))
        earlier.append("- %s\n  (needs: %s)" % (d.get("summary", "").strip()[:700], d.get("needs", "").strip()[:400]))
    text = f"""You are helping to evaluate a test/verification framework for the Python package `bibtexparser`
(sciunto-org/python-bibtexparser, v2 line). You have your own private git worktree of the repository at

    {wt}

Work ONLY inside that directory (never touch /repo or /verif, never read /verif). Python is /venv/bin/python; run
things with PYTHONPATH={wt} so that your worktree's `bibtexparser` is imported (check with
`/venv/bin/python -c "import bibtexparser; print(bibtexparser.__file__)"`). The repository's own test suite is run with
`cd {wt} && PYTHONPATH={wt} /venv/bin/python -m pytest -q -p no:cacheprovider tests` (about 2400 tests, a few seconds).
There is no network.

This semantic property of the package is supposed to hold:

  id: {p['id']}
  title: {p['title']}
  statement: {p['statement']}
  quantified over: {p['quantifier']['text']}

YOUR TASK: write ONE realistic change to the package source (under {wt}/bibtexparser/) - the kind of thing a maintainer
could plausibly commit as a feature, refactoring, optimisation or bug fix - that BREAKS this property (read its
statement literally) while
  (a) the package still imports and the repository's own test suite still passes completely, unedited, and
  (b) the breakage needs something SPECIFIC to manifest: an unusual input, a particular option value, a multi-step
      sequence of calls, state left by an earlier call, two code sites that each look fine alone, a size or count
      threshold, an exception path ... - NOT something ordinary use would expose at once.
The change must break THIS property (it may break others too). Do not add hooks, environment variables or
anything test-specific; do not edit tests.

{TESTER}

Changes already produced for this property by others (use a DIFFERENT mechanism, code site and trigger):
{chr(10).join(earlier) if earlier else '(none)'}

DELIVERABLES, all inside {wt}/_seed/ (create the directory):
  1. patch.diff  - `git -C {wt} diff -- bibtexparser > {wt}/_seed/patch.diff` (source changes only; must apply to a
                   clean checkout with `git apply`).
  2. demo.py     - a small stand-alone program using only the public API of bibtexparser (imported from PYTHONPATH) and
                   the standard library, which checks the PROPERTY AS STATED (not an implementation detail) on the specific
                   input/sequence that exposes your change: it must `sys.exit(1)` (printing what it saw) when the property is
                   violated and `sys.exit(0)` when it holds.  It must exit 1 with your change and exit 0 on the unchanged
                   code (verify both; to get the unchanged code use `git -C {wt} apply -R _seed/patch.diff` and then `git -C {wt} apply _seed/patch.diff` again - do NOT use `git stash`: the stash is shared between all worktrees of the repository and other people work in sibling worktrees at the same time).
  3. meta.json   - {{"property": "{prop}", "summary": "<what the change does, 1-3 sentences>", "needs": "<what is needed
                   for it to manifest>", "why_tests_pass": "<why the suite does not notice>"}}
Before you finish: run the full test suite with the change (must be all green), run demo.py with and without the change,
and make sure patch.diff is up to date. Leave the worktree with your change applied.
In your final answer report: the summary, the needs, the test-suite result line, and the two demo exit codes.
"""
    sys.stdout.write(text)


if __name__ == "__main__":
    main()
