#!/usr/bin/env python3
"""Re-base filed patches (seeded/*, preserving/*) that stopped applying after later `fix:` commits in /repo.

For each patch that neither `git apply` nor `patch -F3` accepts on the current /repo tree:
  1. find the newest /repo commit on which it applies cleanly (its base),
  2. three-way merge every touched file: ours = base + patch, base = file at that commit, theirs = file in /repo now,
  3. if no conflict remains, write the new patch (diff between /repo now and the merged tree) and note `rebased_onto` in meta.json;
     conflicts are printed for manual resolution (nothing is written).
Fuzz-applicable patches are rewritten as exact patches too, so later rebases start from a clean state.
"""
import json
import os
import shutil
import subprocess
import sys
import tempfile

VERIF = os.path.dirname(os.path.dirname(os.path.abspath(__file__)))
REPO = "/repo"


def sh(cmd, cwd=None, check=False):
    return subprocess.run(cmd, cwd=cwd, capture_output=True, text=True, check=check)


def export(commit, dest):
    os.makedirs(dest, exist_ok=True)
    p = subprocess.Popen(["git", "-C", REPO, "archive", commit, "bibtexparser"], stdout=subprocess.PIPE)
    subprocess.run(["tar", "x", "-C", dest], stdin=p.stdout, check=True)
    p.wait()


def current_tree(dest):
    os.makedirs(dest, exist_ok=True)
    sh(["rsync", "-a", "--exclude", "__pycache__", REPO + "/bibtexparser", dest + "/"], check=True)


def touched(patch):
    out = []
    for l in open(patch):
        if l.startswith("+++ "):
            f = l[4:].strip()
            f = f[2:] if f.startswith(("a/", "b/")) else f
            if f != "/dev/null" and f not in out:
                out.append(f)
    return out


def main():
    head = sh(["git", "-C", REPO, "log", "--format=%h", "-1"]).stdout.strip()
    commits = sh(["git", "-C", REPO, "log", "--format=%h", "-40"]).stdout.split()
    todo = sys.argv[1:] or sorted(os.path.join(k, d) for k in ("seeded", "preserving") for d in os.listdir(os.path.join(VERIF, k)))
    work = tempfile.mkdtemp(prefix="verif-rebase-", dir="/root/scratch" if os.path.isdir("/root/scratch") else None)
    try:
        now = os.path.join(work, "now")
        current_tree(now)
        for rel in todo:
            d = os.path.join(VERIF, rel)
            patch = os.path.join(d, "patch.diff")
            if not os.path.exists(patch):
                continue
            if sh(["git", "apply", "--check", patch], cwd=now).returncode == 0:
                continue
            base = None
            for c in commits:
                bd = os.path.join(work, "base-" + c)
                if not os.path.isdir(bd):
                    export(c, bd)
                if sh(["git", "apply", "--check", patch], cwd=bd).returncode == 0:
                    base = c
                    break
            if base is None:
                print(rel, "NO BASE FOUND among the last 40 commits")
                continue
            bd = os.path.join(work, "base-" + base)
            ours = os.path.join(work, "ours")
            shutil.rmtree(ours, ignore_errors=True)
            shutil.copytree(bd, ours)
            sh(["git", "apply", patch], cwd=ours, check=True)
            merged = os.path.join(work, "merged")
            shutil.rmtree(merged, ignore_errors=True)
            shutil.copytree(now, merged)
            conflicts = []
            for f in touched(patch):
                o, b, t = os.path.join(ours, f), os.path.join(bd, f), os.path.join(now, f)
                if not os.path.exists(b) or not os.path.exists(t):
                    shutil.copy(o, os.path.join(merged, f))
                    continue
                r = sh(["git", "merge-file", "-p", o, b, t])
                if r.returncode != 0:
                    conflicts.append(f)
                    open(os.path.join(work, "conflict-" + rel.replace("/", "_") + "-" + os.path.basename(f)), "w").write(r.stdout)
                open(os.path.join(merged, f), "w").write(r.stdout)
            if conflicts:
                print(rel, f"CONFLICTS (base {base}) in", conflicts, "->", work)
                continue
            cmp_ = os.path.join(work, "cmp")
            shutil.rmtree(cmp_, ignore_errors=True)
            os.makedirs(cmp_)
            shutil.copytree(os.path.join(now, "bibtexparser"), os.path.join(cmp_, "a", "bibtexparser"))
            shutil.copytree(os.path.join(merged, "bibtexparser"), os.path.join(cmp_, "b", "bibtexparser"))
            diff = sh(["git", "diff", "--no-index", "--no-prefix", "a", "b"], cwd=cmp_).stdout
            diff = diff.replace("diff --git a/bibtexparser", "diff --git a/bibtexparser")
            if not diff.strip():
                print(rel, "EMPTY after merge (the fix made the seeded change vanish?)")
                continue
            open(patch, "w").write(diff)
            if sh(["git", "apply", "--check", patch], cwd=now).returncode != 0:
                print(rel, "REBASED PATCH DOES NOT APPLY ?!")
                continue
            mp = os.path.join(d, "meta.json")
            m = json.load(open(mp))
            m["rebased_onto"] = f"{head} (three-way merge of the patch with later fix: commits; original base {base})"
            json.dump(m, open(mp, "w"), indent=1)
            print(rel, f"rebased {base} -> {head}")
    finally:
        if not any(n.startswith("conflict-") for n in os.listdir(work)):
            shutil.rmtree(work, ignore_errors=True)


if __name__ == "__main__":
    main()
