#!/usr/bin/env python3
"""Regenerates DESIGN.md sections 9 (self-test mutants) and 10 (independently seeded changes) from
selftest/last_run.json and seeded/*/meta.json (between the AUTOGEN markers)."""
import json, os, sys
HERE = os.path.dirname(os.path.dirname(os.path.abspath(__file__)))
sys.path.insert(0, os.path.join(HERE, "selftest"))
from mutants import MUTANTS, CONTROLS, REFACTORINGS  # noqa
MUTANTS = MUTANTS + REFACTORINGS

def esc(s):
    return str(s).replace("|", "\\|").replace("\n", " ")

out = []
out.append("## 9. Self-validation: my own deliberate breaks (selftest/)\n")
out.append("`selftest/run.py --tests` copies /repo to a scratch directory outside /repo and /verif, applies one textual mutant, runs the "
           "repository's own suite on it and the quick check of the property with `VERIF_REPO=<copy>`, and deletes the copy. "
           "Controls are semantics-preserving edits that must stay silent. Result of the last full run (`selftest/last_run.json`):\n")
p = os.path.join(HERE, "selftest", "last_run.json")
res = {r["id"]: r for r in json.load(open(p))} if os.path.exists(p) else {}
out.append("| mutant | prop | what it breaks | repo suite | verdict of the check (first signatures) |")
out.append("|---|---|---|---|---|")
n_ok = n = 0
for m in MUTANTS:
    mid, prop, _, _, _, note = m
    r = res.get(mid, {})
    tests = r.get("tests") or "?"
    green = "green" if tests == "green" else ("1 test fails" if tests.startswith("RED") else "?")
    if mid in CONTROLS:
        verdict = "control - silent" if r.get("fired") is False else "control - FIRED (false alarm)"
    else:
        verdict = ("caught: " + ", ".join(esc(s.split(":", 1)[-1]) for s in (r.get("sigs") or [])[:2])) if r.get("fired") else "MISSED"
    n += 1
    n_ok += r.get("status") == "ok"
    out.append(f"| `{mid}` | {prop} | {esc(note)} | {green} | {verdict} |")
out.append(f"\n{n_ok}/{n} as expected.\n")

out.append("## 10. Independently seeded breaking changes (seeded/)\n")
out.append("Produced by fresh sub-agents that were given only the text of one property and a private git worktree of /repo "
           "(nothing from /verif); eight rounds (a-g and k, 159 changes; one change of round k, C06-k, was not kept: section 8b); rounds b-e, g and k were also told the earlier seeds' summaries and asked for a different "
           "mechanism, code site and trigger (rounds g and k additionally got a description of what a strong tester already does; round k covers all twenty properties), round f used the original unbiased prompt again. Each was confirmed by `tools/seed.py verify` on scratch copies: patch applies, the repository's own suite stays green "
           "with the change, the demonstration exits 1 with it and 0 without it; then the property's quick check was run with "
           "`VERIF_REPO=<patched copy>`. 'first run' = verdict of the check as it was when the seed arrived; misses were answered by strengthening "
           "the generator/oracle (never by special-casing the seed), column 'now' is the verdict of the committed check.\n")
out.append("| seed | what the change does | needs | first run | now (signatures) |")
out.append("|---|---|---|---|---|")
base = os.path.join(HERE, "seeded")
tot = caught = first = 0
for sid in sorted(os.listdir(base)):
    mp = os.path.join(base, sid, "meta.json")
    if not os.path.exists(mp):
        continue
    m = json.load(open(mp))
    q = m.get("checks", {}).get("quick", {}).get(m["breaks"], {})
    now = ("caught: " + ", ".join(esc(s.split(":", 1)[-1]) for s in q.get("sigs", [])[:2])) if q.get("fired") else "MISSED"
    if not q.get("fired") and m.get("neutralised"):
        now = "no longer a defect: " + esc(m["neutralised"])
    if not q.get("fired") and m.get("caught_by") and m["breaks"] not in m["caught_by"]:
        now = "caught by " + ", ".join(m["caught_by"]) + " (not by " + m["breaks"] + ")"
    fr = m.get("first_run", "caught" if q.get("fired") else "missed")
    tot += 1
    caught += bool(q.get("fired")) or bool(m.get("neutralised")) or bool(m.get("caught_by"))
    first += fr == "caught"
    out.append(f"| {sid} | {esc(m['summary'])[:330]} | {esc(m['needs'])[:260]} | {fr} | {now} |")
out.append(f"\n{tot} seeded changes confirmed; {first} caught on the first run, {caught} caught by the committed checks.\n")

out.append("## 11. Independently produced property-PRESERVING changes (preserving/): false-alarm controls\n")
out.append("Produced by fresh sub-agents given only the text of one property and a private worktree, asked for realistic maintenance work in the "
           "anchored code (restructured control flow, renamed/moved private helpers, precompiled regexes, caches in private tables, reworded "
           "log/abort/exception texts, new optional parameters with behaviour-keeping defaults) that keeps the property for every input. "
           "`tools/preserve.py verify` confirmed on scratch copies that the repository's suite stays green and that the agent's differential "
           "demo prints the same digest with and without the change, then ran ALL 20 quick checks with `VERIF_REPO=<patched copy>`; every exit "
           "code must be 0 (a VIOLATION or an INCONCLUSIVE would both count as an alarm).\n")
out.append("P-* = behaviour-preserving maintenance (round p), Q-* = behaviour-changing in respects the statement leaves open (round q: "
           "demo prints PROPERTY-OK with and without the change and a different BEHAVIOUR digest).\n")
out.append("| change | anchored at | lines (+/-) | what it does | checks run | alarms |")
out.append("|---|---|---|---|---|---|")
pbase = os.path.join(HERE, "preserving")
ptot = palarm = 0
for pid in sorted(os.listdir(pbase)) if os.path.isdir(pbase) else []:
    m = json.load(open(os.path.join(pbase, pid, "meta.json")))
    ns = "; ".join("+%s/-%s %s" % tuple(l.split("\t")) for l in m.get("numstat", "").splitlines())
    runs = sum(len(t) for t in m.get("checks", {}).values())
    ptot += 1
    palarm += bool(m.get("alarms"))
    al = ', '.join(m.get('alarms') or []) or 'none'
    if m.get('alarm_assessment'):
        al += " - " + "; ".join(f"{k}: {esc(v)}" for k, v in m['alarm_assessment'].items())
    if m.get('demo_note'):
        al += " (demo note: " + esc(m['demo_note'])[:300] + ")"
    out.append(f"| {pid} | {m['property']} | {esc(ns).replace('bibtexparser/', '')} | {esc(m['summary'])[:420]} | {runs} | {al} |")
out.append(f"\n{ptot} non-breaking changes, {palarm} with an alarm (assessed in the last column).\n")

out.append("## 12. Independent bug hunt on the unchanged tree (hunt/): findings and dispositions\n")
out.append("Round h: 20 fresh sub-agents, one per property, given only the property text and a worktree of the unchanged repository, asked to REFUTE "
           "the property with their own enumerators and oracles (deliverables per property in `hunt/Cxx/`: findings.json, repro.py, coverage.md). "
           "Every reported mechanism was triaged against the literal statement: *fixed* = genuine defect, the check was first widened until it fired "
           "on the unchanged tree, then the repository was repaired; *known* = genuine, recorded in known_findings.json; *reading* = depends on a "
           "reading of the statement that the check does not adopt (reason given); *outside* = outside the quantifier (reason given). "
           "Where a genuine finding had been hidden by a carve-out of my own generator or oracle, the disposition says so.\n")
for rnd, sub in (("h", "hunt"), ("i (second hunt, on the tree repaired after round h; hunters were told what had been reported before)", "hunt2"),
                 ("j (third hunt, ten properties with the richest history, on the tree repaired after round i; hunters were also pointed at the fix: commits)", "hunt3")):
    hb = os.path.join(HERE, sub)
    if not os.path.isdir(hb):
        continue
    disp = json.load(open(os.path.join(hb, "dispositions.json"))) if os.path.exists(os.path.join(hb, "dispositions.json")) else {}
    cnt = {}
    out.append(f"\n**Round {rnd}**\n")
    out.append("| finding | hunter's confidence | mechanism (hunter's words, shortened) | disposition |")
    out.append("|---|---|---|---|")
    none = []
    for pid in sorted(x for x in os.listdir(hb) if x.startswith("C")):
        fs = json.load(open(os.path.join(hb, pid, "findings.json")))
        if not fs:
            none.append(pid)
        for j, f in enumerate(fs, 1):
            k = f"{pid}-{j}"
            dv = disp.get(k, ["?", "?"])
            cnt[dv[0].split(" ")[0]] = cnt.get(dv[0].split(" ")[0], 0) + 1
            out.append(f"| {k} | {esc(f.get('confidence', '?'))[:12]} | {esc(f['mechanism'])[:260]} | **{esc(dv[0])}** - {esc(dv[1])} |")
    out.append("\n" + ", ".join(f"{v} {k}" for k, v in sorted(cnt.items())) + (f"; no finding at all for {', '.join(none)}" if none else "") + ".\n")

out.append("## 13. What the committed evidence files record (quick tier, seed 0, this machine)\n")
out.append("Budgets in the summary table of section 0 are the design-time estimates; these are the measured figures of the last run of every check "
           "in /verif (16 worker processes). The thorough tier multiplies the random parts by 25-60 and raises the exhaustive bounds by one.\n")
out.append("| check | wall time | monitor evaluations | cases | distinct non-trivial cases | abstract states | known findings reproduced |")
out.append("|---|---|---|---|---|---|---|")
for i in range(1, 21):
    ep = os.path.join(HERE, "evidence", "C%02d.json" % i)
    if not os.path.exists(ep):
        continue
    e = json.load(open(ep))
    c = e["coverage"]
    out.append(f"| C{i:02d} | {e.get('wall_s')} s | {c.get('evaluations')} | {c.get('cases')} | {c.get('distinct_nontrivial')} | {c.get('abstract_states_observed')} | {len(c.get('known_findings_reproduced') or [])} |")
out.append("")

text = "\n".join(out)
dp = os.path.join(HERE, "DESIGN.md")
s = open(dp).read()
B, E = "<!-- AUTOGEN-TABLES-BEGIN -->", "<!-- AUTOGEN-TABLES-END -->"
if B in s:
    s = s[:s.index(B) + len(B)] + "\n" + text + "\n" + s[s.index(E):]
else:
    s = s.rstrip("\n") + "\n\n---------------------------------------------------------------------------------------\n\n" + B + "\n" + text + "\n" + E + "\n"
open(dp, "w").write(s)
print("tables written:", n, "mutants,", tot, "seeds")
