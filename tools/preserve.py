#!/usr/bin/env python3
"""False-alarm controls produced independently (sub-agent): a realistic, property-PRESERVING change
(refactoring, optimisation, rewording) in a scratch worktree.  Every check must stay silent on it.

tools/preserve.py verify <worktree> <id> [--tier quick|thorough] [--only Cxx ...]
   1. copies /repo twice to scratch dirs outside /repo and /verif, applies <worktree>/_seed/patch.diff to one
   2. runs the repository's own suite on the patched copy (must be green)
   3. runs _seed/demo.py on both copies; the DIGEST lines must be identical
   4. runs ALL 20 checks with VERIF_REPO=<patched copy>; every exit code must be 0
   5. files patch.diff, demo.py, meta.json (+ what was observed) under /verif/preserving/<id>/
tools/preserve.py recheck [id ...]    re-runs step 4 for the filed changes
"""
import argparse
import json
import os
import shutil
import subprocess
import sys
from concurrent.futures import ThreadPoolExecutor

sys.path.insert(0, os.path.dirname(os.path.abspath(__file__)))
from seed import ALL, PY, VERIF, apply_patch, copy_repo, differential  # noqa: E402


def run_checks(copy, props, tier, jobs=3):
    def one(p):
        r = subprocess.run([os.path.join(VERIF, "check"), p, "--tier", tier, "--no-shrink"], cwd=VERIF, capture_output=True, text=True,
                           env=dict(os.environ, VERIF_REPO=copy, VERIF_WORKERS=os.environ.get("VERIF_WORKERS", "5")))
        sigs = sorted({l.split("sig=")[1].split(" detail=")[0] for l in r.stdout.splitlines() if "sig=" in l})
        inc = [l[:300] for l in r.stdout.splitlines() if l.startswith("INCONCLUSIVE")][:2]
        return p, dict(rc=r.returncode, sigs=sigs[:6], sigs_all=sigs, inconclusive=inc)
    with ThreadPoolExecutor(jobs) as ex:
        res = dict(ex.map(one, props))
    for p in props:
        if res[p]["rc"] != 0:
            print(f"   !! check {p} tier={tier}: rc={res[p]['rc']} {res[p]['sigs'][:4]} {res[p]['inconclusive']}", flush=True)
    return res


def digest(out):
    ls = [l for l in out.splitlines() if l.startswith("DIGEST")]
    return ls[-1] if ls else None


def verify(args):
    seed = os.path.join(args.worktree, "_seed")
    meta = json.load(open(os.path.join(seed, "meta.json")))
    patched, clean = copy_repo(), copy_repo()
    try:
        ok, how = apply_patch(os.path.join(seed, "patch.diff"), patched)
        if not ok:
            print("PATCH DOES NOT APPLY", how)
            return 2
        t = subprocess.run([PY, "-m", "pytest", "-q", "-p", "no:cacheprovider", "tests"], cwd=patched, capture_output=True, text=True,
                           env=dict(os.environ, PYTHONPATH=patched))
        suite = t.stdout.strip().splitlines()[-1] if t.stdout.strip() else t.stderr[-200:]
        d1 = subprocess.run([PY, os.path.join(seed, "demo.py")], cwd=patched, capture_output=True, text=True, env=dict(os.environ, PYTHONPATH=patched), timeout=900)
        d0 = subprocess.run([PY, os.path.join(seed, "demo.py")], cwd=clean, capture_output=True, text=True, env=dict(os.environ, PYTHONPATH=clean), timeout=900)
        if args.behaviour:
            # round q: observable behaviour differs in a respect the property leaves open; the agent's own property assertions pass both ways
            last = lambda o, k: ([l for l in o.splitlines() if l.startswith(k)] or [None])[-1]  # noqa
            same = (last(d1.stdout, "PROPERTY-OK") is not None and last(d0.stdout, "PROPERTY-OK") is not None
                    and "PROPERTY-FAIL" not in d1.stdout + d0.stdout and last(d1.stdout, "BEHAVIOUR") != last(d0.stdout, "BEHAVIOUR"))
        else:
            same = digest(d1.stdout) is not None and digest(d1.stdout) == digest(d0.stdout)
        st = subprocess.run(["git", "apply", "--numstat", os.path.join(seed, "patch.diff")], cwd=clean, capture_output=True, text=True).stdout
        print(f"suite: {suite} | demo digests identical: {same} | numstat: {st.strip()!r}")
        props = args.only or ALL
        checks = run_checks(patched, props, args.tier)
        alarms = [p for p, r in checks.items() if r["rc"] != 0]
        dest = os.path.join(VERIF, "preserving", args.id)
        os.makedirs(dest, exist_ok=True)
        for f in ("patch.diff", "demo.py"):
            shutil.copy(os.path.join(seed, f), os.path.join(dest, f))
        json.dump(dict(meta, id=args.id, suite_with_change=suite, suite_green=t.returncode == 0, demo_digests_identical=same, kind="behaviour-changing" if args.behaviour else "behaviour-preserving", numstat=st.strip(),
                       checks={args.tier: checks}, alarms=alarms,
                       what_was_run=["git apply patch.diff on a scratch copy of /repo; pytest tests (PYTHONPATH=copy)",
                                     "demo.py on patched and clean copy, DIGEST lines compared",
                                     f"VERIF_REPO=<patched copy> ./check Cxx --tier {args.tier} for {len(props)} checks"]),
                  open(os.path.join(dest, "meta.json"), "w"), indent=1)
        print(f"{args.id}: suite_green={t.returncode == 0} same_digest={same} alarms={alarms}")
        return 0
    finally:
        shutil.rmtree(patched, ignore_errors=True)
        shutil.rmtree(clean, ignore_errors=True)


def recheck(args):
    base = os.path.join(VERIF, "preserving")
    for pid in args.ids or sorted(os.listdir(base)):
        d = os.path.join(base, pid)
        meta = json.load(open(os.path.join(d, "meta.json")))
        patched = copy_repo()
        try:
            ok, how = apply_patch(os.path.join(d, "patch.diff"), patched)
            if not ok:
                base_commit, res = differential(os.path.join(d, "patch.diff"), args.only or ALL, args.tier, lambda c, ps, t: run_checks(c, ps, t))
                if base_commit is None:
                    print(pid, "PATCH APPLIES TO NO KNOWN TREE")
                    continue
                meta["differential_base"] = base_commit
            else:
                res = run_checks(patched, args.only or ALL, args.tier)
            for r in res.values():
                r.pop("sigs_all", None)
            meta.setdefault("checks", {})[args.tier] = {**meta.get("checks", {}).get(args.tier, {}), **res}
            meta["alarms"] = sorted({p for t in meta["checks"].values() for p, r in t.items() if r["rc"] != 0})
            json.dump(meta, open(os.path.join(d, "meta.json"), "w"), indent=1)
            print(pid, "alarms=", meta["alarms"], flush=True)
        finally:
            shutil.rmtree(patched, ignore_errors=True)


def main():
    ap = argparse.ArgumentParser()
    sub = ap.add_subparsers(dest="cmd", required=True)
    v = sub.add_parser("verify")
    v.add_argument("worktree")
    v.add_argument("id")
    v.add_argument("--behaviour", action="store_true", help="behaviour-changing but property-preserving change (PROPERTY-OK both ways, BEHAVIOUR lines differ)")
    r = sub.add_parser("recheck")
    r.add_argument("ids", nargs="*")
    for s in (v, r):
        s.add_argument("--tier", default="quick")
        s.add_argument("--only", nargs="*")
    args = ap.parse_args()
    return verify(args) if args.cmd == "verify" else recheck(args)


if __name__ == "__main__":
    sys.exit(main())
