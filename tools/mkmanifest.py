#!/usr/bin/env python3
"""Regenerates MANIFEST.json from the property modules that exist (vlib/props/cXX.py with MANIFEST dict)."""
import importlib, json, os, sys
HERE = os.path.dirname(os.path.dirname(os.path.abspath(__file__)))
sys.path.insert(0, HERE)
props = [json.loads(l) for l in open(os.path.join(HERE, "properties.jsonl"))]
checks, na = [], []
for p in props:
    pid = p["id"]
    path = os.path.join(HERE, "vlib", "props", pid.lower() + ".py")
    if not os.path.exists(path):
        na.append(dict(property_id=pid, reason="check not built yet (work in progress; the design in DESIGN.md section 5 applies)"))
        continue
    src = open(path).read()
    meta = {}
    # META is a plain dict literal assigned at module level: parse it without importing the repo
    import ast
    tree = ast.parse(src)
    for node in tree.body:
        if isinstance(node, ast.Assign) and getattr(node.targets[0], "id", "") == "META":
            meta = ast.literal_eval(node.value)
    checks.append(dict(
        property_id=pid,
        quick_cmd=f"./check {pid} --tier quick",
        thorough_cmd=f"./check {pid} --tier thorough",
        evidence_file=f"/verif/evidence/{pid}.json",
        replay_cmd_template=f"./check {pid} --replay {{path}}",
        engine="vlib",
        level_claimed=dict(category="exploration", text=meta.get("level_text", "held on the executions observed by the monitors"),
                           design_ref=f"DESIGN.md section 5, {pid}"),
        level_note=meta.get("level_note", "trusts CPython, the harness reference models and the generators' reach"),
        technique=meta.get("technique", "runtime monitoring"),
    ))
man = dict(
    version=1,
    setup_cmd="./setup.sh",
    hooks=dict(guard="BIBTEXPARSER_VERIF", enable="no source hooks are needed: monitors attach from outside (icontract wrappers, sys.monitoring, audit hooks); checks import bibtexparser from /repo's working tree via PYTHONPATH",
               baseline_off_cmd="cd /repo && /venv/bin/python -m pytest -ra -q -p no:cacheprovider --timeout=900 --continue-on-collection-errors",
               source_commits=[], add_only=True),
    engines=[dict(name="vlib", path="/verif/vlib", serves_properties=[c["property_id"] for c in checks],
                  kind_free_text="runtime monitors (icontract contracts, sys.monitoring tracer, audit hooks, executable reference models) over generated workloads; 16 worker subprocesses")],
    checks=checks,
    notes="All verdicts are 'held on the executions observed'; exit 2 + INCONCLUSIVE when a deciding monitor was not reached. See DESIGN.md.",
    not_applicable=na,
)
json.dump(man, open(os.path.join(HERE, "MANIFEST.json"), "w"), indent=1)
import jsonschema
jsonschema.validate(man, json.load(open("/root/.vp/MANIFEST.schema.json")))
print("MANIFEST ok:", len(checks), "checks,", len(na), "not_applicable")
