#!/usr/bin/env python3
"""Validate and file a seeded defect produced independently (sub-agent) in a scratch worktree.

tools/seed.py verify <worktree> <seed-id> [--tier quick|thorough] [--all]
   1. copies /repo (HEAD working tree) twice to scratch dirs outside /repo and /verif
   2. applies <worktree>/_seed/patch.diff to one copy
   3. runs the repository's own test suite on the patched copy           (must be green)
   4. runs _seed/demo.py on the patched copy (must exit 1) and on the clean copy (must exit 0)
   5. runs ./check <property> (and with --all every check) with VERIF_REPO=<patched copy>
   6. stores patch.diff, demo.py, meta.json (+ what was run / observed) under /verif/seeded/<seed-id>/
tools/seed.py recheck [seed-id ...]   re-runs step 5 for filed seeds (all if none given)
"""
import argparse
import json
import os
import shutil
import subprocess
import sys
import tempfile

VERIF = os.path.dirname(os.path.dirname(os.path.abspath(__file__)))
REPO = "/repo"
PY = "/venv/bin/python"
ALL = ["C%02d" % i for i in range(1, 21)]


def copy_repo():
    d = tempfile.mkdtemp(prefix="verif-seed-")
    subprocess.run(["rsync", "-a", "--exclude", ".git", "--exclude", "__pycache__", "--exclude", "_seed", REPO + "/", d + "/"], check=True)
    return d


def copy_repo_at(commit):
    """Scratch copy of /repo as of an earlier commit (for patches that no later tree accepts)."""
    d = tempfile.mkdtemp(prefix="verif-seed-")
    p = subprocess.Popen(["git", "-C", REPO, "archive", commit], stdout=subprocess.PIPE)
    subprocess.run(["tar", "x", "-C", d], stdin=p.stdout, check=True)
    p.wait()
    return d


def base_commit_for(patch):
    """Newest /repo commit on which the patch applies cleanly."""
    for c in subprocess.run(["git", "-C", REPO, "log", "--format=%h", "-60"], capture_output=True, text=True).stdout.split():
        d = copy_repo_at(c)
        try:
            if subprocess.run(["git", "apply", "--check", patch], cwd=d, capture_output=True).returncode == 0:
                return c
        finally:
            shutil.rmtree(d, ignore_errors=True)
    return None


def differential(patch, props, tier, run):
    """For a patch that only applies to an earlier tree: run the checks on that tree with and without the patch and report,
    per property, the signatures that appear only with the patch (the earlier tree lacks later fixes, so both runs
    report the since-fixed defects alike)."""
    base = base_commit_for(patch)
    if base is None:
        return None, {}
    a, b = copy_repo_at(base), copy_repo_at(base)
    try:
        subprocess.run(["git", "apply", patch], cwd=b, check=True)
        ra, rb = run(a, props, tier), run(b, props, tier)
        out = {}
        for p in props:
            new = sorted(set(rb[p]["sigs_all"]) - set(ra[p]["sigs_all"]))
            worse = rb[p]["rc"] == 2 and ra[p]["rc"] != 2
            out[p] = dict(rc=1 if new else (2 if worse else 0), fired=bool(new), sigs=new[:6], differential_base=base,
                          inconclusive=rb[p].get("inconclusive", []) if worse else [])
            print(f"   check {p} (differential on {base}): new signatures with the patch: {new[:4]}", flush=True)
        return base, out
    finally:
        shutil.rmtree(a, ignore_errors=True)
        shutil.rmtree(b, ignore_errors=True)


def apply_patch(patch, cwd):
    """git apply; if the context moved (a later fix: commit touched neighbouring lines) fall back to patch(1) with fuzz."""
    ap = subprocess.run(["git", "apply", patch], cwd=cwd, capture_output=True, text=True)
    if ap.returncode == 0:
        return True, "git apply"
    pp = subprocess.run(["patch", "-p1", "-F3", "--no-backup-if-mismatch", "-i", patch], cwd=cwd, capture_output=True, text=True)
    return pp.returncode == 0, "patch -F3: " + (pp.stdout + pp.stderr)[-300:]


def run_checks(copy, props, tier):
    res = {}
    for p in props:
        r = subprocess.run([os.path.join(VERIF, "check"), p, "--tier", tier, "--no-shrink"], cwd=VERIF, capture_output=True, text=True,
                           env=dict(os.environ, VERIF_REPO=copy, VERIF_WORKERS=os.environ.get("VERIF_WORKERS", "8")))
        sigs = sorted({l.split("sig=")[1].split(" detail=")[0] for l in r.stdout.splitlines() if "sig=" in l})
        res[p] = dict(rc=r.returncode, fired=(r.returncode == 1 and "VIOLATION property=" in r.stdout), sigs=sigs[:6], sigs_all=sigs,
                      inconclusive=[l for l in r.stdout.splitlines() if l.startswith("INCONCLUSIVE")][:2])
        print(f"   check {p} tier={tier}: rc={r.returncode} fired={res[p]['fired']} {sigs[:3]}", flush=True)
    return res


def verify(args):
    wt = args.worktree
    seed = os.path.join(wt, "_seed")
    meta = json.load(open(os.path.join(seed, "meta.json")))
    prop = meta["property"].upper()
    patched, clean = copy_repo(), copy_repo()
    out = dict(meta=meta)
    try:
        ok, how = apply_patch(os.path.join(seed, "patch.diff"), patched)
        out["patch_applies"] = ok
        if not ok:
            print("PATCH DOES NOT APPLY", how)
            return 2
        t = subprocess.run([PY, "-m", "pytest", "-q", "-p", "no:cacheprovider", "tests"], cwd=patched, capture_output=True, text=True,
                           env=dict(os.environ, PYTHONPATH=patched))
        out["suite_with_change"] = t.stdout.strip().splitlines()[-1] if t.stdout.strip() else t.stderr[-200:]
        out["suite_green"] = t.returncode == 0
        d1 = subprocess.run([PY, os.path.join(seed, "demo.py")], cwd=patched, capture_output=True, text=True, env=dict(os.environ, PYTHONPATH=patched), timeout=600)
        d0 = subprocess.run([PY, os.path.join(seed, "demo.py")], cwd=clean, capture_output=True, text=True, env=dict(os.environ, PYTHONPATH=clean), timeout=600)
        out["demo_with_change_rc"] = d1.returncode
        out["demo_without_change_rc"] = d0.returncode
        out["demo_output_with_change"] = (d1.stdout + d1.stderr)[-600:]
        print(f"suite: {out['suite_with_change']} | demo with change rc={d1.returncode} without rc={d0.returncode}")
        out["confirmed"] = bool(out["suite_green"] and d1.returncode == 1 and d0.returncode == 0)
        props = ALL if args.all else [prop]
        out["checks"] = {args.tier: run_checks(patched, props, args.tier)}
        out["caught_by"] = [p for p, r in out["checks"][args.tier].items() if r["fired"]]
        dest = os.path.join(VERIF, "seeded", args.seed_id)
        os.makedirs(dest, exist_ok=True)
        for f in ("patch.diff", "demo.py"):
            shutil.copy(os.path.join(seed, f), os.path.join(dest, f))
        meta_out = dict(meta, seed_id=args.seed_id, breaks=prop, confirmed=out["confirmed"], suite_with_change=out["suite_with_change"],
                        demo_with_change_rc=d1.returncode, demo_without_change_rc=d0.returncode,
                        what_was_run=[f"git apply patch.diff on a scratch copy of /repo; {PY} -m pytest tests (PYTHONPATH=copy)",
                                      "demo.py on patched copy and on clean copy", f"VERIF_REPO=<patched copy> ./check <prop> --tier {args.tier}"],
                        checks=out["checks"], caught_by=out["caught_by"])
        json.dump(meta_out, open(os.path.join(dest, "meta.json"), "w"), indent=1)
        print(f"confirmed={out['confirmed']} caught_by={out['caught_by']}")
        return 0
    finally:
        shutil.rmtree(patched, ignore_errors=True)
        shutil.rmtree(clean, ignore_errors=True)


def recheck(args):
    base = os.path.join(VERIF, "seeded")
    ids = args.ids or sorted(os.listdir(base))
    for sid in ids:
        d = os.path.join(base, sid)
        meta = json.load(open(os.path.join(d, "meta.json")))
        patched = copy_repo()
        try:
            ok, how = apply_patch(os.path.join(d, "patch.diff"), patched)
            print(sid, meta["breaks"])
            props = ALL if args.all else [meta["breaks"]]
            if not ok:
                base_commit, res = differential(os.path.join(d, "patch.diff"), props, args.tier, run_checks)
                if base_commit is None:
                    print(sid, "PATCH APPLIES TO NO KNOWN TREE")
                    continue
                meta["differential_base"] = base_commit
            else:
                res = run_checks(patched, props, args.tier)
            for r in res.values():
                r.pop("sigs_all", None)
            meta.setdefault("checks", {})[args.tier] = {**meta.get("checks", {}).get(args.tier, {}), **res}
            meta["caught_by"] = sorted({p for t in meta["checks"].values() for p, r in t.items() if r["fired"]})
            json.dump(meta, open(os.path.join(d, "meta.json"), "w"), indent=1)
        finally:
            shutil.rmtree(patched, ignore_errors=True)


def main():
    ap = argparse.ArgumentParser()
    sub = ap.add_subparsers(dest="cmd", required=True)
    v = sub.add_parser("verify")
    v.add_argument("worktree")
    v.add_argument("seed_id")
    v.add_argument("--tier", default="quick")
    v.add_argument("--all", action="store_true")
    r = sub.add_parser("recheck")
    r.add_argument("ids", nargs="*")
    r.add_argument("--tier", default="quick")
    r.add_argument("--all", action="store_true")
    args = ap.parse_args()
    return verify(args) if args.cmd == "verify" else recheck(args)


if __name__ == "__main__":
    sys.exit(main())
