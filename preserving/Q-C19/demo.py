"""Demo for the C19 control change (model.py: __eq__ -> NotImplemented for foreign
classes, set_field type validation, str/repr of failed blocks).

Prints exactly two final lines:
  BEHAVIOUR <sha256>   - differs with / without the change
  PROPERTY-OK <n>      - number of direct property checks that passed
"""
import copy
import hashlib
import itertools
import logging
import random
import re
import sys
import traceback
from collections import OrderedDict
from unittest import mock

import bibtexparser
from bibtexparser.model import (
    DuplicateBlockKeyBlock,
    DuplicateFieldKeyBlock,
    Entry,
    ExplicitComment,
    Field,
    ImplicitComment,
    ParsingFailedBlock,
    Preamble,
    String,
)

BIB = (
    "@string{me = \"My Name\"}\n"
    "@preamble{\"\\newcommand{\\x}{y}\"}\n"
    "@comment{an explicit comment}\n"
    "Some implicit comment\n"
    "@article{first, author = {A. Author}, title = {A {Nested {Deep {Title}}}}, year = 2001}\n"
    "@book{Second,\r\n  Author = {Béla Bartók},\r\n  author = \"lower\",\r\n  AUTHOR = me,\r\n}\r\n"
    "@misc{empty}\n"
    "@misc{uniçode, note = {中文 éè \U0001F600}, title = {}, x = {a} # me # \"b\"}\n"
    "@article{dupfields, title = {one}, title = {two}}\n"
    "@article{first, title = {duplicate block key}}\n"
    "@inproceedings{many, a = 1, b = 2, c = 3, d = 4, e = 5, f = 6, g = 7}\n"
)

logging.disable(logging.CRITICAL)  # the parser logs about failed blocks; keep output clean

KEYS = ["author", "Author", "AUTHOR", "title", "year", "kéy", "new", "id", "entrytype"]

checks = 0


class PropertyFailure(Exception):
    pass


def ok(cond, what):
    global checks
    if not cond:
        raise PropertyFailure(what)
    checks += 1


def views_agree(entry, model, what):
    fields = entry.fields
    fd = entry.fields_dict
    items = entry.items()
    ok([f.key for f in fields] == list(model.keys()), what + ": field order")
    ok([f.value for f in fields] == list(model.values()), what + ": field values")
    ok(list(fd.keys()) == list(model.keys()), what + ": fields_dict order")
    ok(all(fd[f.key] is f for f in fields), what + ": fields_dict same fields")
    ok(items[0] == ("ENTRYTYPE", entry.entry_type), what + ": items ENTRYTYPE")
    ok(items[1] == ("ID", entry.key), what + ": items ID")
    ok(items[2:] == list(model.items()), what + ": items order")
    ok(entry["ENTRYTYPE"] == entry.entry_type, what + ": ENTRYTYPE lookup")
    ok(entry["ID"] == entry.key, what + ": ID lookup")


def apply_op(entry, model, op, key, value):
    """Apply one operation to the entry and to the model dict, compare results."""
    what = f"{op}({key!r})"
    if op == "set_field":
        entry.set_field(Field(key, value))
        model[key] = value
    elif op == "setitem":
        entry[key] = value
        model[key] = value
    elif op == "pop":
        sentinel = object()
        got = entry.pop(key, sentinel)
        exp = model.pop(key, sentinel)
        if exp is sentinel:
            ok(got is sentinel, what + ": default returned")
        else:
            ok(isinstance(got, Field) and got.key == key and got.value == exp, what + ": popped")
    elif op == "pop_nodefault":
        got = entry.pop(key)
        exp = model.pop(key, None)
        if exp is None:
            ok(got is None, what + ": None returned")
        else:
            ok(got.key == key and got.value == exp, what + ": popped")
    elif op == "delitem":
        # Only exercised on present keys (removal closes the gap).
        if key in model:
            del entry[key]
            del model[key]
    elif op == "get":
        sentinel = object()
        got = entry.get(key, sentinel)
        if key in model:
            ok(got.key == key and got.value == model[key], what + ": get present")
        else:
            ok(got is sentinel, what + ": get default")
            ok(entry.get(key) is None, what + ": get None")
    elif op == "contains":
        ok((key in entry) == (key in model), what + ": membership")
    elif op == "getitem":
        try:
            got = entry[key]
            raised = False
        except KeyError:
            raised = True
        if key in model:
            ok(not raised and got == model[key], what + ": lookup present")
        else:
            ok(raised, what + ": lookup missing raises KeyError")
    else:  # pragma: no cover
        raise AssertionError(op)
    views_agree(entry, model, what)


OPS = ["set_field", "setitem", "pop", "pop_nodefault", "delitem", "get", "contains", "getitem"]


def fresh_entries():
    lib = bibtexparser.parse_string(BIB)
    return lib, [e for e in lib.entries]


def model_of(entry):
    return OrderedDict((f.key, f.value) for f in entry.fields)


def check_sequences():
    rnd = random.Random(1919)
    _, entries = fresh_entries()
    ok(len(entries) >= 5, "parsed entries available")
    # random, depth 30
    for round_ in range(12):
        _, entries = fresh_entries()
        for entry in entries:
            model = model_of(entry)
            ok(len(set(model)) == len(entry.fields), "distinct keys at start")
            views_agree(entry, model, "initial")
            for step in range(30):
                op = rnd.choice(OPS)
                key = rnd.choice(KEYS + list(model.keys()))
                apply_op(entry, model, op, key, f"v{round_}.{step}")
    # bounded exhaustive, depth 2 over a reduced pool, on copies of two entries
    small_keys = ["author", "Author", "title"]
    _, entries = fresh_entries()
    bases = [e for e in entries if e.key in ("first", "empty")]
    for base in bases:
        for seq in itertools.product(itertools.product(OPS, small_keys), repeat=2):
            entry = copy.deepcopy(base)
            model = model_of(entry)
            for i, (op, key) in enumerate(seq):
                apply_op(entry, model, op, key, f"x{i}")


def check_equality():
    lib, _ = fresh_entries()
    good = [b for b in lib.blocks if not isinstance(b, ParsingFailedBlock)]
    ok(
        {type(b) for b in good} >= {Entry, String, Preamble, ExplicitComment, ImplicitComment},
        "all block kinds parsed",
    )
    # copies
    for b in good:
        ok(copy.copy(b) == b and b == copy.copy(b), "copy equal")
        ok(copy.deepcopy(b) == b and b == copy.deepcopy(b), "deepcopy equal")
        ok(not (copy.deepcopy(b) != b), "deepcopy not unequal")
        if isinstance(b, Entry):
            for f in b.fields:
                ok(copy.copy(f) == f and copy.deepcopy(f) == f, "field copies equal")
    # distinct blocks compare unequal in both directions (different class or content)
    for a, b in itertools.permutations(good, 2):
        ok(not (a == b) and (a != b), "distinct parsed blocks unequal")
    # single attribute perturbations
    for b in good:
        for attr in sorted(vars(b)):
            c = copy.deepcopy(b)
            old = getattr(c, attr)
            if isinstance(old, str):
                new = old + "!"
            elif isinstance(old, int):
                new = old + 1
            elif isinstance(old, dict):
                new = dict(old, extra=1)
            elif isinstance(old, list):
                new = None
            elif old is None:
                new = "was-none"
            else:  # pragma: no cover
                continue
            setattr(c, attr, new)
            ok(c != b and b != c and not (c == b) and not (b == c), f"perturbed {attr} unequal")
            setattr(c, attr, old)
            ok(c == b and b == c, f"restored {attr} equal")
        if isinstance(b, Entry) and b.fields:
            # value-only, key-only, start-line-only, order-only, dropped-field perturbations
            for i, f in enumerate(b.fields):
                for mod in ("value", "key", "line"):
                    c = copy.deepcopy(b)
                    g = c.fields[i]
                    if mod == "value":
                        g.value = str(g.value) + "!"
                    elif mod == "key":
                        g.key = g.key + "_"
                    else:
                        g._start_line = (g.start_line or 0) + 1
                    ok(g != f and f != g and not (g == f), f"field {mod} perturbation unequal")
                    ok(c != b and b != c and not (c == b), f"entry field {mod} perturbation unequal")
                c = copy.deepcopy(b)
                del c.fields[i]
                ok(c != b and b != c, "dropped field unequal")
            if len(b.fields) > 1:
                c = copy.deepcopy(b)
                c.fields.reverse()
                ok(c != b and b != c, "reordered fields unequal")
    # same content, different class
    pairs = [
        (ExplicitComment("c", 1, "r"), ImplicitComment("c", 1, "r")),
        (Preamble("c", 1, "r"), ExplicitComment("c", 1, "r")),
        (String("k", "v", 1, "r"), Entry("k", "v", [], 1, "r")),
    ]
    for a, b in pairs:
        ok(a != b and b != a and not (a == b) and not (b == a), "different class unequal")

    class SubField(Field):
        pass

    class SubEntry(Entry):
        pass

    ok(SubField("k", "v", 1) != Field("k", "v", 1), "subclass field unequal")
    ok(Field("k", "v", 1) != SubField("k", "v", 1), "subclass field unequal (reflected)")
    ok(SubField("k", "v", 1) == SubField("k", "v", 1), "same subclass equal")
    ok(SubEntry("a", "k", []) != Entry("a", "k", []), "subclass entry unequal")
    ok(Entry("a", "k", []) != SubEntry("a", "k", []), "subclass entry unequal (reflected)")
    ok(Field("k", "v", 1) == Field("k", "v", 1), "structural field equality")
    ok(Field("k", "v", 1) != Field("k", "w", 1), "field value matters")
    ok(Field("k", "v", 1) != Field("k", "v", 2), "field line matters")
    ok(Field("k", "v") in [Field("a", "b"), Field("k", "v")], "list membership uses equality")
    ok(Entry("a", "k", [Field("x", 1)]) != Entry("a", "k", ["x"]), "field vs str inside fields")


ADDR = re.compile(r"0x[0-9a-fA-F]+")


def norm(text):
    return ADDR.sub("0xADDR", text)


def behaviour():
    out = []
    lib, entries = fresh_entries()
    e = entries[0]
    f = e.fields[0]
    s = lib.strings[0]
    # 1. direct / reflected comparison with foreign objects
    out.append("Entry.__eq__(e, 5) -> %r" % (e.__eq__(5),))
    out.append("Field.__eq__(f, 'x') -> %r" % (f.__eq__("x"),))
    out.append("String.__eq__(s, e) -> %r" % (s.__eq__(e),))
    out.append("e == mock.ANY -> %r" % (e == mock.ANY,))
    out.append("f == mock.ANY -> %r" % (f == mock.ANY,))
    out.append("e != mock.ANY -> %r" % (e != mock.ANY,))
    out.append("e == 5 -> %r ; e != 5 -> %r" % (e == 5, e != 5))
    # 2. set_field with an ill-typed argument
    for bad in ("author", ("k", "v"), None):
        try:
            e.set_field(bad)
            out.append("set_field(%r) -> no error" % (bad,))
        except Exception as exc:  # noqa
            out.append("set_field(%r) -> %s: %s" % (bad, type(exc).__name__, exc))
    # 3. str / repr of failed blocks
    for fb in lib.failed_blocks:
        out.append("str -> " + norm(str(fb)))
        out.append("repr -> " + norm(repr(fb)))
    return "\n".join(out)


def main():
    try:
        rendering = behaviour()
    except Exception:  # pragma: no cover
        rendering = "behaviour rendering crashed:\n" + traceback.format_exc()
    if "-v" in sys.argv:
        print(rendering)
    try:
        check_sequences()
        check_equality()
        verdict = f"PROPERTY-OK {checks}"
    except PropertyFailure as exc:
        verdict = f"PROPERTY-FAIL {exc}"
    except Exception as exc:  # unexpected crash counts as a failure, but exit 0
        verdict = f"PROPERTY-FAIL crashed: {type(exc).__name__}: {exc}"
    print("BEHAVIOUR " + hashlib.sha256(rendering.encode("utf-8")).hexdigest())
    print(verdict)
    return 0


if __name__ == "__main__":
    sys.exit(main())
