"""Demo for the C16 behaviour-changing / property-preserving change.

Prints two final lines:
  BEHAVIOUR <sha256>   -- rendering of the observable behaviour affected by the change
  PROPERTY-OK <n>      -- number of direct checks of property C16 that passed
"""
import hashlib
import itertools
import random
import sys
import traceback
from copy import deepcopy

from bibtexparser.library import Library
from bibtexparser.middlewares.sorting_blocks import SortBlocksByTypeAndKeyMiddleware
from bibtexparser.model import (
    DuplicateBlockKeyBlock,
    Entry,
    ExplicitComment,
    Field,
    ImplicitComment,
    ParsingFailedBlock,
    Preamble,
    String,
)

FIVE = (String, Preamble, Entry, ImplicitComment, ExplicitComment)
COMMENTS = (ImplicitComment, ExplicitComment)


# --------------------------------------------------------------------------- behaviour
def _exc(fn):
    try:
        r = fn()
        return "OK:" + type(r).__name__
    except Exception as e:  # noqa
        return type(e).__name__ + ":" + str(e)


def behaviour_rendering():
    out = []
    mw = SortBlocksByTypeAndKeyMiddleware()
    custom_repr = type(mw).__repr__ is not object.__repr__
    out.append("custom_repr=%s" % custom_repr)
    if custom_repr:
        out.append(repr(mw))
        out.append(repr(SortBlocksByTypeAndKeyMiddleware((Entry,), False)))
        out.append(repr(SortBlocksByTypeAndKeyMiddleware(())))
    out.append("has block_type_order=%s" % hasattr(mw, "block_type_order"))
    out.append("has preserve_comments_on_top=%s" % hasattr(mw, "preserve_comments_on_top"))
    lst = SortBlocksByTypeAndKeyMiddleware([Entry, String])
    out.append("list stored as " + type(lst._block_type_order).__name__)
    # arguments outside the property's quantifier (ill-typed / duplicated type orders)
    out.append(_exc(lambda: SortBlocksByTypeAndKeyMiddleware((Entry, "String"))))
    out.append(_exc(lambda: SortBlocksByTypeAndKeyMiddleware((Entry, 3))))
    out.append(_exc(lambda: SortBlocksByTypeAndKeyMiddleware((Entry, int))))
    out.append(_exc(lambda: SortBlocksByTypeAndKeyMiddleware((Entry, String, Entry))))
    out.append(_exc(lambda: SortBlocksByTypeAndKeyMiddleware(Entry)))
    out.append(_exc(lambda: SortBlocksByTypeAndKeyMiddleware("Entry")))
    out.append(_exc(lambda: SortBlocksByTypeAndKeyMiddleware(None)))

    def dup():
        lib = Library([Entry("article", "k", [])])
        lib.add([Entry("book", "k", []), Entry("book", "z", []), Entry("misc", "k", [])],
                fail_on_duplicate_key=True)

    out.append(_exc(dup))
    return "\n".join(out)


# --------------------------------------------------------------------------- property
def fingerprint(b):
    """Full content rendering of a block (to detect alteration)."""
    parts = [type(b).__name__, repr(b.start_line), repr(b.raw), repr(sorted(b.parser_metadata.items()))]
    if isinstance(b, String):
        parts += [repr(b.key), repr(b.value)]
    elif isinstance(b, Preamble):
        parts += [repr(b.value)]
    elif isinstance(b, COMMENTS):
        parts += [repr(b.comment)]
    elif isinstance(b, Entry):
        parts += [repr(b.entry_type), repr(b.key),
                  repr([(f.key, f.value, f.start_line) for f in b.fields])]
    elif isinstance(b, ParsingFailedBlock):
        parts += [type(b.error).__name__, str(b.error)]
        if isinstance(b, DuplicateBlockKeyBlock):
            parts += [repr(b.key), fingerprint(b.previous_block)]
        if b.ignore_error_block is not None:
            parts += [fingerprint(b.ignore_error_block)]
    return "|".join(parts)


KEYS = ["", "a", "b", "B", "a", "ä", "Zz", "a b", "10", "9"]


def make_block(rng, i):
    kind = rng.randrange(7)
    key = rng.choice(KEYS)
    if kind == 0:
        return String(key, "v%d" % i, start_line=i, raw="@string{%s = {v}}\r\n" % key)
    if kind == 1:
        return Preamble("pre {{%d}}" % i, start_line=i)
    if kind == 2:
        return Entry(rng.choice(["article", "book"]), key,
                     [Field("title", "{T{%d}}" % i), Field("author", "Müller")], start_line=i)
    if kind == 3:
        return ImplicitComment("%% implicit %d" % i, start_line=i)
    if kind == 4:
        return ExplicitComment("explicit %d" % i, start_line=i)
    if kind == 5:
        return ParsingFailedBlock(error=ValueError("boom %d" % i), start_line=i, raw="@article{x,")
    # comment-heavy
    return rng.choice([ImplicitComment("c%d" % i), ExplicitComment("c%d" % i)])


def make_library(rng, n):
    lib = Library()
    for i in range(n):
        lib.add(make_block(rng, i))  # duplicates become DuplicateBlockKeyBlock
    for i, b in enumerate(lib.blocks):
        b.set_parser_metadata("tag", i)
    return lib


def rank(t, order):
    return order.index(t) if t in order else len(order)


def check_one(lib, order, preserve):
    """Direct assertions of the C16 statement. Returns number of checks."""
    before_ids = [id(b) for b in lib.blocks]
    before_fp = [fingerprint(b) for b in lib.blocks]
    before_entries = dict(lib.entries_dict)
    before_strings = dict(lib.strings_dict)

    out = SortBlocksByTypeAndKeyMiddleware(order, preserve).transform(lib)

    # input library unchanged
    assert [id(b) for b in lib.blocks] == before_ids, "input block list changed"
    assert [fingerprint(b) for b in lib.blocks] == before_fp, "input blocks altered"
    assert lib.entries_dict == before_entries and lib.strings_dict == before_strings

    # exactly the input blocks: none lost, duplicated, altered
    tags = [b.parser_metadata["tag"] for b in out.blocks]
    assert sorted(tags) == list(range(len(before_fp))), "not a permutation: %r" % tags
    for b in out.blocks:
        assert fingerprint(b) == before_fp[b.parser_metadata["tag"]], "block altered"
        assert type(b) is type(lib.blocks[b.parser_metadata["tag"]])

    inp = lib.blocks
    if not preserve:
        exp = sorted(range(len(inp)),
                     key=lambda i: (rank(type(inp[i]), order), getattr(inp[i], "key", "")))
        assert tags == exp, "order %r != %r" % (tags, exp)
    else:
        # chunks: run of comments + the non-comment block below; trailing comments = own chunk
        chunks, cur = [], []
        for i, b in enumerate(inp):
            cur.append(i)
            if not isinstance(b, COMMENTS):
                chunks.append(cur)
                cur = []
        if cur:
            chunks.append(cur)

        def ckey(c):
            main = inp[c[-1]]
            return rank(type(main), order), getattr(main, "key", "")

        exp = [i for c in sorted(chunks, key=ckey) for i in c]
        assert tags == exp, "order %r != %r" % (tags, exp)
        # stated directly: every comment run directly above a non-comment block stays there
        pos = {t: p for p, t in enumerate(tags)}
        for c in chunks:
            if not isinstance(inp[c[-1]], COMMENTS):
                assert [pos[i] for i in c] == list(range(pos[c[0]], pos[c[0]] + len(c)))
    return 1


def property_checks():
    rng = random.Random(1601)
    orders = [p for r in range(6) for p in itertools.permutations(FIVE, r)]  # 326
    n = 0
    libs = [Library()]
    # hand-made edge cases
    libs.append(Library([ImplicitComment("only"), ExplicitComment("comments")]))
    libs.append(Library([ExplicitComment("lead"), Entry("article", "", []), String("", "x"),
                         Entry("article", "", []), String("", "y"), ImplicitComment("trail"),
                         ExplicitComment("trail2")]))
    libs.append(Library([Entry("a", "k", []), String("k", "v"), Entry("b", "k", []),
                         ImplicitComment("c"), String("k", "w"), Preamble("p"),
                         ParsingFailedBlock(error=Exception("e")), ExplicitComment("t")]))
    for lib in libs:
        for i, b in enumerate(lib.blocks):
            b.set_parser_metadata("tag", i)
    for _ in range(60):
        libs.append(make_library(rng, rng.randrange(0, 14)))
    for li, lib in enumerate(libs):
        # every library against a varied slice of the 326 type orders, both comment modes
        chosen = orders if li < 4 else rng.sample(orders, 12) + [(), FIVE]
        for order in chosen:
            for preserve in (True, False):
                n += check_one(lib, order, preserve)
    # object reuse across calls + list-typed order (where accepted)
    mw = SortBlocksByTypeAndKeyMiddleware(FIVE, True)
    lib = make_library(rng, 12)
    a = [b.parser_metadata["tag"] for b in mw.transform(lib).blocks]
    b_ = [b.parser_metadata["tag"] for b in mw.transform(lib).blocks]
    assert a == b_
    n += 1
    return n


def main():
    beh = behaviour_rendering()
    print(beh)
    try:
        n = property_checks()
        verdict = "PROPERTY-OK %d" % n
    except Exception as e:  # noqa
        traceback.print_exc(file=sys.stdout)
        verdict = "PROPERTY-FAIL %s: %s" % (type(e).__name__, e)
    print("BEHAVIOUR " + hashlib.sha256(beh.encode("utf-8")).hexdigest())
    print(verdict)


if __name__ == "__main__":
    try:
        main()
    except Exception:  # noqa
        traceback.print_exc(file=sys.stdout)
        print("BEHAVIOUR error")
        print("PROPERTY-FAIL demo crashed")
    sys.exit(0)
