"""Demo for the C20 behaviour-changing / property-preserving change.

Prints exactly two final lines:
    BEHAVIOUR <sha256>      (differs with vs. without the change)
    PROPERTY-OK <n>         (or PROPERTY-FAIL <what>)
"""
import hashlib
import io
import itertools
import logging
import os
import pathlib
import sys
import tempfile
import traceback
import warnings

logging.disable(logging.CRITICAL)
warnings.simplefilter("ignore")

import bibtexparser  # noqa: E402
from bibtexparser import middlewares as mw  # noqa: E402
from bibtexparser.library import Library  # noqa: E402
from bibtexparser.middlewares.middleware import BlockMiddleware  # noqa: E402
from bibtexparser.middlewares.middleware import LibraryMiddleware  # noqa: E402
from bibtexparser.middlewares.parsestack import default_parse_stack  # noqa: E402
from bibtexparser.middlewares.parsestack import default_unparse_stack  # noqa: E402
from bibtexparser.model import Entry  # noqa: E402
from bibtexparser.model import ExplicitComment  # noqa: E402
from bibtexparser.model import Field  # noqa: E402
from bibtexparser.model import ImplicitComment  # noqa: E402
from bibtexparser.model import Preamble  # noqa: E402
from bibtexparser.model import String  # noqa: E402
from bibtexparser.splitter import Splitter  # noqa: E402
from bibtexparser.writer import BibtexFormat  # noqa: E402
from bibtexparser.writer import write  # noqa: E402

TMP = tempfile.mkdtemp(prefix="c20demo-")
with open(os.path.join(TMP, "probe-enc.txt"), "w") as _f:
    DEFAULT_ENC = _f.encoding

# ----------------------------------------------------------------------------
# documents
# ----------------------------------------------------------------------------
DOCS = {
    "empty": "",
    "blank": "  \n\n \t\n",
    "simple": "@article{k1,\n  author = {Doe, Jane and Roe, Richard},\n  title = {A Title},\n  year = 2020,\n  month = jan\n}\n",
    "strings": '@string{jn = "Journal of Nothing"}\n@string{pub = {Pub House}}\n'
    "@article{s1, journal = jn, publisher = pub, title = jn # { extra}}\n",
    "preamble": '@preamble{"\\newcommand{\\x}{y}"}\n@book{b1, title = "Quoted {Braced} Title", month = "March"}\n',
    "comments": "leading implicit comment\n@comment{explicit one}\n@misc{m1, note = {n}}\ntrailing text\n",
    "crlf": "@article{c1,\r\n  title = {CR LF},\r\n  year = {1999}\r\n}\r\n@comment{x}\r\n",
    "unicode": "@article{u1, author = {Müller, Jürgen and Åström, K.}, title = {Étude naïve}}\n",
    "nested": "@article{n1, title = {{{Deep {nested {braces}}}} and {more}}, note = {a {b {c {d}}}}}\n",
    "dupkeys": "@article{d1, title = {one}}\n@article{d1, title = {two}}\n@string{a = {x}}\n@string{a = {y}}\n",
    "dupfields": "@article{f1, title = {one}, title = {two}, year = 1}\n",
    "failed": "@article{bad1, title = {unclosed\n\n@article{ok1, title = {fine}}\n@article{bad2 title}\n",
    "mixed": '@string{s = "S"}\n@preamble{"p"}\n% percent comment\n@comment{c}\n'
    "@inproceedings{z9, author = s, month = 12}\n@article{a1, author = {B and A}, month = feb}\n",
}
ASCII_DOCS = [k for k, v in DOCS.items() if v.isascii()]

# ----------------------------------------------------------------------------
# rendering of libraries (observable content, independent of identity)
# ----------------------------------------------------------------------------


def render_value(v):
    if isinstance(v, (list, tuple)):
        return [render_value(x) for x in v]
    if hasattr(v, "__dict__") and not isinstance(v, type):
        return (type(v).__name__, sorted((k, render_value(x)) for k, x in vars(v).items()))
    return repr(v)


def render_block(b):
    out = [type(b).__name__, b.start_line, b.raw]
    if isinstance(b, Entry):
        out += [b.entry_type, b.key, [(f.key, render_value(f.value)) for f in b.fields]]
    elif isinstance(b, String):
        out += [b.key, render_value(b.value)]
    elif isinstance(b, Preamble):
        out += [render_value(b.value)]
    elif isinstance(b, (ExplicitComment, ImplicitComment)):
        out += [b.comment]
    else:
        out += [type(getattr(b, "error", None)).__name__]
    return out


def render_lib(lib):
    return repr(
        (
            [render_block(b) for b in lib.blocks],
            [render_block(b) for b in lib.failed_blocks],
            [b.key for b in lib.entries],
            [b.key for b in lib.strings],
        )
    )


def outcome(fn):
    """Run fn, return ("ok", value) or ("exc", exception type name)."""
    try:
        return ("ok", fn())
    except Exception as e:  # noqa: BLE001
        return ("exc", type(e).__name__)


# ----------------------------------------------------------------------------
# probe middlewares (order-sensitive)
# ----------------------------------------------------------------------------


class TagBlocks(BlockMiddleware):
    """Appends a tag to a trace field of every entry / to other blocks' payload."""

    def __init__(self, tag, inplace=True):
        super().__init__(allow_inplace_modification=inplace)
        self.tag = tag

    def transform_entry(self, entry, library):
        prev = entry.fields_dict.get("trace")
        prev = prev.value if prev is not None else ""
        entry.set_field(Field("trace", f"{prev}{self.tag}"))
        entry.key = f"{entry.key}{self.tag}"
        return entry

    def transform_string(self, string, library):
        string.value = f"{string.value}{self.tag}"
        return string

    def transform_preamble(self, preamble, library):
        preamble.value = f"{preamble.value}{self.tag}"
        return preamble

    def transform_explicit_comment(self, c, library):
        c.comment = f"{c.comment}{self.tag}"
        return c

    def transform_implicit_comment(self, c, library):
        c.comment = f"{c.comment}{self.tag}"
        return c


class TagLibrary(LibraryMiddleware):
    """Library-level probe: reverses block order and appends a marker comment."""

    def __init__(self, tag):
        super().__init__(allow_inplace_modification=True)
        self.tag = tag

    def transform(self, library):
        blocks = list(reversed(library.blocks))
        blocks.append(ExplicitComment(f"lib-{self.tag}-{len(blocks)}"))
        return Library(blocks=blocks)


class DropOrDup(BlockMiddleware):
    """Drops every block whose index (by call order) is even, duplicates others."""

    def __init__(self, mode):
        super().__init__(allow_inplace_modification=True)
        self.mode = mode

    def transform_block(self, block, library):
        if self.mode == "drop-entries" and isinstance(block, Entry):
            return None
        if self.mode == "dup-entries" and isinstance(block, Entry):
            return [block, ExplicitComment(f"dup-of-{block.key}")]
        if self.mode == "drop-comments" and isinstance(block, (ExplicitComment, ImplicitComment)):
            return []
        return block


PROBE_FACTORIES = {
    "tagA": lambda: TagBlocks("A"),
    "tagB": lambda: TagBlocks("B"),
    "tagC-copy": lambda: TagBlocks("C", inplace=False),
    "libX": lambda: TagLibrary("X"),
    "libY": lambda: TagLibrary("Y"),
    "drop-entries": lambda: DropOrDup("drop-entries"),
    "dup-entries": lambda: DropOrDup("dup-entries"),
    "drop-comments": lambda: DropOrDup("drop-comments"),
}
SHIPPED_PARSE = {
    "resolve": lambda: mw.ResolveStringReferencesMiddleware(),
    "rmenc": lambda: mw.RemoveEnclosingMiddleware(),
    "monthint": lambda: mw.MonthIntMiddleware(),
    "monthabbr": lambda: mw.MonthAbbreviationMiddleware(),
    "monthlong": lambda: mw.MonthLongStringMiddleware(),
    "sortblocks": lambda: mw.SortBlocksByTypeAndKeyMiddleware(),
    "sortfields": lambda: mw.SortFieldsAlphabeticallyMiddleware(),
    "normkeys": lambda: mw.NormalizeFieldKeys(),
    "coauthors": lambda: mw.SeparateCoAuthors(),
    "latexdec": lambda: mw.LatexDecodingMiddleware(),
}
SHIPPED_WRITE = {
    "addenc": lambda: mw.AddEnclosingMiddleware(
        default_enclosing='"', reuse_previous_enclosing=True, enclose_integers=False
    ),
    "monthint": lambda: mw.MonthIntMiddleware(allow_inplace_modification=False),
    "monthlong": lambda: mw.MonthLongStringMiddleware(allow_inplace_modification=False),
    "sortblocks": lambda: mw.SortBlocksByTypeAndKeyMiddleware(),
    "sortfields": lambda: mw.SortFieldsAlphabeticallyMiddleware(),
    "latexenc": lambda: mw.LatexEncodingMiddleware(allow_inplace_modification=False),
}

# ----------------------------------------------------------------------------
# property checks
# ----------------------------------------------------------------------------
CHECKS = 0
FAILURES = []


def check(cond, what):
    global CHECKS
    if cond:
        CHECKS += 1
    else:
        FAILURES.append(what)


def build(names, pool):
    return [pool[n]() for n in names]


def ref_parse(doc, stack):
    lib = Splitter(bibstr=doc).split()
    for m in stack:
        lib = m.transform(library=lib)
    return render_lib(lib)


def ref_write(lib, stack, fmt=None):
    for m in stack:
        lib = m.transform(library=lib)
    return write(lib, bibtex_format=fmt)


def stacks_up_to_3(pool_names, limit_per_len):
    """Deterministic selection of ordered stacks of length 0..3."""
    yield ()
    for n in (1, 2, 3):
        perms = list(itertools.permutations(pool_names, n))
        step = max(1, len(perms) // limit_per_len)
        for p in perms[::step][:limit_per_len]:
            yield p


def check_parse():
    pool = dict(PROBE_FACTORIES)
    pool.update(SHIPPED_PARSE)
    names = sorted(pool)
    stacks = list(stacks_up_to_3(names, 14))
    # always include direct order swaps
    stacks += [("tagA", "tagB"), ("tagB", "tagA"), ("libX", "tagA", "libY"), ("tagA", "libX", "tagB"),
               ("dup-entries", "tagA"), ("tagA", "dup-entries"), ("drop-comments", "libX", "drop-entries")]
    for si, names_ in enumerate(stacks):
        for dname in list(DOCS)[si % 3 :: 3] if len(names_) else DOCS:
            doc = DOCS[dname]
            # (1) explicit parse_stack, exactly and in order
            got = outcome(lambda: render_lib(bibtexparser.parse_string(doc, parse_stack=build(names_, pool))))
            exp = outcome(lambda: ref_parse(doc, build(names_, pool)))
            check(got == exp, f"parse_string parse_stack={names_} doc={dname}")
            # (2) default stack followed by append_middleware in order
            got = outcome(lambda: render_lib(bibtexparser.parse_string(doc, append_middleware=build(names_, pool))))
            exp = outcome(lambda: ref_parse(doc, default_parse_stack(True) + build(names_, pool)))
            check(got == exp, f"parse_string append={names_} doc={dname}")
    # iterables other than lists (tuple / generator) in the argument positions
    for dname in ("simple", "mixed", "failed"):
        doc = DOCS[dname]
        exp = outcome(lambda: ref_parse(doc, build(("tagA", "libX", "tagB"), pool)))
        got = outcome(lambda: render_lib(bibtexparser.parse_string(doc, parse_stack=tuple(build(("tagA", "libX", "tagB"), pool)))))
        check(got == exp, f"parse_string tuple stack doc={dname}")
        got = outcome(lambda: render_lib(bibtexparser.parse_string(doc, parse_stack=iter(build(("tagA", "libX", "tagB"), pool)))))
        check(got == exp, f"parse_string iterator stack doc={dname}")
    # stack object reuse across calls
    stack = build(("tagA", "sortblocks", "tagB"), pool)
    for dname in DOCS:
        a = outcome(lambda: render_lib(bibtexparser.parse_string(DOCS[dname], parse_stack=stack)))
        b = outcome(lambda: render_lib(bibtexparser.parse_string(DOCS[dname], parse_stack=stack)))
        exp = outcome(lambda: ref_parse(DOCS[dname], build(("tagA", "sortblocks", "tagB"), pool)))
        check(a == b == exp, f"parse_string reuse doc={dname}")
    # both -> ValueError
    for ps, am in (([], []), (build(("tagA",), pool), build(("tagB",), pool)), ((), [TagBlocks("Q")]),
                   (default_parse_stack(), [])):
        for dname in ("empty", "simple", "failed"):
            got = outcome(lambda: bibtexparser.parse_string(DOCS[dname], parse_stack=ps, append_middleware=am))
            check(got == ("exc", "ValueError"), f"parse_string both given doc={dname}")


def check_write():
    pool = dict(PROBE_FACTORIES)
    pool.update(SHIPPED_WRITE)
    names = sorted(pool)
    stacks = list(stacks_up_to_3(names, 10))
    stacks += [("tagA", "tagB"), ("tagB", "tagA"), ("libX", "tagA"), ("tagA", "libX"), ("addenc", "tagA", "libY")]
    fmt = BibtexFormat()
    fmt.indent = "  "
    fmt.block_separator = "\n"
    fmt.trailing_comma = True
    for si, names_ in enumerate(stacks):
        for dname in list(DOCS)[si % 3 :: 3] if len(names_) else DOCS:
            doc = DOCS[dname]
            for f in (None, fmt):
                got = outcome(lambda: bibtexparser.write_string(bibtexparser.parse_string(doc), unparse_stack=build(names_, pool), bibtex_format=f))
                exp = outcome(lambda: ref_write(bibtexparser.parse_string(doc), build(names_, pool), f))
                check(got == exp, f"write_string unparse_stack={names_} doc={dname}")
                got = outcome(lambda: bibtexparser.write_string(bibtexparser.parse_string(doc), prepend_middleware=build(names_, pool), bibtex_format=f))
                exp = outcome(lambda: ref_write(bibtexparser.parse_string(doc), build(names_, pool) + default_unparse_stack(False), f))
                check(got == exp, f"write_string prepend={names_} doc={dname}")
    for us, pm in (([], []), (build(("tagA",), pool), build(("tagB",), pool)), (default_unparse_stack(), ())):
        for dname in ("empty", "simple"):
            lib = bibtexparser.parse_string(DOCS[dname])
            got = outcome(lambda: bibtexparser.write_string(lib, unparse_stack=us, prepend_middleware=pm))
            check(got == ("exc", "ValueError"), f"write_string both given doc={dname}")
            target = os.path.join(TMP, "never-written.bib")
            got = outcome(lambda: bibtexparser.write_file(target, lib, parse_stack=us, append_middleware=pm))
            check(got == ("exc", "ValueError"), f"write_file both given doc={dname}")


def check_files():
    pool = dict(PROBE_FACTORIES)
    pool.update(SHIPPED_PARSE)
    n = 0
    for enc in ("utf-8", "latin-1", "gbk", "utf-16"):
        for dname, doc in DOCS.items():
            try:
                data = doc.encode(enc)
            except UnicodeEncodeError:
                continue
            n += 1
            path = os.path.join(TMP, f"in-{n}.bib")
            with open(path, "wb") as f:
                f.write(data)
            with open(path, encoding=enc) as f:
                decoded = f.read()
            for kwargs_names in ({}, {"parse_stack": ("tagA", "libX")}, {"append_middleware": ("tagB", "monthint")},
                                 {"parse_stack": ()}):
                def kw():
                    return {k: build(v, pool) for k, v in kwargs_names.items()}
                got = outcome(lambda: render_lib(bibtexparser.parse_file(path, encoding=enc, **kw())))
                exp = outcome(lambda: render_lib(bibtexparser.parse_string(decoded, **kw())))
                check(got == exp, f"parse_file enc={enc} doc={dname} {kwargs_names}")
            got = outcome(lambda: bibtexparser.parse_file(path, parse_stack=[], append_middleware=[], encoding=enc))
            check(got == ("exc", "ValueError"), f"parse_file both given enc={enc} doc={dname}")

    # write_file: path and file-object targets write exactly what write_string returns
    wpool = dict(PROBE_FACTORIES)
    wpool.update(SHIPPED_WRITE)
    combos = ({}, {"parse_stack": ("tagA", "libX")}, {"append_middleware": ("tagB", "sortfields")},
              {"parse_stack": ()}, {"append_middleware": ("libY", "tagA", "addenc")})
    fmt = BibtexFormat()
    fmt.indent = "    "
    fmt.value_column = "auto"
    k = 0
    for dname, doc in DOCS.items():
        for combo in combos:
            for f in (None, fmt):
                k += 1

                def ws():
                    return bibtexparser.write_string(
                        bibtexparser.parse_string(doc),
                        unparse_stack=build(combo["parse_stack"], wpool) if "parse_stack" in combo else None,
                        prepend_middleware=build(combo["append_middleware"], wpool) if "append_middleware" in combo else None,
                        bibtex_format=f,
                    )

                def kw():
                    return {kk: build(v, wpool) for kk, v in combo.items()}

                exp = outcome(ws)
                # file object: StringIO
                def to_stringio():
                    buf = io.StringIO()
                    bibtexparser.write_file(buf, bibtexparser.parse_string(doc), bibtex_format=f, **kw())
                    return buf.getvalue()
                check(outcome(to_stringio) == exp, f"write_file StringIO doc={dname} {combo}")

                # file object: real text file, explicit utf-8
                def to_fileobj():
                    p = os.path.join(TMP, f"out-fo-{k}.bib")
                    with open(p, "w", encoding="utf-8", newline="") as fh:
                        bibtexparser.write_file(fh, bibtexparser.parse_string(doc), bibtex_format=f, **kw())
                    with open(p, encoding="utf-8", newline="") as fh:
                        return fh.read()
                check(outcome(to_fileobj) == exp, f"write_file file object doc={dname} {combo}")

                # path (str); decoded with the default encoding that open() uses
                def to_path():
                    p = os.path.join(TMP, f"out-p-{k}.bib")
                    bibtexparser.write_file(p, bibtexparser.parse_string(doc), bibtex_format=f, **kw())
                    with open(p, encoding=DEFAULT_ENC, newline="") as fh:
                        return fh.read()
                encodable = True
                if exp[0] == "ok":
                    try:
                        exp[1].encode(DEFAULT_ENC)
                    except UnicodeEncodeError:
                        encodable = False
                if encodable:
                    want = exp if os.linesep == "\n" or exp[0] != "ok" else ("ok", exp[1].replace("\n", os.linesep))
                    check(outcome(to_path) == want, f"write_file path doc={dname} {combo}")


class Returns(BlockMiddleware):
    """Probe returning a prescribed kind of result for blocks of one type."""

    def __init__(self, target_type, kind, k=2, inplace=True):
        super().__init__(allow_inplace_modification=inplace)
        self.target_type = target_type
        self.kind = kind
        self.k = k

    def _many(self, block):
        return [ExplicitComment(f"r{i}-{type(block).__name__}") for i in range(self.k)]

    def transform_block(self, block, library):
        if not isinstance(block, self.target_type):
            return block
        kind = self.kind
        if kind == "none":
            return None
        if kind == "empty-list":
            return []
        if kind == "empty-tuple":
            return ()
        if kind == "one":
            return ExplicitComment(f"one-{type(block).__name__}")
        if kind == "same":
            return block
        if kind == "list":
            return self._many(block)
        if kind == "tuple":
            return tuple(self._many(block))
        if kind == "list-with-self":
            return [block] + self._many(block)
        if kind == "generator":
            return (b for b in self._many(block))
        if kind == "int":
            return 42
        if kind == "object":
            return object()
        if kind == "str":
            return "not a block"
        if kind == "dict":
            return {"a": block}
        if kind == "list-nonblock":
            return [block, 3]
        if kind == "tuple-nonblock":
            return ("x",)
        if kind == "bool":
            return True
        raise AssertionError(kind)


def expected_blocks(blocks, target_type, kind, k):
    """Independent model of in-place replacement; returns rendered blocks or 'TypeError'."""
    out = []
    for b in blocks:
        if not isinstance(b, target_type):
            out.append(render_block(b))
            continue
        many = [render_block(ExplicitComment(f"r{i}-{type(b).__name__}")) for i in range(k)]
        if kind in ("none", "empty-list", "empty-tuple"):
            pass
        elif kind == "one":
            out.append(render_block(ExplicitComment(f"one-{type(b).__name__}")))
        elif kind == "same":
            out.append(render_block(b))
        elif kind in ("list", "tuple"):
            out.extend(many)
        elif kind == "list-with-self":
            out.extend([render_block(b)] + many)
        else:
            return "TypeError"
    return out


def check_block_protocol():
    from bibtexparser.model import ParsingFailedBlock

    doc = (
        "implicit head\n@string{s = {v}}\n@preamble{\"p\"}\n@comment{c1}\n@article{e1, title = {t}}\n"
        "@article{e2, title = s}\nimplicit mid\n@book{e1, title = {dup}}\n@article{broken, title = {x\n\n@misc{e3, note = {n}}\n"
    )
    types = (Entry, String, Preamble, ExplicitComment, ImplicitComment, ParsingFailedBlock)
    ok_kinds = ("none", "empty-list", "empty-tuple", "one", "same", "list", "tuple", "list-with-self")
    bad_kinds = ("generator", "int", "object", "str", "dict", "list-nonblock", "tuple-nonblock", "bool")
    for t in types:
        for kind in ok_kinds + bad_kinds:
            for k in (1, 2, 4) if kind in ("list", "tuple", "list-with-self", "generator") else (2,):
                for inplace in (True, False):
                    base = Splitter(bibstr=doc).split()
                    n_target = sum(isinstance(b, t) for b in base.blocks)
                    assert n_target >= 1, t
                    exp = expected_blocks(base.blocks, t, kind, k)
                    # direct transform
                    got = outcome(lambda: [render_block(b) for b in Returns(t, kind, k, inplace).transform(Splitter(bibstr=doc).split()).blocks])
                    if exp == "TypeError":
                        check(got == ("exc", "TypeError"), f"block protocol {t.__name__}/{kind}/k={k} must raise TypeError, got {got[0]}:{got[1] if got[0]=='exc' else ''}")
                    else:
                        check(got == ("ok", exp), f"block protocol {t.__name__}/{kind}/k={k} replacement in place")
                    # same through the entry point (inside a stack, between two probes)
                    got2 = outcome(lambda: [render_block(b) for b in bibtexparser.parse_string(doc, parse_stack=[Returns(t, kind, k, inplace)]).blocks])
                    check(got2 == got, f"block protocol via parse_string {t.__name__}/{kind}/k={k}")
    # empty library and library without target
    for kind in ok_kinds + bad_kinds:
        got = outcome(lambda: len(Returns(Entry, kind).transform(Library()).blocks))
        check(got == ("ok", 0), f"block protocol on empty library kind={kind}")


# ----------------------------------------------------------------------------
# behaviour affected by the change (message wording, accepted argument kinds)
# ----------------------------------------------------------------------------


def behaviour_rendering():
    out = []

    def record(label, fn):
        with warnings.catch_warnings(record=True) as w:
            warnings.simplefilter("always")
            try:
                r = ("ok", fn())
            except Exception as e:  # noqa: BLE001
                r = ("exc", type(e).__name__, str(e))
            out.append((label, r, [(x.category.__name__, str(x.message)) for x in w]))

    lib = bibtexparser.parse_string(DOCS["simple"])
    record("parse both", lambda: bibtexparser.parse_string("", parse_stack=[], append_middleware=[]))
    record("write both", lambda: bibtexparser.write_string(lib, unparse_stack=[], prepend_middleware=[]))
    record("dup warn parse", lambda: len(bibtexparser.parse_string(DOCS["simple"], append_middleware=[mw.RemoveEnclosingMiddleware()]).blocks))
    record("dup warn write", lambda: bibtexparser.write_string(bibtexparser.parse_string(DOCS["simple"]), prepend_middleware=[mw.AddEnclosingMiddleware(default_enclosing="{", reuse_previous_enclosing=False, enclose_integers=True)]))
    record("illegal output", lambda: Returns(Entry, "int").transform(bibtexparser.parse_string(DOCS["mixed"])))
    record("illegal item", lambda: Returns(String, "list-nonblock").transform(bibtexparser.parse_string(DOCS["mixed"])))

    def pathlike():
        p = pathlib.Path(TMP) / "pathlike.bib"
        bibtexparser.write_file(p, bibtexparser.parse_string(DOCS["simple"]))
        return p.read_text()

    record("pathlib target", pathlike)

    def enc_kw():
        p = os.path.join(TMP, "enc.bib")
        bibtexparser.write_file(p, bibtexparser.parse_string(DOCS["unicode"]), encoding="utf-16")
        with open(p, "rb") as fh:
            return fh.read().hex()

    record("encoding kwarg", enc_kw)
    return repr(out)


def main():
    behaviour = "error"
    try:
        behaviour = behaviour_rendering()
    except Exception:  # noqa: BLE001
        behaviour = "behaviour-rendering-crashed: " + traceback.format_exc()
    try:
        check_parse()
        check_write()
        check_files()
        check_block_protocol()
    except Exception:  # noqa: BLE001
        FAILURES.append("demo crashed: " + traceback.format_exc().replace("\n", " | "))
    if "--verbose" in sys.argv:
        print(behaviour)
    print("BEHAVIOUR " + hashlib.sha256(behaviour.encode("utf-8", "backslashreplace")).hexdigest())
    if FAILURES:
        print("PROPERTY-FAIL " + "; ".join(FAILURES[:5]).replace("\n", " "))
    else:
        print(f"PROPERTY-OK {CHECKS}")


if __name__ == "__main__":
    try:
        main()
    finally:
        import shutil

        shutil.rmtree(TMP, ignore_errors=True)
    sys.exit(0)
