"""Demo for the C02 behaviour-changing control.

Prints exactly two final lines:
  BEHAVIOUR <sha256>   - rendering of the behaviour the change affects
  PROPERTY-OK <n>      - number of property scenario checks that passed
                         (or PROPERTY-FAIL <what>)
Always exits 0.
"""
import hashlib
import logging
import random
import sys
import traceback

logging.disable(logging.CRITICAL)

import bibtexparser  # noqa: E402
from bibtexparser.library import Library  # noqa: E402
from bibtexparser.model import Entry  # noqa: E402
from bibtexparser.model import ExplicitComment  # noqa: E402
from bibtexparser.model import ImplicitComment  # noqa: E402
from bibtexparser.model import ParsingFailedBlock  # noqa: E402
from bibtexparser.model import Preamble  # noqa: E402
from bibtexparser.model import String  # noqa: E402
from bibtexparser.splitter import Splitter  # noqa: E402


# --------------------------------------------------------------------------
# Part 1: observable behaviour touched by the change
# --------------------------------------------------------------------------
def behaviour_rendering() -> str:
    out = []
    padded_preambles = [
        "@preamble{ \"padded\" }",
        "@preamble{\n   \"multi\" # \"line\"\n}",
        "@preamble{\t{x} }\n@preamble{nopad}",
        "@preamble{   }",
        "@preamble{\r\n \"crlf\" \r\n}",
    ]
    for doc in padded_preambles:
        lib = Splitter(doc).split()
        out.append(repr([(type(b).__name__, getattr(b, "value", None)) for b in lib.blocks]))
        out.append(repr([b.raw for b in lib.blocks]))

    malformed = [
        "@article{key, title = {unclosed\n@book{b2, title = {ok}}",
        "@article{key, title = {a} author = {b}}",
        "@string{name \"value\"}",
        "@comment{never closed",
        "@article{key title = {x}}",
    ]
    for doc in malformed:
        lib = Splitter(doc).split()
        for b in lib.failed_blocks:
            out.append("error-str: " + str(b.error))
            out.append("error-args: " + repr(getattr(b.error, "args", None)))
            custom_str = type(b).__str__ is not object.__str__
            out.append("custom-str: " + str(custom_str))
            if custom_str:
                out.append("block-str: " + str(b))
                out.append("block-repr: " + repr(b))
    return "\n".join(out)


# --------------------------------------------------------------------------
# Part 2: direct assertions of property C02 on constructed documents
# --------------------------------------------------------------------------
WORDS = [
    "alpha", "Beta", "gamma-ray", "d_e", "x1", "über", "naïve", "日本語", "Ωmega", "a.b", "p:q",
    "K+R", "it's", "100%", "a/b", "semi;colon", "user@example.com", "at @ sign", "tab\there",
    "\\{", "\\}", "\\\"", "\\,", "\\=", "\\&", "\\'e", "~", "--", "$x^2$", "[1]", "(paren)",
]
TYPES = [
    "article", "Article", "BOOK", "inProceedings", "misc", "commentary", "stringent", "preambles",
    "Ünïcode", "x", "my_type", "type2", "COMMENTS",
]
WS = ["", " ", "  ", "\t", "\n", "\n  ", " \n\t", "\r\n", " \r\n  "]


class Gen:
    def __init__(self, seed):
        self.r = random.Random(seed)
        self.n = 0

    def ws(self):
        return self.r.choice(WS)

    def fresh(self, prefix):
        self.n += 1
        tail = self.r.choice(["", "-a", "_b", ":c", ".d", "+e", "/f", "é", "名"])
        return f"{prefix}{self.n}{tail}"

    def text(self, depth, in_quotes):
        """Text with balanced unescaped braces; no unescaped quote at brace depth 0 if in_quotes."""
        parts = []
        for _ in range(self.r.randint(0, 4)):
            c = self.r.random()
            if c < 0.45 or depth <= 0:
                w = self.r.choice(WORDS)
                parts.append(w)
            elif c < 0.75:
                parts.append("{" + self.text(depth - 1, False) + "}")
            elif c < 0.85:
                # delimiters which are only data inside braces
                parts.append("{" + self.r.choice([",", "=", "a=b, c", '"', 'say "hi"', "#", "@", "@ x"]) + "}")
            elif c < 0.93 and not in_quotes:
                parts.append(self.r.choice([",", "=", " # ", '"q"', "a = b, c"]))
            else:
                parts.append(self.r.choice([" ", "\n", "\t", "\r\n"]))
        return self.r.choice(["", " "]).join(p for p in parts if p is not None)

    def braced(self):
        # everything inside the outer braces is escaped: commas, equals and quotes are data
        return "{" + self.text(self.r.randint(0, 4), False) + "}"

    def quoted(self):
        # inside quotes: commas/equals are data; quotes only inside nested braces
        parts = []
        for _ in range(self.r.randint(0, 4)):
            c = self.r.random()
            if c < 0.5:
                parts.append(self.r.choice(WORDS))
            elif c < 0.65:
                parts.append(self.r.choice([",", "=", "a = b, c", "#", "@.", "x@y;"]))
            else:
                parts.append("{" + self.text(self.r.randint(0, 3), False) + "}")
        return '"' + " ".join(parts) + '"'

    def piece(self):
        c = self.r.random()
        if c < 0.4:
            return self.braced()
        if c < 0.75:
            return self.quoted()
        if c < 0.88:
            return str(self.r.randint(0, 2100))
        return self.r.choice(["jan", "feb", "myName", "ABBR", "x_y", "a.b"])

    def value(self):
        pieces = [self.piece() for _ in range(self.r.choice([1, 1, 1, 2, 3]))]
        out = pieces[0]
        for p in pieces[1:]:
            out += self.r.choice([" # ", "#", "\n  #  ", " #\t"]) + p
        return out

    def entry(self):
        typ = self.r.choice(TYPES)
        key = self.fresh("key")
        fields = []
        for _ in range(self.r.choice([0, 1, 1, 2, 3, 5])):
            fields.append((self.fresh(self.r.choice(["title", "AUTHOR", "year", "x-y", "fü"])), self.value()))
        src = "@" + typ + self.r.choice(["", "", " ", "\t", "  "]) + "{" + self.ws() + key + self.ws()
        if not fields:
            src += self.r.choice(["", ","]) + self.ws() + "}"
        else:
            src += ","
            body = []
            for k, v in fields:
                body.append(self.ws() + k + self.ws() + "=" + self.ws() + v + self.ws())
            src += ",".join(body)
            src += self.r.choice(["", "," + self.ws()]) + "}"
        return src, ("entry", typ.lower(), key, fields)

    def string(self):
        key = self.fresh("str")
        val = self.r.choice([self.braced, self.quoted_balanced])()
        src = "@" + self.r.choice(["string", "String", "STRING"]) + "{" + self.ws() + key + self.ws()
        src += "=" + self.ws() + val + self.ws() + "}"
        return src, ("string", key, val)

    def quoted_balanced(self):
        # for @string/@preamble: the library only balances braces here -> no quote tricks needed
        return '"' + self.text(self.r.randint(0, 3), True) + '"'

    def preamble(self):
        val = self.r.choice([self.braced, self.quoted_balanced])()
        if self.r.random() < 0.3:
            val += " # " + self.quoted_balanced()
        src = "@" + self.r.choice(["preamble", "Preamble", "PREAMBLE"]) + "{" + self.ws() + val + self.ws() + "}"
        return src, ("preamble", val)

    def explicit_comment(self):
        val = self.text(self.r.randint(0, 3), False)
        src = "@" + self.r.choice(["comment", "Comment", "COMMENT"]) + "{" + self.ws() + val + self.ws() + "}"
        return src, ("explicit", val)

    def free_text(self):
        lines = []
        for _ in range(self.r.randint(1, 3)):
            lines.append(
                self.r.choice(
                    [
                        "% a percent comment",
                        "just some free text",
                        "stray } brace, comma = equals \" quote {",
                        "mail me: someone@example.org",
                        "Ünïcödé ☃ 日本語",
                        "  indented inner line",
                        "@ alone",
                        "@notablock without brace",
                    ]
                )
            )
        txt = self.r.choice(["\n", "\r\n", "\n\n"]).join(lines)
        return txt, ("free", txt)

    def document(self):
        blocks = []
        last_free = False  # never emit two adjacent free-text blocks (they would be one block)
        for _ in range(self.r.randint(0, 7)):
            kind = self.r.choice(["entry", "entry", "entry", "string", "preamble", "explicit", "free"])
            if kind == "free" and last_free:
                kind = "entry"
            blocks.append(getattr(self, {"explicit": "explicit_comment", "free": "free_text"}.get(kind, kind))())
            last_free = kind == "free"
        src = self.r.choice(["", "\n", "  \n", "\r\n"])
        expected = []
        for i, (s, e) in enumerate(blocks):
            src += s
            expected.append(e)
            if i + 1 < len(blocks):
                nxt_free = blocks[i + 1][1][0] == "free"
                if e[0] == "free" or nxt_free:
                    src += self.r.choice(["\n", "\n\n", "\r\n", " \n "])
                else:
                    src += self.r.choice(["\n", "\n\n", " ", "", "\r\n", "\t\n"])
        src += self.r.choice(["", "\n", "\n\n", "  ", "\r\n"])
        return src, expected


def check(doc, expected, lib=None):
    """Return None if C02 holds for this document, else a description."""
    lib = Splitter(doc).split(library=lib)
    if lib.failed_blocks:
        return f"failed blocks for {doc!r}"
    blocks = lib.blocks
    if len(blocks) != len(expected):
        return f"{len(blocks)} blocks instead of {len(expected)} for {doc!r}"
    for b, e in zip(blocks, expected):
        if e[0] == "entry":
            _, typ, key, fields = e
            if type(b) is not Entry and not isinstance(b, Entry):
                return f"not an entry: {b!r} in {doc!r}"
            if b.entry_type != typ or b.key != key:
                return f"type/key mismatch {b.entry_type!r}/{b.key!r} vs {typ!r}/{key!r} in {doc!r}"
            got = [(f.key, f.value.strip()) for f in b.fields]
            want = [(k, v.strip()) for k, v in fields]
            if got != want:
                return f"fields mismatch {got!r} vs {want!r} in {doc!r}"
        elif e[0] == "string":
            if not isinstance(b, String) or b.key != e[1] or b.value.strip() != e[2].strip():
                return f"string mismatch {b!r} vs {e!r} in {doc!r}"
        elif e[0] == "preamble":
            if not isinstance(b, Preamble) or b.value.strip() != e[1].strip():
                return f"preamble mismatch {b!r} vs {e!r} in {doc!r}"
        elif e[0] == "explicit":
            if not isinstance(b, ExplicitComment) or b.comment.strip() != e[1].strip():
                return f"explicit comment mismatch {b!r} vs {e!r} in {doc!r}"
        elif e[0] == "free":
            if not isinstance(b, ImplicitComment) or b.comment.strip() != e[1].strip():
                return f"free-text comment mismatch {b!r} vs {e!r} in {doc!r}"
    return None


def handwritten():
    deep = "{" * 300 + "core" + "}" * 300
    return [
        ("", []),
        ("   \n\t\r\n ", []),
        ("@article{k}", [("entry", "article", "k", [])]),
        ("@article{k,}", [("entry", "article", "k", [])]),
        ("@ARTICLE {k, a = 1}", [("entry", "article", "k", [("a", "1")])]),
        ("@article{k, a = 1,}", [("entry", "article", "k", [("a", "1")])]),
        ("@article{k,\r\n a = {x\r\ny},\r\n b = \"z\"\r\n}\r\n",
         [("entry", "article", "k", [("a", "{x\r\ny}"), ("b", '"z"')])]),
        ("@misc{deep, t = " + deep + "}", [("entry", "misc", "deep", [("t", deep)])]),
        ('@misc{q, t = "a {b "c" d} e, f = g"}',
         [("entry", "misc", "q", [("t", '"a {b "c" d} e, f = g"')])]),
        ('@misc{q, t = {a "b, c = d} , u = {x}}',
         [("entry", "misc", "q", [("t", '{a "b, c = d}'), ("u", "{x}")])]),
        ('@misc{q, t = "a" # b # {c} # 12, u = jan}',
         [("entry", "misc", "q", [("t", '"a" # b # {c} # 12'), ("u", "jan")])]),
        ('@misc{q, t = {mail@host and @ x {y}}, u = "p@q"}',
         [("entry", "misc", "q", [("t", "{mail@host and @ x {y}}"), ("u", '"p@q"')])]),
        ('@misc{q, t = {esc \\} \\{ \\" done}, u = "q \\" r"}',
         [("entry", "misc", "q", [("t", '{esc \\} \\{ \\" done}'), ("u", '"q \\" r"')])]),
        ("@string{me = \"My Name\"}", [("string", "me", '"My Name"')]),
        ("@STRING{  me   =   {My {N}ame}   }", [("string", "me", "{My {N}ame}")]),
        ("@preamble{\"\\newcommand{\\x}{y}\"}", [("preamble", '"\\newcommand{\\x}{y}"')]),
        ("@preamble{  \"padded\" # \"more\"  }", [("preamble", '"padded" # "more"')]),
        ("@preamble{\n\t{multi\nline}\n}", [("preamble", "{multi\nline}")]),
        ("@preamble{}", [("preamble", "")]),
        ("@preamble{   }", [("preamble", "")]),
        ("@comment{}", [("explicit", "")]),
        ("@comment{ a {nested, = \"} comment }", [("explicit", 'a {nested, = "} comment')]),
        ("free text only", [("free", "free text only")]),
        ("% c1\n% c2\n@misc{a}\ntrailing { = , \" text",
         [("free", "% c1\n% c2"), ("entry", "misc", "a", []), ("free", 'trailing { = , " text')]),
        ("@misc{a}@misc{b}@string{s={v}}@preamble{ {p} }@comment{c}",
         [("entry", "misc", "a", []), ("entry", "misc", "b", []), ("string", "s", "{v}"),
          ("preamble", "{p}"), ("explicit", "c")]),
        ("@commentary{a, x = {1}}\n@stringent{b}\n@preambles{c}",
         [("entry", "commentary", "a", [("x", "{1}")]), ("entry", "stringent", "b", []),
          ("entry", "preambles", "c", [])]),
        ("@Ünï{日本語-キー, tïtle = {Ünïcödé ☃ 𝔘}}",
         [("entry", "ünï", "日本語-キー", [("tïtle", "{Ünïcödé ☃ 𝔘}")])]),
        ("@preamble{ \"nbsp-padded\" }", [("preamble", '"nbsp-padded"')]),
    ]


def property_checks():
    passed = 0
    for doc, expected in handwritten():
        problem = check(doc, expected)
        if problem:
            return passed, problem
        passed += 1
        # same document into an explicitly passed (fresh) library
        problem = check(doc, expected, lib=Library())
        if problem:
            return passed, "explicit library: " + problem
        passed += 1

    gen = Gen(20261004)
    for i in range(500):
        doc, expected = gen.document()
        problem = check(doc, expected)
        if problem:
            return passed, f"random doc {i}: " + problem
        passed += 1
        if i % 5 == 0:
            # via the public entrypoint without middleware
            lib = bibtexparser.parse_string(doc, parse_stack=[])
            if lib.failed_blocks or len(lib.blocks) != len(expected):
                return passed, f"random doc {i} via parse_string: {doc!r}"
            passed += 1
    return passed, None


def main():
    try:
        rendering = behaviour_rendering()
        digest = hashlib.sha256(rendering.encode("utf-8", "surrogatepass")).hexdigest()
    except Exception:  # pragma: no cover
        digest = hashlib.sha256(traceback.format_exc().encode()).hexdigest()
    try:
        passed, problem = property_checks()
    except Exception:
        passed, problem = 0, "exception: " + traceback.format_exc().replace("\n", " | ")
    if "-v" in sys.argv:
        print(rendering)
    print(f"BEHAVIOUR {digest}")
    if problem:
        print(f"PROPERTY-FAIL {problem}")
    else:
        print(f"PROPERTY-OK {passed}")


if __name__ == "__main__":
    try:
        main()
    finally:
        sys.exit(0)
