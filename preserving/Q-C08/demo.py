"""Demo for the C08 behaviour-changing-but-property-preserving change.

Prints exactly two final lines:
    BEHAVIOUR <sha256>     (differs with / without the change)
    PROPERTY-OK <n>        (or PROPERTY-FAIL <what>)
"""
import hashlib
import itertools
import random
import re
import sys
import traceback

from bibtexparser.library import Library
from bibtexparser.model import DuplicateBlockKeyBlock
from bibtexparser.model import Entry
from bibtexparser.model import ExplicitComment
from bibtexparser.model import Field
from bibtexparser.model import ImplicitComment
from bibtexparser.model import ParsingFailedBlock
from bibtexparser.model import Preamble
from bibtexparser.model import String


# --------------------------------------------------------------------------- universe
def make_universe():
    """Small universe of pairwise unequal blocks with colliding keys."""
    u = []
    n = 0
    for key in ("k1", "k2", "Schlüssel", ""):
        for variant in range(2):
            n += 1
            u.append(
                Entry(
                    entry_type="article" if variant else "book",
                    key=key,
                    fields=[Field(key="title", value=f"Title {{nested {{{n}}}}}\r\n")],
                    start_line=n,
                )
            )
    for key in ("k1", "s"):  # "k1" collides with an entry key, but in the other namespace
        for variant in range(2):
            n += 1
            u.append(String(key=key, value=f"value {n}", start_line=n))
    u.append(Preamble(value='"pre"', start_line=90))
    u.append(ExplicitComment(comment="explicit", start_line=91))
    u.append(ImplicitComment(comment="implicit", start_line=92))
    u.append(ParsingFailedBlock(error=Exception("boom"), start_line=93, raw="@article{"))
    return u


def is_keyed(b):
    return isinstance(b, (Entry, String))


def namespace(b):
    return Entry if isinstance(b, Entry) else String


# --------------------------------------------------------------------------- reference model
class Model:
    """Reference: list of slots; slot = ('own', block) or ('dup', wrapped_block)."""

    def __init__(self):
        self.slots = []

    def copy(self):
        m = Model()
        m.slots = list(self.slots)
        return m

    def key_taken(self, b):
        return any(
            kind == "own" and is_keyed(x) and namespace(x) is namespace(b) and x.key == b.key
            for kind, x in self.slots
        )

    def slot_for(self, b):
        if is_keyed(b) and self.key_taken(b):
            return ("dup", b)
        return ("own", b)


def snapshot(lib):
    return (
        [id(b) for b in lib.blocks],
        sorted((k, id(v)) for k, v in lib.entries_dict.items()),
        sorted((k, id(v)) for k, v in lib.strings_dict.items()),
    )


class PropertyViolation(Exception):
    pass


def need(cond, what):
    if not cond:
        raise PropertyViolation(what)


def check_views(lib, model=None):
    blocks = lib.blocks
    # every held block exactly once (as an object)
    need(len({id(b) for b in blocks}) == len(blocks) or _only_unkeyed_reuse(blocks), "block listed twice")
    entries = [b for b in blocks if isinstance(b, Entry)]
    strings = [b for b in blocks if isinstance(b, String)]
    need(len(lib.entries) == len(entries), "entries length")
    need(all(a is b for a, b in zip(lib.entries, entries)), "entries are not the Entry blocks in order")
    need(len(lib.strings) == len(strings), "strings length")
    need(all(a is b for a, b in zip(lib.strings, strings)), "strings are not the String blocks in order")
    ed, sd = lib.entries_dict, lib.strings_dict
    need(len({e.key for e in entries}) == len(entries), "two held entries share a key")
    need(len({s.key for s in strings}) == len(strings), "two held strings share a key")
    need(set(ed) == {e.key for e in entries}, "entries_dict keys")
    need(all(ed[e.key] is e for e in entries), "entries_dict values")
    need(set(sd) == {s.key for s in strings}, "strings_dict keys")
    need(all(sd[s.key] is s for s in strings), "strings_dict values")
    # partition
    views = [lib.entries, lib.strings, lib.preambles, lib.comments, lib.failed_blocks]
    need(sum(len(v) for v in views) == len(blocks), "views do not cover blocks")
    for b in blocks:
        need(sum(1 for v in views if any(x is b for x in v)) == 1, "block not in exactly one view")
    # against the reference model: insertion order, replace keeps position
    if model is not None:
        need(len(blocks) == len(model.slots), "number of held blocks")
        for b, (kind, x) in zip(blocks, model.slots):
            if kind == "own":
                need(b is x, "held block differs from the model (order/position)")
            else:
                need(isinstance(b, DuplicateBlockKeyBlock), "expected a DuplicateBlockKeyBlock")
                need(b.ignore_error_block is x, "duplicate wraps another block")
                need(b.key == x.key, "duplicate block key")


def _only_unkeyed_reuse(blocks):
    seen = {}
    for b in blocks:
        seen.setdefault(id(b), []).append(b)
    return all(len(v) == 1 or not is_keyed(v[0]) for v in seen.values())


# --------------------------------------------------------------------------- operations
def first_index(lib_blocks, b):
    for i, x in enumerate(lib_blocks):
        if x == b:
            return i
    return None


def apply(lib, model, op):
    """Apply op to library and to the model; check everything the property states."""
    name = op[0]
    before = snapshot(lib)
    raised = None
    if name == "add":
        _, blocks, as_list, fail = op
        arg = list(blocks) if as_list else blocks[0]
        for b in blocks:
            model.slots.append(model.slot_for(b))
        try:
            lib.add(arg, fail_on_duplicate_key=fail)
        except ValueError as e:
            raised = e
            # documented: duplicates are nevertheless added (as DuplicateBlockKeyBlock)
            need(fail, "add raised ValueError although fail_on_duplicate_key=False")
    elif name == "remove":
        _, target = op
        idx = first_index(lib.blocks, target)
        try:
            lib.remove(target)
            need(idx is not None, "remove of a block that is not held did not raise")
            del model.slots[idx]
        except ValueError as e:
            raised = e
            need(idx is None, "remove of a held block raised")
            need(snapshot(lib) == before, "ValueError from remove changed the library")
    elif name == "replace":
        _, old, new, fail = op
        idx = first_index(lib.blocks, old)
        expected = None
        if idx is not None:
            m2 = model.copy()
            del m2.slots[idx]
            slot = m2.slot_for(new)
            if slot[0] == "dup" and fail:
                expected = "raise"
            else:
                m2.slots.insert(idx, slot)
                expected = m2
        try:
            lib.replace(old, new, fail_on_duplicate_key=fail)
            need(isinstance(expected, Model), "replace did not raise although it had to")
            model.slots = expected.slots
        except ValueError as e:
            raised = e
            need(not isinstance(expected, Model), "replace raised although it had to succeed")
            need(snapshot(lib) == before, "ValueError from replace changed the library")
    check_views(lib, model)
    return raised


def held_targets(lib, universe, rng):
    """Candidate targets for remove/replace: held blocks (incl. duplicates) or universe blocks."""
    cands = list(universe)
    cands.extend(lib.blocks)
    return rng.choice(cands)


def random_history(seed, universe, depth):
    rng = random.Random(seed)
    lib, model = Library(), Model()
    check_views(lib, model)
    for _ in range(depth):
        r = rng.random()
        if r < 0.45:
            n = rng.choice([1, 1, 1, 2, 3, 0])
            as_list = n != 1 or rng.random() < 0.4
            blocks = [rng.choice(universe) for _ in range(n)]
            # do not put one keyed object into the library twice in one call (kept simple)
            op = ("add", blocks, as_list, rng.random() < 0.4)
        elif r < 0.7:
            op = ("remove", held_targets(lib, universe, rng))
        else:
            op = ("replace", held_targets(lib, universe, rng), rng.choice(universe), rng.random() < 0.5)
        apply(lib, model, op)


def exhaustive(universe, depth):
    """Bounded-exhaustive over a tiny sub-universe."""
    small = [universe[0], universe[1], universe[2], universe[8], universe[9], universe[12]]
    ops = []
    for b in small:
        ops.append(("add", [b], False, False))
        ops.append(("add", [b], True, True))
        ops.append(("remove", b))
    for a, b in itertools.product(small[:4], small[:4]):
        ops.append(("replace", a, b, True))
        ops.append(("replace", a, b, False))
    count = 0
    for hist in itertools.product(ops, repeat=depth):
        lib, model = Library(), Model()
        for op in hist:
            apply(lib, model, op)
        count += 1
    return count


def special_cases(universe):
    """Hand-written interleavings named in the property text."""
    n = 0
    e1a, e1b, e2a = universe[0], universe[1], universe[2]
    s_k1 = universe[8]
    # remove-original-then-add-same-key
    lib, m = Library(), Model()
    for op in [("add", [e1a, e1b], True, False), ("remove", e1a), ("add", [e1b], False, True)]:
        apply(lib, m, op)
    n += 1
    # replace a String by an Entry (and back)
    lib, m = Library(), Model()
    for op in [
        ("add", [s_k1, e2a], True, False),
        ("replace", s_k1, e1a, True),
        ("replace", e1a, s_k1, False),
        ("replace", e2a, s_k1, True),
    ]:
        apply(lib, m, op)
    n += 1
    # failing replace in a library that already holds duplicates
    lib, m = Library(), Model()
    for op in [
        ("add", [e1a, e1b, e2a, e1b], True, False),
        ("replace", e2a, e1b, True),
        ("replace", e2a, e1b, False),
    ]:
        apply(lib, m, op)
    dup = lib.failed_blocks[0]
    apply(lib, m, ("replace", dup, e1b, True))
    apply(lib, m, ("remove", lib.failed_blocks[0]))
    apply(lib, m, ("remove", universe[3]))  # not held
    n += 1
    # constructor with blocks, empty list, object reuse across libraries
    lib = Library([e1a, e1b, universe[12], universe[12]])
    check_views(lib)
    lib2 = Library([])
    check_views(lib2)
    lib2.add(lib.blocks)
    check_views(lib2)
    n += 1
    return n


# --------------------------------------------------------------------------- behaviour rendering
def render_exception(e):
    parts = [
        type(e).__name__,
        str(isinstance(e, ValueError)),
        str(e),
        repr(getattr(e, "keys", "<no keys attr>")),
        type(getattr(e, "block", None)).__name__,
        "cause=" + type(e.__cause__).__name__,
        "suppress=" + str(e.__suppress_context__),
    ]
    return " | ".join(parts)


def behaviour(universe):
    out = []
    e1a, e1b, e2a = universe[0], universe[1], universe[2]
    lib = Library([e1a, e2a, universe[8], universe[12]])
    for call in (
        lambda: lib.add([e1b, universe[9]], fail_on_duplicate_key=True),
        lambda: lib.remove(universe[3]),
        lambda: lib.remove(universe[15]),
        lambda: lib.replace(universe[3], e1b),
        lambda: lib.replace(e2a, e1b),
        lambda: lib.replace(universe[12], universe[9], fail_on_duplicate_key=True),
    ):
        try:
            call()
            out.append("no exception")
        except ValueError as e:
            out.append(render_exception(e))
    out.append(re.sub(r"0x[0-9a-fA-F]+", "0x?", repr(lib)))
    out.append(re.sub(r"0x[0-9a-fA-F]+", "0x?", repr(Library())))
    return "\n".join(out)


def main():
    universe = make_universe()
    try:
        rendered = behaviour(universe)
    except Exception:  # noqa
        rendered = "behaviour rendering failed:\n" + traceback.format_exc()
    checks = 0
    failure = None
    try:
        checks += special_cases(make_universe())
        checks += exhaustive(make_universe(), 2)
        for seed in range(400):
            random_history(seed, make_universe(), 30)
            checks += 1
    except PropertyViolation as e:
        failure = str(e)
    except Exception as e:  # noqa
        failure = "unexpected " + type(e).__name__ + ": " + str(e)
    if "-v" in sys.argv:
        print(rendered)
    print("BEHAVIOUR " + hashlib.sha256(rendered.encode("utf-8")).hexdigest())
    if failure is None:
        print(f"PROPERTY-OK {checks}")
    else:
        print(f"PROPERTY-FAIL {failure}")


if __name__ == "__main__":
    try:
        main()
    except BaseException:  # noqa
        traceback.print_exc()
    sys.exit(0)
