"""Differential demo for the writer refactoring (property C06).

Builds a few hundred libraries (constructed and parsed, incl. failed blocks),
writes each with a range of BibtexFormat settings and prints a sha256 digest
of all outputs / error types / format states as the last line."""
import hashlib
import json
import random
import logging
import sys

import bibtexparser
from bibtexparser import writer
from bibtexparser.library import Library
from bibtexparser.model import (
    DuplicateBlockKeyBlock,
    DuplicateFieldKeyBlock,
    Entry,
    ExplicitComment,
    Field,
    ImplicitComment,
    MiddlewareErrorBlock,
    ParsingFailedBlock,
    Preamble,
    String,
)
from bibtexparser.writer import BibtexFormat

logging.disable(logging.CRITICAL)
rng = random.Random(60606)
results = []

KEYS = ["a", "ab", "year", "author", "title", "booktitle", "a_very_long_field_key_indeed",
        "x" * 45, "füß", "漢字", "k-1", "K.2", ""]
VALUES = ["{v}", '"quoted"', "1999", "{Nested {deep {braces {here}}}}", "{multi\nline}",
          "{crlf\r\nvalue}", "a # b # {c}", "", "{éè \U0001F600}", "{, = }"]
INDENTS = ["\t", "", " ", "    ", "\t\t", "--"]
SEPS = ["\n\n", "\n", "", "\r\n", "\n%%--%%\n", " ", "\n\n\n"]
COLS = list(range(0, 41)) + ["auto"]
FAILED_COMMENTS = [writer.PARSING_FAILED_COMMENT, "% failed", "% {n}", "%% {n} lines / {n}",
                   "", "{n}{n}{n}", "% bad {x}", "% brace {{n}} {n}"]


def fmt_state(f):
    return [repr(f.indent), repr(f.value_column), repr(f.block_separator),
            repr(f.trailing_comma), repr(f.parsing_failed_comment)]


def rand_entry(i, max_fields=6):
    n = rng.choice([0, 0, 1, 2, 3, max_fields])
    fields = []
    for _ in range(n):
        fields.append(Field(rng.choice(KEYS), rng.choice(VALUES)))
    return Entry(rng.choice(["article", "book", "Misc", "x"]), "key%d" % i, fields)


def rand_failed(i):
    raw = rng.choice([
        "@article{broken,\n  title = {x",
        "@string{ foo = ",
        "",
        "one line",
        "a\r\nb\r\nc",
        "trailing newline\n",
        "@misc{u,\n\tn = {ü}\n",
        "x\n" * rng.randint(1, 5),
    ])
    kind = rng.randrange(4)
    err = ValueError("e%d" % i)
    if kind == 0:
        return ParsingFailedBlock(err, start_line=i, raw=raw)
    if kind == 1:
        return MiddlewareErrorBlock(Entry("article", "m%d" % i, [Field("a", "b")], start_line=i, raw=raw), err)
    if kind == 2:
        return DuplicateBlockKeyBlock(key="d%d" % i, previous_block=rand_entry(i),
                                      duplicate_block=rand_entry(i), start_line=i, raw=raw)
    return DuplicateFieldKeyBlock(duplicate_keys={"a"}, entry=Entry("misc", "f%d" % i, [Field("a", "1"), Field("a", "2")], start_line=i, raw=raw))


def rand_block(i):
    k = rng.randrange(9)
    if k <= 3:
        return rand_entry(i)
    if k == 4:
        return String("s%d" % i, rng.choice(VALUES))
    if k == 5:
        return Preamble(rng.choice(VALUES))
    if k == 6:
        return ExplicitComment(rng.choice(["c", "", "multi\nline", "ü {x}"]))
    if k == 7:
        return ImplicitComment(rng.choice(["% c", "", "free text\nmore", "漢"]))
    return rand_failed(i)


def rand_format():
    f = BibtexFormat()
    if rng.random() < 0.8:
        f.indent = rng.choice(INDENTS)
    if rng.random() < 0.85:
        f.value_column = rng.choice(COLS)
    if rng.random() < 0.3:
        f.value_column = "auto"
    if rng.random() < 0.7:
        f.block_separator = rng.choice(SEPS)
    if rng.random() < 0.5:
        f.trailing_comma = rng.choice([True, False])
    if rng.random() < 0.6:
        f.parsing_failed_comment = rng.choice(FAILED_COMMENTS)
    return f


def record(tag, fn):
    try:
        out = fn()
        results.append([tag, "ok", out])
    except Exception as e:  # only the type is recorded
        results.append([tag, "err", type(e).__name__])


def write_and_check(tag, lib, f):
    before = fmt_state(f) if f is not None else None
    record(tag, lambda: writer.write(lib, f) if f is not None else writer.write(lib))
    if f is not None:
        results.append([tag + ":fmt", before, fmt_state(f), before == fmt_state(f)])


# 1. constructed libraries x random formats (format objects re-used across libraries)
shared_formats = [rand_format() for _ in range(12)]
for i in range(260):
    nblocks = rng.choice([0, 1, 1, 2, 3, 5, 9])
    blocks = [rand_block(i * 10 + j) for j in range(nblocks)]
    lib = Library(blocks)
    f = rng.choice(shared_formats) if rng.random() < 0.5 else rand_format()
    write_and_check("c%d" % i, lib, f)
    # same format again (object reuse), and the public entrypoint
    write_and_check("c%d-again" % i, lib, f)
    record("c%d-ws" % i, lambda: bibtexparser.write_string(lib, bibtex_format=f))
    if i % 7 == 0:
        write_and_check("c%d-default" % i, lib, None)

# 2. every value_column for a fixed mixed library, with/without trailing comma
fixed = Library([
    Entry("article", "k1", [Field("a", "{1}"), Field("a_very_long_field_key_indeed", "{2}"), Field("year", "3")]),
    String("s", '"v"'),
    Entry("book", "k2", []),
    ParsingFailedBlock(ValueError("x"), start_line=3, raw="@broken{\nfoo"),
    Entry("misc", "k3", [Field("漢字漢字漢字", "{u}"), Field("a", "{dup}"), Field("a", "{dup2}")]),
    ImplicitComment("tail"),
])
for col in COLS:
    for tc in (False, True):
        for indent in ("", "\t", "   "):
            f = BibtexFormat()
            f.value_column = col
            f.trailing_comma = tc
            f.indent = indent
            f.block_separator = "\n|\n"
            f.parsing_failed_comment = "% custom {n}"
            write_and_check("fix-%s-%s-%r" % (col, tc, indent), fixed, f)

# 3. parsed inputs (incl. failures, duplicates, CRLF, unicode) round-tripped through the writer
SOURCES = [
    "",
    "\n\n",
    "@article{a, title = {T}, year = 1999}",
    "@article{a, title = {T}}\n@article{a, title = {dup key}}\n",
    "@article{a, title = {T}, title = {dup field}}\n",
    "@string{foo = \"bar\"}\n@article{b, j = foo # { x}}\n% comment\n@comment{explicit}\n@preamble{\"p\"}",
    "@article{crlf,\r\n  title = {A},\r\n  year = {2000}\r\n}\r\n\r\n@book{b2,\r\n a={b}\r\n}\r\n",
    "@article{broken, title = {unclosed\n\n@article{ok, title = {fine}}\n",
    "@article{nest, t = {a {b {c {d {e}}}}}, longer_key_than_usual_really = {x}}",
    "@misc{ü, ä = {漢字}}\nfree text é\n@misc{e,}\n@misc{e2}\n",
    "@article{x, a = }\n@article{y, b = {ok}}",
    "@string{bad}\n@preamble{unclosed\n",
]
for si, src in enumerate(SOURCES):
    try:
        lib = bibtexparser.parse_string(src)
    except Exception as e:
        results.append(["p%d" % si, "parse-err", type(e).__name__])
        continue
    results.append(["p%d" % si, [type(b).__name__ for b in lib.blocks]])
    for fi in range(10):
        write_and_check("p%d-%d" % (si, fi), lib, rand_format())
    write_and_check("p%d-default" % si, lib, None)

# 4. oddities: unknown block type, Block subclasses, non-str content, 'auto' with no entries
class MyEntry(Entry):
    pass


class MyFailed(DuplicateFieldKeyBlock):
    pass


class NotABlock:
    pass


auto = BibtexFormat()
auto.value_column = "auto"
auto.trailing_comma = True
odd_libs = {
    "sub": Library([MyEntry("t", "k", [Field("abc", "{v}")]),
                    MyFailed(duplicate_keys={"q"}, entry=Entry("t", "k9", [], start_line=0, raw="r1\nr2"))]),
    "noentries": Library([String("s", "{v}"), ImplicitComment("c")]),
    "emptyentries": Library([Entry("a", "k1", []), Entry("a", "k2", [])]),
    "intvalue": Library([Entry("a", "k1", [Field("n", 5)])]),
    "nonevalue": Library([Entry("a", "k1", [Field("n", None)])]),
    "onlyfailed": Library([ParsingFailedBlock(ValueError("z"), raw="", start_line=0)]),
}
for name, lib in sorted(odd_libs.items()):
    for f in (auto, BibtexFormat(), None):
        write_and_check("odd-" + name, lib, f)

unknown = Library([Entry("a", "k1", [Field("k", "{v}")])])
unknown._blocks.append(NotABlock())
write_and_check("odd-unknown", unknown, auto)
write_and_check("odd-unknown", unknown, None)

# invalid format settings still rejected with the same exception types
for bad in (-1, "left", None, 2.5):
    f = BibtexFormat()
    try:
        f.value_column = bad
        results.append(["badcol", repr(bad), "accepted", repr(f.value_column)])
    except Exception as e:
        results.append(["badcol", repr(bad), type(e).__name__])

blob = json.dumps(results, ensure_ascii=True, sort_keys=True).encode("utf-8")
ok = sum(1 for r in results if len(r) == 3 and r[1] == "ok")
err = sum(1 for r in results if len(r) == 3 and r[1] == "err")
print("records", len(results), "ok", ok, "err", err)
print("DIGEST", hashlib.sha256(blob).hexdigest())
sys.exit(0)
