"""Differential demo for the splitter refactoring (property C04).

Parses a few thousand varied inputs (well-formed documents, token-sequence garbage,
truncated / corrupted blocks, D1 + X + D2 concatenations, CRLF, Unicode, deep nesting,
splitter reuse, parsing into an existing library) and prints a deterministic digest
of a canonical rendering of the results. Exception *message texts* are not included.
"""
import hashlib
import itertools
import logging
import random
import sys

logging.disable(logging.CRITICAL)

try:
    from bibtexparser.library import Library
    from bibtexparser.splitter import Splitter
    from bibtexparser import model
except Exception as exc:  # pragma: no cover
    print("import failed:", type(exc).__name__)
    print("DIGEST import-failed")
    sys.exit(0)


def render_block(b):
    out = [type(b).__name__, repr(getattr(b, "start_line", None)), repr(getattr(b, "raw", None))]
    if isinstance(b, model.ParsingFailedBlock):
        err = getattr(b, "error", None)
        out.append("err=" + type(err).__name__)
        if isinstance(b, model.DuplicateFieldKeyBlock):
            out.append("dupkeys=" + repr(sorted(b.duplicate_keys)))
        if isinstance(b, model.DuplicateBlockKeyBlock):
            out.append("dupkey=" + repr(b.key))
        ignored = getattr(b, "ignore_error_block", None)
        if ignored is not None:
            out.append("inner=[" + render_block(ignored) + "]")
    if isinstance(b, model.Entry):
        out.append("type=" + repr(b.entry_type))
        out.append("key=" + repr(b.key))
        out.append(
            "fields=" + repr([(f.key, f.value, f.start_line) for f in b.fields])
        )
    elif isinstance(b, model.String):
        out.append("key=" + repr(b.key))
        out.append("value=" + repr(b.value))
    elif isinstance(b, model.Preamble):
        out.append("value=" + repr(b.value))
    elif isinstance(b, (model.ExplicitComment, model.ImplicitComment)):
        out.append("comment=" + repr(b.comment))
    return "|".join(out)


def render_library(lib):
    parts = [render_block(b) for b in lib.blocks]
    parts.append("n_entries=%d n_strings=%d n_failed=%d" % (
        len(lib.entries), len(lib.strings), len(lib.failed_blocks)))
    return "\n".join(parts)


def run(bibstr, library=None):
    try:
        lib = Splitter(bibstr).split(library)
        return "OK\n" + render_library(lib)
    except Exception as exc:
        return "RAISED " + type(exc).__name__


WELL_FORMED = [
    '@article{key1,\n  author = {Doe, John},\n  title = "A {Nested} title",\n  year = 1999\n}',
    "@book{b1, title = {T}, title = {U}, note = {a, b = c}}",
    "@string{jan = \"January\"}",
    "@STRING{ acm = {ACM {Press}} }",
    "@preamble{ \"\\newcommand{\\x}{y}\" }",
    "@comment{ anything {nested} here, = \" }",
    "@Comment  {spaced}",
    "@commentary{ck, a = {1}}",
    "@misc{empty}",
    "@misc{k,}",
    "@misc{k2, a = \"x {\" y} z\", b = {q \" r}}",
    "@misc{k3, a = \"esc \\\" aped\", b = {br \\} ace}}",
    "@misc{unié, authör = {中文 İstanbul \U0001F600}}",
    "@İnproc{kk, x = 1}",
    "@article{k4, a = jan # \" 1\" # {2}, b = 12}",
    "@misc{deep, v = " + "{" * 40 + "x" + "}" * 40 + "}",
    "@misc{key1, a = {dup key of first}}",
    "@string{jan = {dup string}}",
    "@{nokey, a = 1}",
    "@misc{crlf,\r\n  a = {1},\r\n  b = \"2\"\r\n}",
]

TOKENS = ["{", "}", '"', ",", "=", "\n", "@", "@a{", "@comment{", "@string{", "x", " ", "\\",
          "\\{", "\\\"", "@preamble{", "@x \t{", "\r\n", "k", "@article"]

SUFFIXES = [
    "\n@misc{s1, a = {1}}",
    "\n@string{s = \"v\"}\n@book{s2, t = {T}}",
    "\n@comment{c}\ntrailing text",
    "\n@preamble{\"p\"}",
    " @misc{sameline, a = 1}",
]


def inputs():
    rnd = random.Random(20240404)
    yield ""
    yield "\n"
    yield "\r\n\r\n"
    yield "   \n\n  leading comment\n\n\n"
    yield "just some text, with = and \" and { unbalanced"
    yield "}}}}\n@misc{a, b = 1}"
    yield "@"
    yield "@misc"
    yield "@misc{"
    yield "@misc{k, a = \"{\"} \n@misc{z, y = 1}"
    yield "@misc{k, a = {\"} , b = \"}\" }"
    for d in WELL_FORMED:
        yield d
        yield d.replace("\n", "\r\n")
        # every truncation of every well-formed block, followed by a well-formed block
        step = max(1, len(d) // 12)
        for cut in range(0, len(d), step):
            yield d[:cut]
            yield d[:cut] + SUFFIXES[cut % len(SUFFIXES)]
    # All token sequences up to length 3, between prefix and suffix
    short = TOKENS[:12]
    for n in (1, 2, 3):
        for seq in itertools.product(short, repeat=n):
            x = "".join(seq)
            yield WELL_FORMED[0] + "\n" + x + SUFFIXES[len(x) % len(SUFFIXES)]
    # Random longer token sequences
    for _ in range(600):
        x = "".join(rnd.choice(TOKENS) for _ in range(rnd.randint(1, 14)))
        d1 = "\n".join(rnd.sample(WELL_FORMED, rnd.randint(0, 3)))
        d2 = rnd.choice(SUFFIXES)
        yield d1 + x + d2
        yield x
    # Random corruptions of valid documents
    for _ in range(600):
        doc = "\n\n".join(rnd.sample(WELL_FORMED, rnd.randint(1, 5)))
        chars = list(doc)
        for _ in range(rnd.randint(1, 4)):
            pos = rnd.randrange(len(chars))
            op = rnd.randint(0, 2)
            if op == 0:
                del chars[pos]
            elif op == 1:
                chars.insert(pos, rnd.choice(['{', '}', '"', ',', '=', '@', '\n', '\\']))
            else:
                chars[pos] = rnd.choice(['{', '}', '"', ',', '=', '@', '\n', 'z'])
        yield "".join(chars)
    # Concatenations of well-formed documents
    for _ in range(150):
        sep = rnd.choice(["\n", "\n\n", "\r\n", "\ncomment text\n", " "])
        yield sep.join(rnd.choice(WELL_FORMED) for _ in range(rnd.randint(2, 8)))
    # Long inputs
    yield "\n".join("@misc{k%d, a = {%d}}" % (i, i) for i in range(400))
    yield "\n" * 3000 + "@misc{late, a = 1}"
    yield "@misc{open, a = {" + "\n@misc{r%d, a = {" * 50 % tuple(range(50))
    yield "@misc{dn, v = " + "{" * 3000 + "}" * 3000 + "}"


def main():
    h = hashlib.sha256()
    count = 0
    for s in inputs():
        res = run(s)
        h.update(repr(s).encode("utf-8", "backslashreplace"))
        h.update(b"\x00")
        h.update(res.encode("utf-8", "backslashreplace"))
        h.update(b"\x01")
        count += 1

    # Parse into an existing library (including one that already has the same keys)
    lib = Library()
    for d in WELL_FORMED + ["@misc{bad, a = \"\n@misc{after, a = 1}"]:
        h.update(run(d, lib).encode("utf-8", "backslashreplace"))
        count += 1

    # Re-using one Splitter object for two split() calls
    for d in [WELL_FORMED[0] + "\n@misc{x, a = {\n@misc{y, b = 1}\ntext", "", "@misc{a"]:
        try:
            sp = Splitter(d)
            first = render_library(sp.split())
            second = render_library(sp.split())
            res = first + "\n--\n" + second
        except Exception as exc:
            res = "RAISED " + type(exc).__name__
        h.update(res.encode("utf-8", "backslashreplace"))
        count += 1

    # Top-level API
    try:
        import bibtexparser
        for d in WELL_FORMED[:6]:
            lib2 = bibtexparser.parse_string(d + "\n@misc{broken, a = {\n" + d)
            h.update(render_library(lib2).encode("utf-8", "backslashreplace"))
            count += 1
    except Exception as exc:
        h.update(("RAISED " + type(exc).__name__).encode())

    print("inputs:", count)
    print("DIGEST " + h.hexdigest())


if __name__ == "__main__":
    try:
        main()
    except Exception as exc:  # always exit 0
        print("demo failed:", type(exc).__name__)
        print("DIGEST demo-failed")
    sys.exit(0)
