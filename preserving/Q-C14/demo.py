"""Demo for the C14 behaviour-changing (but property-preserving) change.

Prints exactly two final lines:
    BEHAVIOUR <sha256>     - differs with / without the change
    PROPERTY-OK <n>        - number of property scenario checks that passed
"""

import hashlib
import logging
import random
import sys
import traceback
from copy import deepcopy

import bibtexparser
from bibtexparser.library import Library
from bibtexparser.middlewares.names import InvalidNameError
from bibtexparser.middlewares.names import MergeCoAuthors
from bibtexparser.middlewares.names import MergeNameParts
from bibtexparser.middlewares.names import NameParts
from bibtexparser.middlewares.names import SeparateCoAuthors
from bibtexparser.middlewares.names import SplitNameParts
from bibtexparser.middlewares.names import parse_single_name_into_parts
from bibtexparser.middlewares.names import split_multiple_persons_names
from bibtexparser.model import Entry
from bibtexparser.model import Field

logging.disable(logging.CRITICAL)  # keep stdout/stderr clean; logs are captured separately


# --------------------------------------------------------------------------- #
# Part 1: the observable behaviour touched by the change                      #
# --------------------------------------------------------------------------- #
class _Capture(logging.Handler):
    def __init__(self):
        super().__init__(level=logging.DEBUG)
        self.records = []

    def emit(self, record):
        self.records.append(f"{record.levelname}:{record.name}:{record.getMessage()}")


def _render_exc(fn):
    try:
        return "OK " + repr(fn())
    except Exception as e:  # noqa
        return f"EXC {type(e).__name__}: {e}"


def behaviour_rendering():
    out = []

    # (a) entry with a valid author, but an invalid editor -> failed block
    def failed_block_case(inplace):
        entry = Entry(
            start_line=0,
            raw="raw",
            entry_type="book",
            key="someKey",
            fields=[
                Field(start_line=1, key="author", value=["Donald E. Knuth"]),
                Field(start_line=2, key="editor", value=["AA {BB CC"]),
            ],
        )
        lib = SplitNameParts(allow_inplace_modification=inplace).transform(Library([entry]))
        fb = lib.failed_blocks[0]
        err = fb.error
        return (
            type(err).__name__,
            str(err),
            getattr(err, "entry_key", "<no attr>"),
            getattr(err, "field_key", "<no attr>"),
            [(f.key, repr(f.value)) for f in fb.ignore_error_block.fields],
            str(deepcopy(err)),
        )

    cap = _Capture()
    root = logging.getLogger("bibtexparser")
    root.addHandler(cap)
    old_level = root.level
    root.setLevel(logging.DEBUG)
    logging.disable(logging.NOTSET)
    try:
        out.append(_render_exc(lambda: failed_block_case(True)))
        out.append(_render_exc(lambda: failed_block_case(False)))
    finally:
        logging.disable(logging.CRITICAL)
        root.setLevel(old_level)
        root.removeHandler(cap)
    out.append(repr(cap.records))

    # (b) the same through parse_string
    def via_parse_string():
        lib = bibtexparser.parse_string(
            "@book{k1, author = {Knuth, Donald}, editor = {AA, BB, CC, DD}}\n"
            "@book{k2, author = {Per Brinch Hansen}}\n",
            append_middleware=[SeparateCoAuthors(), SplitNameParts()],
        )
        return (
            [str(b.error) for b in lib.failed_blocks],
            [(f.key, repr(f.value)) for b in lib.failed_blocks for f in b.ignore_error_block.fields],
            [(e.key, repr(e["author"])) for e in lib.entries],
        )

    out.append(_render_exc(via_parse_string))

    # (c) SplitNameParts on a value whose co-authors were not separated
    def split_on_plain_string():
        lib = bibtexparser.parse_string(
            "@book{k, author = {Donald E. Knuth and Lamport, Leslie}}",
            append_middleware=[SplitNameParts()],
        )
        return [(e.key, repr(e["author"])) for e in lib.entries]

    out.append(_render_exc(split_on_plain_string))
    out.append(_render_exc(lambda: SplitNameParts()._transform_field_value([NameParts(last=["X"])])))
    out.append(_render_exc(lambda: SplitNameParts()._transform_field_value(42)))

    # (d) MergeNameParts on ill-typed values
    out.append(_render_exc(lambda: MergeNameParts()._transform_field_value(["Knuth, Donald"])))
    out.append(_render_exc(lambda: MergeNameParts()._transform_field_value("Knuth, Donald")))
    out.append(_render_exc(lambda: MergeNameParts()._transform_field_value("")))
    out.append(_render_exc(lambda: MergeNameParts()._transform_field_value((NameParts(last=["X"]),))))

    # (e) stand-alone exception, unchanged default but new optional arguments
    out.append(_render_exc(lambda: str(InvalidNameError("A,", "Trailing comma at end of name"))))
    out.append(_render_exc(lambda: str(InvalidNameError("A,", "r", entry_key="k", field_key="f"))))
    return "\n".join(out)


# --------------------------------------------------------------------------- #
# Part 2: direct checks of the property statement                             #
# --------------------------------------------------------------------------- #
UPPER = ["Knuth", "AA", "CC", "Ünal", "Å", "O'Neil", "Jean-Paul", "{\\'E}mile", "\\'Emile",
         "{\\AA}ngstr{\\\"o}m", "D.", "E.", "McDonald", "Ülkü", "St.", "Müller\\\\", "Ж", "X\\&Y"]
LOWER = ["von", "van", "der", "de", "la", "bb", "dd", "{\\'e}cole", "\\o{}re", "łukasz", "d'", "ß"]
CASELESS = ["{Simon and Schuster}", "{von}", "{{Deep {Nest {ed}}}}", "123", "{,}", "{A, B}",
            "{and}", "-", "{}", "李", "{\\relax Ab}", "42nd", "{a b~c}"]
JR = ["Jr.", "Jr", "III", "IV", "jr", "{Jr., Esq.}", "Sr."]
WORDS = UPPER + LOWER + CASELESS
SEPS = [" ", " ", " ", "  ", "~", "\t", "\n", "\r\n", " ~ "]
ANDS = [" and ", " AND ", " and\n", "\r\nand\r\n", "  And  ", "\tand "]


def _words(rng, pool, lo, hi):
    n = rng.randint(lo, hi)
    ws = [rng.choice(pool) for _ in range(n)]
    return "".join(w + rng.choice(SEPS) for w in ws[:-1]) + ws[-1] if ws else ""


def gen_name(rng):
    form = rng.random()
    if form < 0.45:
        return _words(rng, WORDS, 1, 6)
    comma = rng.choice([",", ", ", " , ", ",\n"])
    if form < 0.8:
        return _words(rng, WORDS, 1, 4) + comma + _words(rng, WORDS, 1, 3)
    return (_words(rng, WORDS, 1, 4) + comma + _words(rng, JR + WORDS, 1, 2)
            + rng.choice([",", ", "]) + _words(rng, WORDS, 1, 3))


def in_quantifier(name):
    """valid name, non-empty last name, no word ending in an odd number of backslashes"""
    try:
        p = parse_single_name_into_parts(name)
    except InvalidNameError:
        return False
    if not p.last:
        return False
    for w in p.first + p.von + p.last + p.jr:
        if (len(w) - len(w.rstrip("\\"))) % 2 == 1:
            return False
    return True


def split_all(value):
    return [parse_single_name_into_parts(n) for n in split_multiple_persons_names(value)]


def merge_all(parts):
    return " and ".join(p.merge_last_name_first for p in parts)


def check_function_pair(value):
    persons = split_all(value)
    assert len(persons) >= 1
    merged = merge_all(persons)
    again = split_all(merged)
    assert again == persons, f"function pair: {value!r} -> {persons} -> {merged!r} -> {again}"
    # and once more (fixed point)
    assert split_all(merge_all(again)) == persons


NAME_FIELDS = ("author", "editor", "translator")


def structured(lib):
    return [
        (e.key, [(f.key, deepcopy(f.value)) for f in e.fields if f.key in NAME_FIELDS])
        for e in lib.entries
    ]


def check_full_stack(entries, reuse=None, extra=""):
    """entries: list of (key, {field: value-string})"""
    doc = extra
    for key, fields in entries:
        body = ",\n".join(f"  {k} = {{{v}}}" for k, v in fields.items())
        doc += f"@article{{{key},\n  title = {{A and B}},\n{body}\n}}\n\n"
    parse_mw = reuse[0] if reuse else [SeparateCoAuthors(), SplitNameParts()]
    write_mw = reuse[1] if reuse else [MergeNameParts(), MergeCoAuthors()]
    lib = bibtexparser.parse_string(doc, append_middleware=parse_mw)
    assert len(lib.entries) == len(entries), f"entries lost: {doc!r} {lib.failed_blocks}"
    before = structured(lib)
    for (key, fields), (k2, got) in zip(entries, before):
        assert key == k2
        assert [k for k, _ in got] == list(fields.keys())
        for (fk, val) in got:
            assert isinstance(val, list) and all(isinstance(p, NameParts) for p in val)
            # the stack agrees with the function pair on the parsed value
            assert len(val) >= 1
    written = bibtexparser.write_string(lib, prepend_middleware=write_mw)
    assert isinstance(written, str)
    lib2 = bibtexparser.parse_string(written, append_middleware=parse_mw)
    after = structured(lib2)
    assert after == before, f"full stack: {doc!r} -> {written!r}: {before} != {after}"
    assert len(lib2.failed_blocks) == len(lib.failed_blocks)


def property_checks():
    rng = random.Random(20140)
    n_ok = 0

    # pool of in-quantifier names, including hand-picked edge cases
    hand = [
        "AA bb CC dd", "AA bb CC", "aa bb", "aa", "AA", "bb CC, AA", "bb CC, jr, AA", "bb CC dd, AA",
        "Donald E. Knuth", "Brinch Hansen, Per", "Beeblebrox, IV, Zaphod", "Ludwig van Beethoven",
        "{Simon and Schuster}", "de la Vall{\\'e}e Poussin, Charles Louis Xavier Joseph",
        "Jean de La Fontaine", "jean de la fontaine", "von der Heide, jr., aa BB", "{}", "{} {}",
        "Müller\\\\ Hans", "X\\\\, Y\\\\, Z\\\\", "A~B~C", "A\r\nB", "{{{{{{a}}}}}} b {C}",
        "李 明", "\\'Emile Zola", "{\\'E}mile {\\'z}ola x", "AA, ,BB" if False else "AA, {} , BB",
        "aa bb cc dd", "AA BB cc", "AA bb cc", "AA bb CC dd EE ff", "a, b", "A, b c", "and, And",
        "Sand Andy", "{and} {and}", "x {and} y",
    ]
    pool = [n for n in hand if in_quantifier(n)]
    assert len(pool) >= 30, len(pool)
    while len(pool) < 700:
        n = gen_name(rng)
        if in_quantifier(n) and not any(w.lower() == "and" for w in n.replace(",", " ").split()):
            pool.append(n)

    # 1) function pair, single persons
    for n in pool:
        check_function_pair(n)
        n_ok += 1

    # 2) function pair, lists of 1..6 persons with varied 'and' separators and outer whitespace
    lists = []
    for i in range(300):
        k = rng.randint(1, 6)
        names = [rng.choice(pool).strip() for _ in range(k)]
        value = names[0]
        for n in names[1:]:
            value += rng.choice(ANDS) + n
        if i % 7 == 0:
            value = " \r\n" + value + "\t "
        persons = split_multiple_persons_names(value)
        if len(persons) != k or not all(in_quantifier(p) for p in persons):
            continue  # a separator melted with an adjacent word etc.: not what was intended
        check_function_pair(value)
        lists.append(value)
        n_ok += 1
    assert len(lists) >= 200, len(lists)
    # A field value that ends in a backslash makes the *splitter* take the closing brace of the
    #   field for an escaped one (independent of the name middlewares): keep those words to the
    #   function-pair checks above.
    lists = [v for v in lists if "\\\\" not in v]
    assert len(lists) >= 150, len(lists)

    # 3) full stack, one entry per document, rotating fields
    for i, value in enumerate(lists[:150]):
        fields = {NAME_FIELDS[i % 3]: value}
        if i % 4 == 0:
            fields[NAME_FIELDS[(i + 1) % 3]] = lists[(i * 7 + 3) % len(lists)]
        if i % 10 == 0:
            fields = {f: lists[(i + j) % len(lists)] for j, f in enumerate(NAME_FIELDS)}
        check_full_stack([(f"key{i}", fields)])
        n_ok += 1

    # 4) full stack, multi-entry documents with noise (strings, comments, preamble, failed
    #    blocks, duplicate keys, invalid names in *other* entries), middleware objects reused
    reuse = ([SeparateCoAuthors(), SplitNameParts()], [MergeNameParts(), MergeCoAuthors()])
    noise = (
        "@string{jan = {January}}\n@preamble{{some preamble}}\n@comment{a comment}\n"
        "free text comment\n@article{broken, author = {Unclosed\n\n"
    )
    for i in range(40):
        ents = []
        for j in range(rng.randint(1, 5)):
            fields = {f: rng.choice(lists) for f in rng.sample(NAME_FIELDS, rng.randint(1, 3))}
            ents.append((f"e{i}x{j}", fields))
        check_full_stack(ents, reuse=reuse if i % 2 else None, extra=noise if i % 3 == 0 else "")
        n_ok += 1

    # 5) valid entries keep round-tripping next to entries with invalid names / duplicate keys
    for i in range(20):
        good = [(f"g{i}a", {"author": lists[i]}), (f"g{i}b", {"editor": lists[-i - 1]})]
        doc = ""
        for key, fields in good:
            (k, v), = fields.items()
            doc += f"@book{{{key}, {k} = {{{v}}}}}\n"
        doc += f"@book{{bad{i}, author = {{{lists[i]}}}, editor = {{AA, BB, CC, DD}}}}\n"
        doc += f"@book{{g{i}a, author = {{Dup Licate}}}}\n"
        mw = [SeparateCoAuthors(), SplitNameParts()]
        lib = bibtexparser.parse_string(doc, append_middleware=mw)
        assert [e.key for e in lib.entries] == [f"g{i}a", f"g{i}b"]
        assert len(lib.failed_blocks) == 2
        before = structured(lib)
        written = bibtexparser.write_string(
            Library(lib.entries), prepend_middleware=[MergeNameParts(), MergeCoAuthors()]
        )
        after = structured(bibtexparser.parse_string(written, append_middleware=mw))
        assert before == after, (before, after)
        n_ok += 1

    # 6) the README shape: non-inplace middlewares give the same structured names
    for i in range(20):
        doc = f"@book{{k, author = {{{lists[i * 3]}}}, translator = {{{lists[i * 5 + 1]}}}}}"
        a = bibtexparser.parse_string(
            doc, append_middleware=[SeparateCoAuthors(True), SplitNameParts(True)]
        )
        b = bibtexparser.parse_string(
            doc, append_middleware=[SeparateCoAuthors(False), SplitNameParts(False)]
        )
        assert structured(a) == structured(b)
        w = bibtexparser.write_string(
            b, prepend_middleware=[MergeNameParts("last", False), MergeCoAuthors(False)]
        )
        assert structured(b) == structured(a)  # b was not modified by the non-inplace write
        c = bibtexparser.parse_string(w, append_middleware=[SeparateCoAuthors(), SplitNameParts()])
        assert structured(c) == structured(a)
        n_ok += 1

    return n_ok


def main():
    try:
        rendering = behaviour_rendering()
    except Exception:  # noqa
        rendering = "RENDERING-FAILED\n" + traceback.format_exc()
    if "--show" in sys.argv:
        print(rendering)
    digest = hashlib.sha256(rendering.encode("utf-8")).hexdigest()

    try:
        n = property_checks()
        verdict = f"PROPERTY-OK {n}"
    except Exception as e:  # noqa
        if "--show" in sys.argv:
            traceback.print_exc()
        verdict = "PROPERTY-FAIL " + " ".join(f"{type(e).__name__}: {e}".split())[:600]

    print(f"BEHAVIOUR {digest}")
    print(verdict)


if __name__ == "__main__":
    try:
        main()
    finally:
        sys.exit(0)
