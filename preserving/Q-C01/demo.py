"""Demo for the C01 behaviour-changing (but property-preserving) change.

Prints exactly two final lines:
  BEHAVIOUR <sha256>   - rendering of the error objects' observable details
  PROPERTY-OK <n>      - number of direct checks of property C01 that passed
"""
import hashlib
import itertools
import logging
import random
import signal
import sys
import traceback

logging.disable(logging.CRITICAL)

import bibtexparser
from bibtexparser.library import Library
from bibtexparser.model import ParsingFailedBlock

TIME_LIMIT_S = 60


class _Hang(BaseException):
    pass


def _on_alarm(signum, frame):
    raise _Hang()


def check_property(text):
    """Directly assert the statement of C01 on one input. Returns the library."""
    signal.signal(signal.SIGALRM, _on_alarm)
    signal.alarm(TIME_LIMIT_S)
    try:
        lib = bibtexparser.parse_string(text)
        assert isinstance(lib, Library), f"parse_string returned {type(lib)}"
        out = bibtexparser.write_string(lib)
        assert isinstance(out, str), f"write_string returned {type(out)}"
    finally:
        signal.alarm(0)
    for fb in lib.failed_blocks:
        assert isinstance(fb, ParsingFailedBlock)
        assert isinstance(fb.error, BaseException), "failed block without error"
        assert isinstance(fb.raw, str), "failed block without raw text"
        assert fb in lib.blocks
    return lib


def property_inputs():
    # (1) exhaustive token sequences over the splitter's character classes
    tokens = ["@a{", "@comment{", "@string{", "@preamble{", "{", "}", '"', ",", "=", "\n", "x", "\\"]
    for n in range(0, 3):
        for seq in itertools.product(tokens, repeat=n):
            yield "".join(seq)
    rnd = random.Random(20240101)
    for _ in range(250):
        yield "".join(rnd.choice(tokens) for _ in range(rnd.randint(3, 12)))
    # (2) unicode / garbage
    pool = "@{}\",=\n\r\t \\aZ0_%#\u00e9\u4e2d\U0001f600\u200b\x00\x0b\x85\u2028"
    for _ in range(120):
        yield "".join(rnd.choice(pool) for _ in range(rnd.randint(0, 60)))
    # (3) hand-picked edge cases
    yield from [
        "",
        "\n",
        "\r\n",
        "@article{k,\r\n a = {b},\r\n}\r\n",
        "@article{k, a = {b}, a = {c}}",
        "@article{k, a = {b}}\n@article{k, a = {c}}",
        "@article{k, a = \"b",
        "@article{k, a = {b}\n@book{l, c = {d}}",
        "@article{k a = {b}}",
        "@article{k = {b}}",
        "@string{k {b}}",
        "@string{k = ",
        "@comment{open",
        "@preamble{open",
        "@article{",
        "@article",
        "@{",
        "@ {",
        "@article{k, a = {b} c = {d}}",
        "@article{k, a = {b}, \"}",
        "@article{k, a = \"{\"}\"}",
        "@article{\u00e9\u4e2d, \u00fc = {\U0001f600}}",
    ]
    # (4) size-scaled families
    for n in (10**3, 10**4, 10**5):
        yield "\n" * n
        yield "% just a comment line\n" * n
        yield "@article{k,\n" + " a = {b},\n" * n
        yield "@article{k, a = " + "{" * n
        yield "@article{k, a = " + "{" * n + "}" * n + "}"
        yield "@comment{" + "{" * n + "}" * (n // 2)
    yield "".join(f"@article{{k{i},\n a = {{b}},\n}}\n\n" for i in range(10**4))
    yield "@article{k,\n" + "\n" * 5000 + "@article{l,\n" + "\n" * 5000 + "@comment{"


FAULTY = [
    "@article{k, a = {b",
    "@article{k,\n a = {b},\n c = \"d\n@book{l, e = {f}}",
    "@article{k,\n a = {b\n@book{l, e = {f}}",
    "@article{k,\n a = b\n@book{l, e = {f}}",
    "@article{k a = {b}}",
    "@article{k, a {b}}",
    "@article{k, a = {b} \" c = {d}}",
    "@string{k {b}}",
    "@string{k = {b}\n@string{l = {c}}",
    "@comment{open\n\n@article{k, a = {b}}",
    "@preamble{open",
    "text\n\n@article{k,\n\n\n a = {b},\n",
]


def behaviour_rendering():
    parts = []
    for text in FAULTY:
        lib = bibtexparser.parse_string(text)
        for fb in lib.failed_blocks:
            err = fb.error
            parts.append(
                repr(
                    (
                        text,
                        type(err).__name__,
                        str(err),
                        getattr(err, "abort_reason", None),
                        getattr(err, "start_line", "<absent>"),
                        getattr(err, "abort_line", "<absent>"),
                        getattr(err, "args", None),
                    )
                )
            )
    return "\n".join(parts)


def main():
    ok = 0
    fail = None
    try:
        for text in property_inputs():
            try:
                check_property(text)
                ok += 1
            except BaseException as exc:  # noqa - includes _Hang, RecursionError, ...
                fail = f"{type(exc).__name__}: {exc!s:.200} on input {text[:60]!r} (len {len(text)})"
                break
        if fail is None:
            # syntax errors must surface as failed blocks (with error + raw taken from the text)
            for text in FAULTY:
                lib = check_property(text)
                if not lib.failed_blocks:
                    fail = f"no failed block for faulty input {text!r}"
                    break
                if not all(fb.raw in text for fb in lib.failed_blocks):
                    fail = f"raw of failed block is not text of the input {text!r}"
                    break
                ok += 1
    except BaseException:
        fail = "harness error: " + traceback.format_exc(limit=2).replace("\n", " | ")

    try:
        rendering = behaviour_rendering()
    except BaseException as exc:
        rendering = f"rendering failed: {type(exc).__name__}"
        fail = fail or rendering
    print("BEHAVIOUR " + hashlib.sha256(rendering.encode("utf-8", "backslashreplace")).hexdigest())
    if fail is None:
        print(f"PROPERTY-OK {ok}")
    else:
        print(f"PROPERTY-FAIL {fail}")


if __name__ == "__main__":
    try:
        main()
    finally:
        sys.stdout.flush()
    sys.exit(0)
