"""Demo for the C09-preserving change: typed duplicate-key errors + alias properties.

Prints exactly two final lines:
    BEHAVIOUR <sha256>          (differs with / without the change)
    PROPERTY-OK <n>             (or PROPERTY-FAIL <what>)
Always exits 0.
"""
import hashlib
import logging
import random
import sys
import traceback

logging.disable(logging.CRITICAL)

import bibtexparser  # noqa: E402
from bibtexparser.library import Library  # noqa: E402
from bibtexparser.model import DuplicateBlockKeyBlock  # noqa: E402
from bibtexparser.model import DuplicateFieldKeyBlock  # noqa: E402
from bibtexparser.model import Entry  # noqa: E402
from bibtexparser.model import ExplicitComment  # noqa: E402
from bibtexparser.model import Field  # noqa: E402
from bibtexparser.model import ImplicitComment  # noqa: E402
from bibtexparser.model import ParsingFailedBlock  # noqa: E402
from bibtexparser.model import Preamble  # noqa: E402
from bibtexparser.model import String  # noqa: E402
from bibtexparser.splitter import Splitter  # noqa: E402

KEY_POOL = ["k1", "K1", "k2", "dup", "ключ", "a-b:c"]
FIELD_POOL = ["title", "author", "year", "note"]
ENTRY_TYPES = ["article", "book", "Misc", "inproceedings"]


def gen_value(rng, depth=0):
    kind = rng.randrange(7)
    if kind == 0:
        return str(rng.randrange(1000, 2100))
    if kind == 1:
        return '"' + rng.choice(["plain text", "Émile Zölä", "with {braces} inside", ""]) + '"'
    if kind == 2:
        return "{" + rng.choice(["Some Title", "日本語 タイトル", "a, b, and c", "x = y", ""]) + "}"
    if kind == 3:
        # deeply nested braces
        n = rng.randrange(2, 12)
        return "{" * n + "deep" + "}" * n
    if kind == 4:
        return rng.choice(KEY_POOL[:4]) + ' # " suffix"'
    if kind == 5:
        return rng.choice(["jan", "feb", "someMacro"])
    return '{multi\n   line {value} with "quotes"}'


def gen_entry(rng, nl, force_dup_fields=None):
    key = rng.choice(KEY_POOL)
    etype = rng.choice(ENTRY_TYPES)
    n_fields = rng.randrange(0, 6)
    dup_fields = rng.random() < 0.3 if force_dup_fields is None else force_dup_fields
    if dup_fields:
        n_fields = max(n_fields, 2)
        keys = [rng.choice(FIELD_POOL[:2]) for _ in range(n_fields)]
        if len(set(keys)) == len(keys):
            keys[-1] = keys[0]
    else:
        keys = rng.sample(FIELD_POOL, min(n_fields, len(FIELD_POOL)))
    fields = [(k, gen_value(rng)) for k in keys]
    if not fields:
        src = rng.choice(["@%s{%s}", "@%s{%s,}", "@%s{%s," + nl + "}"]) % (etype, key)
    else:
        style = rng.randrange(3)
        if style == 0:
            body = ("," + nl).join("  %s = %s" % kv for kv in fields)
            src = "@%s{%s,%s%s%s}" % (etype, key, nl, body, nl)
        elif style == 1:
            body = ", ".join("%s=%s" % kv for kv in fields)
            src = "@%s{%s, %s,}" % (etype, key, body)
        else:
            body = ("," + nl).join("\t%s   =   %s" % kv for kv in fields)
            src = "@%s{%s,%s%s,%s}" % (etype, key, nl, body, nl)
    return {"kind": "entry", "key": key, "type": etype, "fields": fields, "src": src}


def gen_string(rng):
    key = rng.choice(KEY_POOL)
    value = rng.choice(['"String Value"', "{Braced Value}", '"Ünïcode"', "{a {nested} b}"])
    src = rng.choice(["@string{%s = %s}", "@STRING{%s=%s}", "@String{ %s  =  %s }"]) % (key, value)
    return {"kind": "string", "key": key, "value": value, "src": src}


def gen_other(rng, prev_kind):
    choices = ["preamble", "explicit"]
    if prev_kind != "implicit":
        choices.append("implicit")
    kind = rng.choice(choices)
    if kind == "preamble":
        return {"kind": "preamble", "src": '@preamble{"\\newcommand{\\noop}[1]{}"}'}
    if kind == "explicit":
        return {"kind": "explicit", "src": "@comment{k1 is not a key here}"}
    return {"kind": "implicit", "src": "% just some free text about k1 and dup"}


def gen_document(rng):
    nl = rng.choice(["\n", "\n", "\r\n"])
    n = rng.randrange(0, 14)
    blocks = []
    prev_kind = None
    for _ in range(n):
        r = rng.random()
        if r < 0.55:
            b = gen_entry(rng, nl)
        elif r < 0.85:
            b = gen_string(rng)
        else:
            b = gen_other(rng, prev_kind)
        blocks.append(b)
        prev_kind = b["kind"]
    sep = rng.choice([nl, nl + nl, nl + "   " + nl])
    lead = rng.choice(["", nl, nl + nl])
    trail = rng.choice(["", nl, nl + nl])
    return blocks, lead + sep.join(b["src"] for b in blocks) + trail


def handmade_documents():
    """Edge cases: empty input, pure duplicates, interleavings, dup of dup-field entries."""
    docs = []

    def E(key, fields, etype="article"):
        body = ",\n".join("  %s = %s" % kv for kv in fields)
        src = "@%s{%s,\n%s\n}" % (etype, key, body) if fields else "@%s{%s}" % (etype, key)
        return {"kind": "entry", "key": key, "type": etype, "fields": list(fields), "src": src}

    def S(key, value):
        return {"kind": "string", "key": key, "value": value, "src": "@string{%s = %s}" % (key, value)}

    docs.append([])
    docs.append([E("dup", [("title", "{A}")]) for _ in range(5)])
    docs.append([S("dup", '"v%d"' % i) for i in range(5)])
    # same name used as entry key and string key, interleaved
    docs.append(
        [S("dup", '"s1"'), E("dup", [("title", "{e1}")]), S("dup", '"s2"'), E("dup", [("title", "{e2}")])]
    )
    # duplicate-field entry first, then "duplicates" of it: the next clean one must be live
    docs.append(
        [
            E("dup", [("title", "{1}"), ("title", "{2}")]),
            E("dup", [("title", "{3}")]),
            E("dup", [("title", "{4}"), ("author", "{x}"), ("title", "{5}"), ("author", "{y}")]),
            E("dup", [("title", "{6}")]),
        ]
    )
    # clean entry first, then a duplicate-field entry with the same key, then another clean one
    docs.append(
        [
            E("k1", [("year", "2000")]),
            E("k1", [("year", "2001"), ("year", "2002"), ("year", "2003")]),
            E("k1", [("year", "2004")]),
        ]
    )
    docs.append([E("k1", []), E("k1", []), E("K1", []), E("k1", [("note", "{" * 40 + "x" + "}" * 40)])])
    docs.append([E("ключ", [("title", "{Ü}")]), S("ключ", "{ü}"), E("ключ", [("title", "{Ö}")])])
    out = []
    for blocks in docs:
        for nl in ("\n", "\r\n"):
            text = (nl + nl).join(b["src"].replace("\n", nl) for b in blocks)
            out.append((blocks, text))
    return out


class PropertyViolation(Exception):
    pass


def need(cond, what):
    if not cond:
        raise PropertyViolation(what)


def check_inner_entry(inner, spec, raw_values, ctx):
    need(isinstance(inner, Entry), ctx + ": inner block is not an Entry")
    need(inner.key == spec["key"], ctx + ": inner entry key")
    need(inner.entry_type.lower() == spec["type"].lower(), ctx + ": inner entry type")
    need([f.key for f in inner.fields] == [k for k, _ in spec["fields"]], ctx + ": field occurrences/order")
    if raw_values:
        got = [f.value for f in inner.fields]
        want = [v.strip() for _, v in spec["fields"]]
        need(got == want, ctx + ": field values %r != %r" % (got, want))


def check_library(lib, specs, raw_values, ctx):
    """Direct assertion of the C09 statement."""
    blocks = lib.blocks
    need(len(blocks) == len(specs), ctx + ": %d blocks for %d source blocks" % (len(blocks), len(specs)))
    first_entry = {}
    first_string = {}
    for i, (blk, spec) in enumerate(zip(blocks, specs)):
        c = "%s block %d" % (ctx, i)
        kind = spec["kind"]
        if kind == "entry":
            field_keys = [k for k, _ in spec["fields"]]
            repeated = {k for k in field_keys if field_keys.count(k) > 1}
            if repeated:
                need(isinstance(blk, DuplicateFieldKeyBlock), c + ": expected DuplicateFieldKeyBlock")
                need(isinstance(blk, ParsingFailedBlock), c + ": not a failed block")
                need(set(blk.duplicate_keys) == repeated, c + ": duplicate_keys")
                check_inner_entry(blk.ignore_error_block, spec, raw_values, c)
                # key not registered as live (by this block)
                live = lib.entries_dict.get(spec["key"])
                need(live is not blk and live is not blk.ignore_error_block, c + ": dup-field key live")
                continue
            if spec["key"] in first_entry:
                j = first_entry[spec["key"]]
                need(isinstance(blk, DuplicateBlockKeyBlock), c + ": expected DuplicateBlockKeyBlock")
                need(isinstance(blk, ParsingFailedBlock), c + ": not a failed block")
                need(blk.key == spec["key"], c + ": exposed key")
                need(blk.previous_block is blocks[j], c + ": previous_block is not the first block")
                check_inner_entry(blk.ignore_error_block, spec, raw_values, c)
            else:
                first_entry[spec["key"]] = i
                need(type(blk) is Entry, c + ": expected live Entry, got %s" % type(blk).__name__)
                check_inner_entry(blk, spec, raw_values, c)
        elif kind == "string":
            if spec["key"] in first_string:
                j = first_string[spec["key"]]
                need(isinstance(blk, DuplicateBlockKeyBlock), c + ": expected DuplicateBlockKeyBlock (string)")
                need(blk.key == spec["key"], c + ": exposed string key")
                need(blk.previous_block is blocks[j], c + ": previous_block is not the first string")
                inner = blk.ignore_error_block
                need(isinstance(inner, String), c + ": inner is not a String")
                need(inner.key == spec["key"], c + ": inner string key")
                if raw_values:
                    need(inner.value == spec["value"], c + ": inner string value")
            else:
                first_string[spec["key"]] = i
                need(type(blk) is String, c + ": expected live String")
                need(blk.key == spec["key"], c + ": string key")
                if raw_values:
                    need(blk.value == spec["value"], c + ": string value")
        elif kind == "preamble":
            need(isinstance(blk, Preamble), c + ": expected Preamble")
        elif kind == "explicit":
            need(isinstance(blk, ExplicitComment), c + ": expected ExplicitComment")
        elif kind == "implicit":
            need(isinstance(blk, ImplicitComment), c + ": expected ImplicitComment")
    # live registries: exactly the first occurrences, and they are the very blocks at those positions
    ed = lib.entries_dict
    need(set(ed) == set(first_entry), ctx + ": live entry keys %r != %r" % (set(ed), set(first_entry)))
    for k, j in first_entry.items():
        need(ed[k] is blocks[j], ctx + ": live entry %r is not the first one" % k)
    sd = lib.strings_dict
    need(set(sd) == set(first_string), ctx + ": live string keys")
    for k, j in first_string.items():
        need(sd[k] is blocks[j], ctx + ": live string %r is not the first one" % k)
    need(len(lib.entries) == len(first_entry), ctx + ": number of live entries")
    need(len(lib.strings) == len(first_string), ctx + ": number of live strings")
    need(len(lib.failed_blocks) == sum(isinstance(b, ParsingFailedBlock) for b in blocks), ctx + ": failed")


def run_property_checks():
    passed = 0
    rng = random.Random(90909)
    docs = handmade_documents()
    for _ in range(350):
        docs.append(gen_document(rng))
    for n, (specs, text) in enumerate(docs):
        # (1) splitter + library only
        lib = bibtexparser.parse_string(text, parse_stack=[])
        check_library(lib, specs, True, "doc %d raw" % n)
        passed += 1
        # (2) default parse stack
        lib = bibtexparser.parse_string(text)
        check_library(lib, specs, False, "doc %d default-stack" % n)
        passed += 1
    # (3) object reuse: two documents split into the same Library
    for n in range(40):
        s1, t1 = gen_document(rng)
        s2, t2 = gen_document(rng)
        lib = Library()
        lib = Splitter(t1).split(library=lib)
        lib = Splitter(t2).split(library=lib)
        check_library(lib, s1 + s2, True, "reuse %d" % n)
        passed += 1
    return passed


def render_behaviour():
    """Rendering of what the change affects: error objects, reprs and alias properties."""
    text = (
        '@string{dup = "one"}\n'
        '@string{dup = "two"}\n'
        "@article{dup, title = {A}}\n"
        "@article{dup, title = {B}}\n"
        "@book{k1, title = {x}, author = {y}, title = {z}}\n"
        "@book{k1, title = {fine}}\n"
    )
    out = []
    for stack in ([], None):
        lib = bibtexparser.parse_string(text, parse_stack=stack)
        for b in lib.failed_blocks:
            err = b.error
            out.append(type(b).__name__)
            out.append(type(err).__name__)
            out.append(str(err))
            out.append(repr(sorted((k, repr(v)) for k, v in vars(err).items())))
            out.append(repr(b) if type(b).__repr__ is not object.__repr__ else "<default repr>")
            out.append("duplicate_block:%s" % (getattr(b, "duplicate_block", "<n/a>") is b.ignore_error_block))
            out.append("entry:%s" % (getattr(b, "entry", "<n/a>") is b.ignore_error_block))
    # programmatic use, blocks without line information
    lib = Library()
    lib.add(Entry("misc", "k", [Field("a", "1")]))
    lib.add(Entry("misc", "k", [Field("a", "2")]))
    out.append(str(lib.failed_blocks[0].error))
    return "\n".join(out)


def main():
    try:
        behaviour = hashlib.sha256(render_behaviour().encode("utf-8")).hexdigest()
    except Exception:
        traceback.print_exc()
        behaviour = "error"
    try:
        passed = run_property_checks()
        verdict = "PROPERTY-OK %d" % passed
    except PropertyViolation as e:
        verdict = "PROPERTY-FAIL %s" % str(e).replace("\n", " ")
    except Exception as e:
        traceback.print_exc()
        verdict = "PROPERTY-FAIL unexpected %s: %s" % (type(e).__name__, str(e).replace("\n", " "))
    sys.stdout.flush()
    sys.stderr.flush()
    print("BEHAVIOUR %s" % behaviour)
    print(verdict)


if __name__ == "__main__":
    try:
        main()
    except BaseException:
        traceback.print_exc()
        print("BEHAVIOUR error")
        print("PROPERTY-FAIL crashed")
    sys.exit(0)
