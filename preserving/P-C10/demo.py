"""Differential demo for the enclosing-middleware refactoring (property C10).

Exercises RemoveEnclosingMiddleware / AddEnclosingMiddleware on a few hundred
values, directly on blocks and through parse_string / write_string, and prints
a deterministic digest of everything observable through the public API.
Exception message texts and private names are deliberately NOT part of the digest.
"""
import hashlib
import itertools
import json
import logging
import random
import sys
import warnings
from copy import deepcopy

import bibtexparser
from bibtexparser.library import Library
from bibtexparser.middlewares import enclosing as enc_mod
from bibtexparser.middlewares.enclosing import AddEnclosingMiddleware
from bibtexparser.middlewares.enclosing import RemoveEnclosingMiddleware
from bibtexparser.model import Entry
from bibtexparser.model import Field
from bibtexparser.model import String

logging.disable(logging.CRITICAL)  # the library logs warnings for failed blocks
warnings.simplefilter("ignore")

RESULTS = []


def rec(tag, payload):
    RESULTS.append([tag, payload])


def canon(x):
    """JSON-able canonical rendering which keeps str and int apart."""
    if isinstance(x, bool) or x is None:
        return x
    if isinstance(x, int):
        return {"int": x}
    if isinstance(x, str):
        return x
    if isinstance(x, dict):
        return {"dict": [[canon(k), canon(v)] for k, v in x.items()]}
    if isinstance(x, (list, tuple)):
        return [canon(i) for i in x]
    return {"repr-type": type(x).__name__}


def render_block(b):
    out = {"type": type(b).__name__, "start_line": b.start_line, "raw": b.raw}
    if isinstance(b, Entry):
        out["entry_type"] = b.entry_type
        out["key"] = b.key
        out["fields"] = [[f.key, canon(f.value), f.start_line] for f in b.fields]
    elif isinstance(b, String):
        out["key"] = b.key
        out["value"] = canon(b.value)
    elif hasattr(b, "value"):
        out["value"] = canon(b.value)
    elif hasattr(b, "comment"):
        out["comment"] = b.comment
    if hasattr(b, "error"):
        out["error_type"] = type(b.error).__name__
    out["metadata"] = canon(dict(b.parser_metadata))
    return out


def render_library(lib):
    return {
        "blocks": [render_block(b) for b in lib.blocks],
        "failed": [type(b).__name__ for b in lib.failed_blocks],
    }


def attempt(tag, fn):
    try:
        rec(tag, {"ok": fn()})
    except Exception as e:  # noqa: BLE001 - only the type is recorded
        rec(tag, {"error_type": type(e).__name__})


# --------------------------------------------------------------------------
# Values
# --------------------------------------------------------------------------
FIXED_VALUES = [
    "",
    " ",
    "\t\n",
    '"',
    '""',
    '"""',
    "{",
    "}",
    "{}",
    "}{",
    '{"',
    '"}',
    "{{}}",
    "{{{deep}}}",
    '""a""',
    "{a} # {b}",
    '"a" # "b"',
    '{a} # "b"',
    '"a" # {b}',
    "abc # {b}",
    "{a} # abc",
    "abc",
    "2020",
    " 2020 ",
    "{2020}",
    '"2020"',
    "-5",
    "3.14",
    "²",
    "٣٤",
    "{äöü 中文}",
    '"été"',
    "  {padded}  ",
    '\t"padded"\n',
    "{line\r\nbreak}",
    '"line\nbreak"',
    "{trailing backslash\\}",
    '"quote \\" inside"',
    '{quote " inside}',
    '"brace { inside"',
    '"{Braced} inside quotes"',
    "{\\'{e}}",
    "{" * 40 + "x" + "}" * 40,
    "{ }",
    '" "',
    "jan",
    "jan # {~1}",
    "no-enclosing",
    "{no-enclosing}",
    " {nbsp} ",
    " {emspace} ",
]


def random_values(n, seed):
    rng = random.Random(seed)
    alphabet = ['{', '}', '"', ' ', '#', 'a', 'B', '7', '\\', '\n', 'é', '\t']
    out = []
    for _ in range(n):
        length = rng.randint(0, 9)
        out.append("".join(rng.choice(alphabet) for _ in range(length)))
    return out


VALUES = FIXED_VALUES + random_values(160, 1234)
INT_VALUES = [0, 7, 2020, -3, True]
KEYS = ["year", "month", "pages", "issue", "title", "Year", "YEAR", "author", "", "édition"]
OPTION_COMBOS = list(itertools.product(["{", '"'], [True, False], [True, False]))


def make_add(default, reuse, enclose_ints, inplace=True):
    return AddEnclosingMiddleware(
        reuse_previous_enclosing=reuse,
        enclose_integers=enclose_ints,
        default_enclosing=default,
        allow_inplace_modification=inplace,
    )


# --------------------------------------------------------------------------
# 1. constructor / metadata keys / module constants
# --------------------------------------------------------------------------
rec("consts", [
    enc_mod.REMOVED_ENCLOSING_KEY,
    enc_mod.STRINGS_CAN_BE_UNESCAPED_INTS,
    list(enc_mod.ENTRY_POTENTIALLY_INT_FIELDS),
    RemoveEnclosingMiddleware.metadata_key(),
    AddEnclosingMiddleware.metadata_key(),
])
for bad in ["no-enclosing", "", "}", "(", None, 1, "{{", "'"]:
    attempt("ctor-bad-%r" % (bad,), lambda: type(make_add(bad, True, True)).__name__)
for inplace in (True, False):
    r = RemoveEnclosingMiddleware(allow_inplace_modification=inplace)
    a = make_add("{", True, False, inplace)
    rec("flags", [r.allow_inplace_modification, r.allow_parallel_execution,
                  a.allow_inplace_modification, a.allow_parallel_execution])

# --------------------------------------------------------------------------
# 2. remove on strings and entries, then add back with every option combo
# --------------------------------------------------------------------------
remover = RemoveEnclosingMiddleware()  # reused across all calls on purpose
adders = {combo: make_add(*combo) for combo in OPTION_COMBOS}  # reused as well
empty_lib = Library()

for i, v in enumerate(VALUES):
    s = String(key="s%d" % i, value=v, start_line=i, raw="@string{s%d = %s}" % (i, v))
    out = remover.transform_string(s, empty_lib)
    rec("rm-string", [v, out is s, render_block(out)])
    for combo, adder in adders.items():
        s2 = deepcopy(out)
        back = adder.transform_string(s2, empty_lib)
        rec("add-string", [v, list(combo), back is s2, render_block(back),
                           (back.value == v.strip()) if combo[1] else None])
        # without any metadata -> default enclosing
        s3 = String(key="n", value=v)
        rec("add-string-nometa", [v, list(combo), render_block(adder.transform_string(s3))])

for i, v in enumerate(VALUES):
    key = KEYS[i % len(KEYS)]
    other = VALUES[(i * 7 + 3) % len(VALUES)]
    fields = [
        Field(key=key, value=v, start_line=1),
        Field(key="year", value=other, start_line=2),
        Field(key=key, value=other, start_line=3),  # duplicate key: last one wins in metadata
        Field(key="note", value=v, start_line=4),
    ]
    e = Entry(entry_type="article", key="k%d" % i, fields=fields, start_line=i, raw="raw%d" % i)
    out = remover.transform_entry(e, empty_lib)
    rec("rm-entry", [out is e, render_block(out)])
    for combo, adder in adders.items():
        e2 = deepcopy(out)
        back = adder.transform_entry(e2, empty_lib)
        rec("add-entry", [list(combo), back is e2, render_block(back)])

# entries without fields; metadata is still written / popped
e = Entry(entry_type="misc", key="nofields", fields=[])
rec("rm-empty-entry", render_block(remover.transform_entry(e, empty_lib)))
rec("add-empty-entry", render_block(adders[("{", True, True)].transform_entry(e, empty_lib)))

# --------------------------------------------------------------------------
# 3. integer rule: digit strings and ints x keys x options (no metadata)
# --------------------------------------------------------------------------
INTLIKE = ["2020", "0", "007", "²", "٣", "12a", "-1", "1.5", "", " 1", "1 ", "{1}"] + INT_VALUES
for v in INTLIKE:
    for key in KEYS:
        for combo, adder in adders.items():
            e = Entry(entry_type="book", key="i", fields=[Field(key=key, value=v)])
            attempt("int-rule", lambda: [canon(v), key, list(combo),
                                         render_block(adder.transform_entry(e))])
    for combo, adder in adders.items():
        s = String(key="i", value=v)
        attempt("int-rule-string", lambda: [canon(v), list(combo),
                                            render_block(adder.transform_string(s))])

# --------------------------------------------------------------------------
# 4. hand-written / odd metadata
# --------------------------------------------------------------------------
ODD_META = ["{", '"', "no-enclosing", None, "", "}", "[", "{{", 0, 1, False, ("{",), ["{"], {"{": 1}]
for meta in ODD_META:
    for v in ["abc", "2020", 2020, ""]:
        for key in ["year", "title"]:
            for combo, adder in adders.items():
                e = Entry(entry_type="book", key="m", fields=[Field(key=key, value=v)])
                e.parser_metadata[enc_mod.REMOVED_ENCLOSING_KEY] = {key: meta}
                attempt("odd-meta-entry", lambda: [canon(meta), canon(v), key, list(combo),
                                                   render_block(adder.transform_entry(e))])
        for combo, adder in adders.items():
            s = String(key="m", value=v)
            s.parser_metadata[enc_mod.REMOVED_ENCLOSING_KEY] = meta
            attempt("odd-meta-string", lambda: [canon(meta), canon(v), list(combo),
                                                render_block(adder.transform_string(s))])

# whole-entry metadata of an odd shape
for whole in [None, {}, {"other": "{"}, "", 0, [], "abc"]:
    for combo, adder in adders.items():
        e = Entry(entry_type="book", key="w", fields=[Field(key="year", value="1999"),
                                                     Field(key="title", value="T")])
        e.parser_metadata[enc_mod.REMOVED_ENCLOSING_KEY] = whole
        attempt("odd-whole-meta", lambda: [canon(whole), list(combo),
                                           render_block(adder.transform_entry(e))])
        attempt("odd-whole-meta-after", lambda: render_block(e))

# non-string values handed to the remover
for v in [2020, None, 1.5, b"{a}", ["{a}"]]:
    e = Entry(entry_type="book", key="x", fields=[Field(key="title", value="{ok}"),
                                                 Field(key="year", value=v),
                                                 Field(key="note", value='"later"')])
    attempt("rm-nonstr-entry", lambda: render_block(remover.transform_entry(e, empty_lib)))
    rec("rm-nonstr-entry-after", {"fields": [[f.key, canon(f.value)] for f in e.fields],
                                  "meta": canon(dict(e.parser_metadata))})
    s = String(key="x", value=v)
    attempt("rm-nonstr-string", lambda: render_block(remover.transform_string(s, empty_lib)))
    rec("rm-nonstr-string-after", [canon(s.value), canon(dict(s.parser_metadata))])

# --------------------------------------------------------------------------
# 5. library-level transform, with and without in-place modification
# --------------------------------------------------------------------------
BIB = """@comment{a comment}
@string{jan = "January"}
@string{pub = {Some {P}ublisher}}
@preamble{"\\newcommand{\\noop}[1]{}"}
implicit comment here
@article{key1,
  author = {Doe, John and {Corp Inc.}},
  title = "A {T}itle with \\"quotes\\"",
  year = 2020,
  month = jan,
  pages = {1--10},
  note = "a" # "b",
  extra = {a} # {b},
  volume = "7",
  empty = {},
  emptyq = "",
}
@book{key2, title = {{Double}}, year = {1999}, year = {2000}, publisher = pub # { Ltd.}}
@article{key1, title = {Duplicate key}}
@misc{broken, title = {unbalanced }
@misc{after, title = {Ünicöde}, number = 12}
"""
for text in [BIB, BIB.replace("\n", "\r\n"), "", "   \n", "@string{x = 5}\n@misc{k, year = 5, pages = 5 # 6}"]:
    for inplace in (True, False):
        lib = bibtexparser.parse_string(text, parse_stack=[])
        before = render_library(lib)
        rm = RemoveEnclosingMiddleware(allow_inplace_modification=inplace)
        lib2 = rm.transform(lib)
        rec("lib-remove", [inplace, render_library(lib2), render_library(lib) == before,
                           [a is b for a, b in zip(lib.blocks, lib2.blocks)]])
        for combo in OPTION_COMBOS:
            lib3 = make_add(*combo, inplace=False).transform(lib2)
            rec("lib-add", [inplace, list(combo), render_library(lib3)])
            attempt("lib-write", lambda: bibtexparser.write_string(lib3, unparse_stack=[]))
        for combo in OPTION_COMBOS:
            lib4 = make_add(*combo, inplace=inplace).transform(lib2)
            rec("lib-add-inplace", [inplace, list(combo), render_library(lib4),
                                    [a is b for a, b in zip(lib2.blocks, lib4.blocks)]])
            # second application on the same objects: metadata already consumed for entries
            lib5 = make_add(*combo, inplace=inplace).transform(lib4)
            rec("lib-add-twice", [inplace, list(combo), render_library(lib5)])

# --------------------------------------------------------------------------
# 6. full default stacks: parse -> write -> parse
# --------------------------------------------------------------------------
def brace_balanced(v):
    depth = 0
    for ch in v:
        if ch == "{":
            depth += 1
        elif ch == "}":
            depth -= 1
            if depth < 0:
                return False
    return depth == 0


for text in [BIB, BIB.replace("\n", "\r\n")]:
    lib = bibtexparser.parse_string(text)
    rec("default-parse", render_library(lib))
    out = bibtexparser.write_string(lib)
    rec("default-write", out)
    rec("default-reparse", render_library(bibtexparser.parse_string(out)))
    lib = bibtexparser.parse_string(text, append_middleware=[make_add("{", True, False)])
    rec("parse-append-add", render_library(lib))
    into = bibtexparser.parse_string("@misc{pre, year = 1}")
    lib = bibtexparser.parse_string(text, library=into)
    rec("parse-into-existing", render_library(lib))

for i, v in enumerate(VALUES):
    if not brace_balanced(v) or v.endswith("\\"):
        continue
    for combo in OPTION_COMBOS:
        if combo[0] == '"' and '"' in v:
            continue
        for key in ("title", "year"):
            e = Entry(entry_type="article", key="rt", fields=[Field(key=key, value=v)])
            lib = Library(blocks=[e])

            def roundtrip():
                text = bibtexparser.write_string(lib, unparse_stack=[make_add(*combo, inplace=False)])
                again = bibtexparser.parse_string(text)
                return [text, render_library(again)]

            attempt("reparse", lambda: [v, list(combo), key, roundtrip()])

blob = json.dumps(RESULTS, sort_keys=True, ensure_ascii=True, separators=(",", ":"))
print("records", len(RESULTS))
print("DIGEST " + hashlib.sha256(blob.encode("utf-8")).hexdigest())
sys.exit(0)
