"""Demo for the C05 behaviour-changing / property-preserving change.

Prints two final lines:
  BEHAVIOUR <sha256>   - rendering of the behaviour affected by the change
  PROPERTY-OK <n>      - number of parse->write->parse / fixpoint checks passed
Always exits 0.
"""
import hashlib
import random
import sys
import traceback

import bibtexparser
from bibtexparser import BibtexFormat
from bibtexparser.model import Entry
from bibtexparser.model import ExplicitComment
from bibtexparser.model import ImplicitComment
from bibtexparser.model import Preamble
from bibtexparser.model import String


# --------------------------------------------------------------------------- #
# Behaviour rendering
# --------------------------------------------------------------------------- #
def behaviour_rendering() -> str:
    doc = (
        "@string{a = {Alpha}}\n\n"
        '@string{longername = "Beta" # a}\n\n'
        "@preamble{ \"pre\" }\n\n"
        "@article{k1,\n  title = {T},\n  journal = a,\n  veryverylongfieldname = 12\n}\n"
    )
    lib = bibtexparser.parse_string(doc)
    parts = []
    for vc in (0, 3, 8, 12, 30, "auto"):
        fmt = BibtexFormat()
        fmt.value_column = vc
        parts.append(f"value_column={vc!r}\n" + bibtexparser.write_string(lib, bibtex_format=fmt))
    fmt = BibtexFormat()
    fmt.indent = "  "
    fmt.trailing_comma = True
    has_custom_repr = type(fmt).__repr__ is not object.__repr__
    parts.append(f"custom_repr={has_custom_repr}")
    if has_custom_repr:
        parts.append(repr(fmt))
    return "\n-----\n".join(parts)


# --------------------------------------------------------------------------- #
# Property checks
# --------------------------------------------------------------------------- #
WORDS = [
    "alpha", "beta", "Gamma", "delta", "Épsilon", "zeta", "ηθ", "müller", "naïve",
    "data", "set", "of", "and", "the", "Proc.", "Vol", "x=y", "a,b", "100\\%", "it's",
    "\\\"o", "\\{", "\\}", "日本語", "#", "~", "--",
]
FIELD_KEYS = [
    "title", "author", "year", "journal", "booktitle", "note", "pages", "month",
    "a", "veryveryverylongfieldkey", "doi", "url", "Editor", "x-y", "abstract_2",
]
ENTRY_TYPES = ["article", "book", "inproceedings", "misc", "Commentary", "stringent", "ARTICLE"]


def gen_text(rng, depth=0, multiline=False):
    n = rng.randint(0, 5)
    toks = []
    for _ in range(n):
        r = rng.random()
        if r < 0.2 and depth < 4:
            toks.append("{" + gen_text(rng, depth + 1, multiline) + "}")
        elif r < 0.27 and multiline:
            toks.append("\n   ")
        else:
            toks.append(rng.choice(WORDS))
    return " ".join(toks)


def gen_value(rng, string_keys, allow_concat=True):
    r = rng.random()
    if r < 0.35:
        return "{" + gen_text(rng, multiline=rng.random() < 0.3) + "}"
    if r < 0.55:
        return '"' + gen_text(rng, multiline=rng.random() < 0.3).replace('"', "") + '"'
    if r < 0.65:
        return str(rng.choice([0, 7, 1999, 2024, 123456789, "007"]))
    if r < 0.78 and string_keys:
        return rng.choice(string_keys)  # resolved reference
    if r < 0.85:
        return rng.choice(["undefinedref", "jan", "unknown_Str"])  # unresolved reference
    if allow_concat:
        n = rng.randint(2, 4)
        return " # ".join(gen_value(rng, string_keys, allow_concat=False) for _ in range(n))
    return "{" + gen_text(rng) + "}"


def gen_document(rng, idx):
    n_blocks = rng.choice([0, 1, 1, 2, 3, 5, 8, 12])
    string_keys = []
    blocks = []
    last_was_text = False
    for b in range(n_blocks):
        r = rng.random()
        if r < 0.2:
            key = rng.choice(["s", "str", "JnL", "averyveryverylongstringkey", "ab_c"]) + str(len(string_keys))
            val = gen_value(rng, string_keys)
            sp = rng.choice(["", " ", "   ", "\t"])
            blocks.append("@%s{%s%s=%s%s}" % (rng.choice(["string", "String", "STRING"]), key, sp, sp, val))
            string_keys.append(key)
            last_was_text = False
        elif r < 0.3:
            blocks.append("@preamble{%s}" % gen_value(rng, string_keys))
            last_was_text = False
        elif r < 0.4:
            blocks.append("@comment{%s}" % gen_text(rng, multiline=rng.random() < 0.3))
            last_was_text = False
        elif r < 0.55 and not last_was_text:
            lines = [
                rng.choice(["% ", "", "# ", "-- "]) + " ".join(rng.choice(WORDS[:12]) for _ in range(rng.randint(1, 4)))
                for _ in range(rng.randint(1, 3))
            ]
            blocks.append("\n".join(lines))
            last_was_text = True
        else:
            etype = rng.choice(ENTRY_TYPES)
            key = rng.choice(["key", "Müller2020", "a:b", "x/y-z", "k.1", "42", ""]) + "_%d_%d" % (idx, b)
            nf = rng.choice([0, 0, 1, 2, 3, 5])
            fkeys = rng.sample(FIELD_KEYS, nf)
            if nf == 0 and rng.random() < 0.5:
                blocks.append("@%s{%s}" % (etype, key))
            else:
                ind = rng.choice(["", " ", "  ", "\t", "    "])
                sp = rng.choice(["", " ", "   "])
                fields = [
                    "%s%s%s=%s%s" % (ind, fk, sp, sp, gen_value(rng, string_keys)) for fk in fkeys
                ]
                body = ",\n".join(fields)
                if fields and rng.random() < 0.5:
                    body += ","
                blocks.append("@%s{%s,\n%s\n}" % (etype, key, body))
            last_was_text = False
    sep = rng.choice(["\n", "\n\n", "\n\n\n", "\n \n"])
    doc = sep.join(blocks)
    doc = rng.choice(["", "\n", "\n\n  \n"]) + doc + rng.choice(["", "\n", "\n\n"])
    if rng.random() < 0.2:
        doc = doc.replace("\n", "\r\n")
    return doc


def content(lib):
    out = []
    for b in lib.blocks:
        if isinstance(b, Entry):
            out.append(("entry", b.entry_type, b.key, tuple((f.key, f.value) for f in b.fields)))
        elif isinstance(b, String):
            out.append(("string", b.key, b.value))
        elif isinstance(b, Preamble):
            out.append(("preamble", b.value))
        elif isinstance(b, ExplicitComment):
            out.append(("expl", b.comment))
        elif isinstance(b, ImplicitComment):
            out.append(("impl", b.comment))
        else:
            out.append(("OTHER", type(b).__name__, getattr(b, "raw", None)))
    return out


def formats(rng):
    res = []
    # default format
    res.append(BibtexFormat())
    # a systematic handful plus random ones
    for vc in (0, 1, 5, 14, 40, "auto"):
        f = BibtexFormat()
        f.value_column = vc
        f.indent = rng.choice(["\t", "", " ", "  ", "    ", "\t\t"])
        f.trailing_comma = rng.random() < 0.5
        f.block_separator = rng.choice(["\n\n", "\n", "", "\n\n\n", " \n", "\n\t\n"])
        res.append(f)
    return res


def check_one(doc, fmt):
    lib1 = bibtexparser.parse_string(doc)
    assert not lib1.failed_blocks, "generator produced a non well-formed document"
    c1 = content(lib1)
    out1 = bibtexparser.write_string(lib1, bibtex_format=fmt)
    # writing must not modify the library or the format
    assert content(lib1) == c1, "write modified library"
    lib2 = bibtexparser.parse_string(out1)
    assert not lib2.failed_blocks, "re-parse has failed blocks"
    c2 = content(lib2)
    assert c1 == c2, "content differs:\n%r\n%r" % (c1, c2)
    out2 = bibtexparser.write_string(lib2, bibtex_format=fmt)
    assert out1 == out2, "not a fixpoint"


FIXED_DOCS = [
    "",
    "\n\n",
    "just a comment",
    "@string{a = {x}}",
    "@string{a = {x}}\n@string{b = a}\n@string{c = a # b # {lit}}\n@misc{k, t = c, u = a, v = b # a}",
    "@string{averyveryverylongstringkeyname = \"v\"}\n\n@article{k,\n a = averyveryverylongstringkeyname\n}",
    "@preamble{\"\\newcommand{\\x}{y}\" # a}",
    "@comment{jabref-meta: {nested {braces}} here}",
    "@article{k,}",
    "@article{k}",
    "@article{k,\n title = {{{{{{deep}}}}}},\n note = \"with {\"} quote\",\n year = 2020,\n}",
    "@article{k,\r\n title = {multi\r\n line},\r\n}\r\n% trailing\r\n",
    "% c1\n@article{k1, a = {1}}\n% c2\n% c3\n@book{k2, b = \"2\"}\ntrailing text",
    "@string{  spaced   =   {v}  }\n@misc{ spacedkey , f   =   spaced }",
]


def main():
    beh = behaviour_rendering()
    print("BEHAVIOUR-DETAIL-BEGIN")
    print(beh)
    print("BEHAVIOUR-DETAIL-END")
    beh_hash = hashlib.sha256(beh.encode("utf-8")).hexdigest()

    rng = random.Random(50505)
    n_ok = 0
    failure = None
    try:
        docs = list(FIXED_DOCS) + [gen_document(rng, i) for i in range(120)]
        shared = BibtexFormat()
        shared.value_column = "auto"
        for doc in docs:
            for fmt in formats(rng) + [shared]:  # `shared` is reused across calls
                try:
                    check_one(doc, fmt)
                except Exception as e:  # noqa
                    failure = "%s: %s | doc=%r | fmt=%r" % (
                        type(e).__name__, e, doc,
                        (fmt.indent, fmt.value_column, fmt.trailing_comma, fmt.block_separator),
                    )
                    raise
                n_ok += 1
        assert shared.value_column == "auto", "format object was modified by write"
    except Exception:
        if failure is None:
            failure = traceback.format_exc()

    print("BEHAVIOUR " + beh_hash)
    if failure is None:
        print("PROPERTY-OK %d" % n_ok)
    else:
        print("PROPERTY-FAIL " + failure.replace("\n", "\\n")[:2000])


if __name__ == "__main__":
    try:
        main()
    except Exception:
        traceback.print_exc()
        print("BEHAVIOUR error")
        print("PROPERTY-FAIL demo crashed")
    sys.exit(0)
