"""Differential demo for the splitter refactoring (property C03).

Prints a deterministic digest of the splitter's observable results over a
few thousand varied inputs. Exception *messages* and private attributes are
deliberately not part of the digest.
"""
import hashlib
import itertools
import logging
import random
import sys

logging.disable(logging.CRITICAL)

from bibtexparser.library import Library
from bibtexparser.model import (
    DuplicateFieldKeyBlock,
    Entry,
    ExplicitComment,
    ImplicitComment,
    ParsingFailedBlock,
    Preamble,
    String,
)
from bibtexparser.splitter import Splitter


def render_fields(fields):
    return [(f.key, f.value, f.start_line) for f in fields]


def render_block(b):
    out = [type(b).__name__, b.start_line, b.raw]
    if isinstance(b, DuplicateFieldKeyBlock):
        out.append(sorted(b.duplicate_keys))
        e = b.ignore_error_block
        out.append(render_block(e) if e is not None else None)
        out.append(type(b.error).__name__)
    elif isinstance(b, ParsingFailedBlock):
        out.append(type(b.error).__name__)
        out.append(getattr(b.error, "end_index", None))
    elif isinstance(b, Entry):
        out += [b.entry_type, b.key, render_fields(b.fields)]
    elif isinstance(b, String):
        out += [b.key, b.value]
    elif isinstance(b, Preamble):
        out += [b.value]
    elif isinstance(b, (ExplicitComment, ImplicitComment)):
        out += [b.comment]
    return out


def render_library(lib):
    return [
        [render_block(b) for b in lib.blocks],
        [render_block(b) for b in lib.failed_blocks],
    ]


def run(text):
    try:
        lib = Splitter(text).split()
        return ["ok", render_library(lib)]
    except Exception as e:  # noqa: BLE001 - only the type is observable here
        return ["exc", type(e).__name__]


def run_reuse(text, other):
    """Same Splitter object split twice; and splitting into an existing library."""
    res = []
    try:
        s = Splitter(text)
        first = s.split()
        res.append(render_library(first))
        second = s.split()
        res.append(render_library(second))
        lib = Library()
        Splitter(other).split(lib)
        got = Splitter(text).split(lib)
        res.append(got is lib)
        res.append(render_library(lib))
    except Exception as e:  # noqa: BLE001
        res.append(["exc", type(e).__name__])
    return res


TOKENS = [
    "@article{k,",
    "@a{",
    "@string{s = ",
    "@preamble{",
    "@comment{",
    "@Comment {",
    "@commentary{c,\n",
    "@",
    "{",
    "}",
    '"',
    ",",
    "=",
    "a = {x}",
    'b = "y"',
    "a = 1",
    "\n",
    "\r\n",
    "\\\n",
    "\\{",
    "\\}",
    '\\"',
    " ",
    "\t",
    "txt",
    "é中",
    "\u2028",
    "\x0b\x0c",
    "\x1c\x1d\x1e\x1f",
    "\xa0\u3000",
    "\x85",
]

EDGE = [
    "",
    "\n",
    "\n\n\n",
    " \t \n \x0b\n\x0c \n",
    "\u2028\n\u2029\n\x85\nfoo\n\u3000\n",
    "\x1c\n\x1d\n\x1e\nbar \x1f\n",
    "plain text only",
    "\n\n  leading lines then text\n\n",
    "@article{key, title = {T}, author = \"A\"}",
    "@article{key,\n title = {T},\n author = \"A\",\n}\n",
    "@article{key,\r\n title = {T},\r\n author = \"A\"\r\n}\r\n",
    "@article{key}",
    "@article{key,}",
    "@article{,}",
    "@article{}",
    "@article{key, a = {1}, a = {2}, b = 3, b = 4}",
    "@article{key, a = {" + "{" * 60 + "x" + "}" * 60 + "}}",
    "@article{key, a = \"{\"}\" # s # {t}, b = \"q{\"}q\"}",
    "@article{key, a = {x\"y\"z}, b = \"a, b = c\", c = {d, e = f}}",
    "@article{key, a = {x} junk @b{k2, t = 1}",
    "@article{key, a = \"unterminated @b{k2, t = 1}",
    "@article{key, a = {unterminated @b{k2, t = 1}",
    "@article{key a = 1}",
    "@article{key = 1}",
    "@article{key, a 1}",
    "@article{key, a = 1 = 2}",
    "@article{key, a = 1, = 2}",
    "@article{key, a = 1, b}",
    "@article{key, a = 1",
    "@article{key,",
    "@article{",
    "@string{s = \"v\"}",
    "@string{s = {v}}",
    "@string{s \"v\"}",
    "@string{s = {v}",
    "@string{s = {v} @string{t = {w}}",
    "@STRING { s = {v} }",
    "@preamble{\"p\" # s}",
    "@preamble{ {nested {deep}} }",
    "@preamble{ open @article{k, a = 1}",
    "@comment{c}",
    "@comment{ c {n} \n more }",
    "@comment{ open @article{k, a = 1}",
    "@comment{a}@comment{b} @string{s={v}} text @article{k,a=1}",
    "text @article{k, a=1} trailing \\\n@article{k2, b=2}\\\n",
    "\\@article{k, a=1}",
    "\\{ @article{k, a=\\{1\\}} \\}",
    "@article{k, a = \"\\\"\"}",
    "@article{k, a = {\\}}",
    "@article {k, a = 1}",
    "@article\t {k, a = 1}",
    "@article\n{k, a = 1}",
    "@{k, a = 1}",
    "@ {k}",
    "@éntry{k, ü = {中}}",
    "%comment line\n@article{k,\n  a\n =\n 1\n}\n",
    "@article{k,\n\n\n a = {x\n\ny},\n\n b =\n\n 2}\n\n\ntail\n\n",
]


def gen_inputs():
    yield from EDGE
    # bounded-exhaustive token sequences, length 1..3
    for n in (1, 2, 3):
        for combo in itertools.product(TOKENS, repeat=n):
            yield "".join(combo)
    # random larger documents
    rng = random.Random(20240303)
    for _ in range(600):
        n = rng.randint(4, 40)
        yield "".join(rng.choice(TOKENS + EDGE[8:]) for _ in range(n))


def main():
    h = hashlib.sha256()
    count = 0
    for text in gen_inputs():
        h.update(repr([text, run(text)]).encode("utf-8", "backslashreplace"))
        count += 1
    rng = random.Random(7)
    pool = EDGE + ["".join(rng.choice(TOKENS) for _ in range(12)) for _ in range(150)]
    for i, text in enumerate(pool):
        other = pool[(i * 7 + 3) % len(pool)]
        h.update(repr([text, other, run_reuse(text, other)]).encode("utf-8", "backslashreplace"))
        count += 1
    print("inputs", count)
    print("DIGEST", h.hexdigest())


if __name__ == "__main__":
    try:
        main()
    except Exception as e:  # noqa: BLE001
        print("demo crashed:", type(e).__name__, e)
        print("DIGEST", "crashed")
    sys.exit(0)
