"""Demo for the C13 behaviour-changing-but-property-preserving change.

Prints exactly two final lines:
  BEHAVIOUR <sha256>   - rendering of how invalid names are *described* (message, extra attributes)
  PROPERTY-OK <n>      - number of direct checks of property C13 that passed
"""
import hashlib
import itertools
import sys
import traceback

WS = " ~\t\r\n"


# --------------------------------------------------------------------------------------
# Independent reference: tokeniser + BibTeX First/von/Last/Jr assignment
# --------------------------------------------------------------------------------------
class Invalid(Exception):
    pass


def ref_tokenise(name):
    """-> list of sections, each a list of top-level words. Raises Invalid."""
    sections = [[]]
    word = ""
    depth = 0
    i = 0
    n = len(name)

    def flush():
        nonlocal word
        if word:
            sections[-1].append(word)
            word = ""

    while i < n:
        c = name[i]
        if c == "\\" and i + 1 < n and name[i + 1] not in WS:
            word += name[i : i + 2]
            i += 2
            continue
        if c == "{":
            depth += 1
            word += c
        elif c == "}":
            if depth == 0:
                raise Invalid("unmatched }")
            depth -= 1
            word += c
        elif depth == 0 and (c == "," or c in WS):
            flush()
            if c == ",":
                if len(sections) == 3:
                    raise Invalid("too many commas")
                sections.append([])
        else:
            word += c
        i += 1
    if depth:
        raise Invalid("unterminated {")
    flush()
    if len(sections) > 1 and not sections[-1]:
        raise Invalid("trailing comma")
    return sections


def ref_case(word):
    """'U', 'L' or None (caseless) following BibTeX's von-token scan."""
    i, n = 0, len(word)
    while i < n:
        c = word[i]
        if c == "\\" and i + 1 < n:
            # top-level escape: the escaped character counts if it is a letter
            e = word[i + 1]
            if e.isalpha():
                return "U" if e.isupper() else "L"
            i += 2
            continue
        if c == "{":
            if i + 1 < n and word[i + 1] == "\\":
                # special character: skip the control sequence, then first letter decides
                j = i + 2
                if j < n and word[j].isalpha():
                    while j < n and word[j].isalpha():
                        j += 1
                else:
                    j += 1
                depth = 1
                while j < n and depth:
                    d = word[j]
                    if d == "{":
                        depth += 1
                    elif d == "}":
                        depth -= 1
                    elif d.isalpha():
                        return "U" if d.isupper() else "L"
                    j += 1
                i = j
                continue
            # ordinary group: skipped entirely
            depth = 1
            j = i + 1
            while j < n and depth:
                if word[j] == "{":
                    depth += 1
                elif word[j] == "}":
                    depth -= 1
                j += 1
            i = j
            continue
        if c.isalpha():
            return "U" if c.isupper() else "L"
        i += 1
    return None


def ref_parse(name):
    sections = ref_tokenise(name)
    first, von, last, jr = [], [], [], []
    if len(sections) == 1:
        w = sections[0]
        low = [ref_case(x) == "L" for x in w]
        if len(w) <= 1:
            last = w
        elif len(w) == 2:
            first, last = w[:1], w[1:]
        elif not any(low[:-1]):
            first, last = w[:-1], w[-1:]
        else:
            i = low.index(True)
            j = max(k for k in range(len(w) - 1) if low[k])
            first, von, last = w[:i], w[i : j + 1], w[j + 1 :]
    else:
        w = sections[0]
        low = [ref_case(x) == "L" for x in w]
        j = max([k for k in range(len(w) - 1) if low[k]], default=-1)
        von, last = w[: j + 1], w[j + 1 :]
        first = sections[-1]
        if len(sections) == 3:
            jr = sections[1]
    return first, von, last, jr


# --------------------------------------------------------------------------------------
# Scenario generation
# --------------------------------------------------------------------------------------
WORDS = ["Aa", "bb", "{Cc}", "{\\'E}x", "{\\'e}x", "\\v", "7", "{\\relax von}", "Q\\"]
SEPS = [" ", "~", ", ", ","]


def valid_names():
    out = [
        "", "   ", "Donald E. Knuth", "Ludwig van Beethoven", "Brinch Hansen, Per",
        "Beeblebrox, IV, Zaphod", "jean de la fontaine", "Jean de la fontaine",
        "Jean De la fontaine", "De la Fontaine, jean", "de la fontaine, Jr., Jean",
        "Aa bb Cc dd", "Aa Bb cc", "Aa Bb Cc dd", "aa Bb", "aa bb", "AA bb cc", "Éa éb Öc",
        "Aa\r\nbb\tCc", "A\\ b C", "{{{Deep {nested} braces}}} von {L{a{s}}t}",
        "{Simon, and} Schuster", "CC, dd, {AA, BB}", "von {\\'E}x {\\'e}x Last",
        "Aa \\{bb Cc", "Aa bb\\", "Aa bb cc\\", "x\\, y Z", "Aa , , Bb", "  Aa   bb  ",
        "Aa~bb~Cc", "Aa bb Cc, jr dd, Ee ff",
    ]
    for k in (1, 2, 3):
        for ws in itertools.product(WORDS[:7], repeat=k):
            for seps in itertools.product(SEPS[:3], repeat=k - 1):
                if seps.count(", ") > 2:
                    continue
                s = ws[0]
                for sep, w in zip(seps, ws[1:]):
                    s += sep + w
                out.append(s)
    # 4 and 5 word names over a smaller alphabet
    for k in (4, 5):
        for ws in itertools.product(["Aa", "bb", "{Cc}"], repeat=k):
            out.append(" ".join(ws))
            out.append(" ".join(ws[:2]) + ", " + " ".join(ws[2:]))
    for ws in itertools.product(WORDS[3:], repeat=3):
        out.append(" ".join(ws))
        out.append(" ".join(ws[:2]) + "," + ws[2])
    seen, res = set(), []
    for s in out:
        if s not in seen:
            seen.add(s)
            res.append(s)
    return res


INVALID = [
    "BB,", "BB, ", "BB, ~\t", ", ~\t", "AA, BB, CC, DD", "AA, BB, CC,", "A,B,C,D,E",
    "AA {BB CC", "AA {{{BB CC", "AA {{{BB} CC}", "AA BB CC}", "AA BB CC}}}", "{AA {BB CC}}}",
    "}", "{", "a, b,", "von Last, Jr,", "Aa bb {Cc", "Aa } bb", "{\\'E x", "Aa,, ",
    "Éa {b", "Aa\r\n{bb", "x, y, z, {w}", "{{{{{{a}}}}}}}", "Aa bb,\t",
]


def main():
    from bibtexparser.library import Library
    from bibtexparser.middlewares.names import InvalidNameError
    from bibtexparser.middlewares.names import NameParts
    from bibtexparser.middlewares.names import SeparateCoAuthors
    from bibtexparser.middlewares.names import SplitNameParts
    from bibtexparser.middlewares.names import parse_single_name_into_parts
    from bibtexparser.model import Entry
    from bibtexparser.model import Field
    from bibtexparser.model import MiddlewareErrorBlock
    import bibtexparser

    ok = 0
    fails = []
    behaviour = []

    def mk_entry(field_key, names, key="k1"):
        return Entry(
            start_line=3,
            raw="raw-text-of-entry",
            entry_type="article",
            key=key,
            fields=[
                Field(start_line=4, key="title", value="T"),
                Field(start_line=5, key=field_key, value=list(names)),
            ],
        )

    # ---- valid names: parts are exactly the reference parts --------------------------
    names = valid_names()
    for nm in names:
        try:
            exp = ref_parse(nm)
        except Invalid:
            fails.append(f"generator produced invalid name {nm!r}")
            continue
        try:
            got = parse_single_name_into_parts(nm)
            tup = (got.first, got.von, got.last, got.jr)
            if tuple(map(list, exp)) != tuple(map(list, tup)):
                fails.append(f"{nm!r}: expected {exp}, got {tup}")
                continue
            # every top-level word exactly once, in order within its comma section
            secs = ref_tokenise(nm)
            flat = [w for s in secs for w in s]
            if len(secs) == 1:
                order = got.first + got.von + got.last
            else:
                order = got.von + got.last + got.jr + got.first
            if flat != order:
                fails.append(f"{nm!r}: words {flat} vs parts {order}")
                continue
            if flat and not got.last:
                fails.append(f"{nm!r}: empty last")
                continue
            ok += 1
        except Exception as e:  # noqa
            fails.append(f"{nm!r}: raised {type(e).__name__}: {e}")

    # ---- valid names through the middleware (object reuse across calls) --------------
    mw = SplitNameParts()
    mw_copy = SplitNameParts(allow_inplace_modification=False)
    for idx, nm in enumerate(names[::7]):
        fk = ("author", "editor", "translator")[idx % 3]
        for m in (mw, mw_copy):
            try:
                lib = m.transform(Library([mk_entry(fk, [nm, "Aa bb Cc"])]))
                f, v, l, j = ref_parse(nm)
                want = [
                    NameParts(first=f, von=v, last=l, jr=j),
                    NameParts(first=["Aa"], von=["bb"], last=["Cc"], jr=[]),
                ]
                if len(lib.failed_blocks) != 0 or len(lib.entries) != 1:
                    fails.append(f"mw {nm!r}: unexpectedly failed")
                elif lib.entries[0][fk] != want:
                    fails.append(f"mw {nm!r}: {lib.entries[0][fk]} != {want}")
                else:
                    ok += 1
            except Exception as e:  # noqa
                fails.append(f"mw {nm!r}: raised {type(e).__name__}: {e}")

    # ---- invalid names: error block retaining the original entry, never exception ----
    for idx, nm in enumerate(INVALID):
        try:
            ref_parse(nm)
            fails.append(f"reference accepts {nm!r}")
            continue
        except Invalid:
            pass
        # direct call: InvalidNameError, not another exception, not a result
        try:
            r = parse_single_name_into_parts(nm)
            fails.append(f"{nm!r}: silently parsed as {r}")
        except InvalidNameError as e:
            if e.name != nm:
                fails.append(f"{nm!r}: error.name altered to {e.name!r}")
            else:
                ok += 1
            behaviour.append(("direct", nm, str(e), getattr(e, "position", "n/a"),
                              getattr(e, "field_key", "n/a")))
        except Exception as e:  # noqa
            fails.append(f"{nm!r}: raised {type(e).__name__}")

        fk = ("author", "editor", "translator")[idx % 3]
        for m in (mw, mw_copy):
            try:
                entry = mk_entry(fk, ["Aa Bb", nm])
                lib = m.transform(Library([entry, mk_entry("author", ["Xx yy Zz"], key="k2")]))
                if len(lib.failed_blocks) != 1 or len(lib.entries) != 1:
                    fails.append(f"mw-invalid {nm!r}: failed={len(lib.failed_blocks)}")
                    continue
                b = lib.failed_blocks[0]
                orig = b.ignore_error_block
                good = (
                    isinstance(b, MiddlewareErrorBlock)
                    and isinstance(b.error, InvalidNameError)
                    and b.error.name == nm
                    and isinstance(orig, Entry)
                    and orig.key == "k1"
                    and orig.entry_type == "article"
                    and orig[fk] == ["Aa Bb", nm]
                    and orig["title"] == "T"
                    and b.raw == "raw-text-of-entry"
                    and b.start_line == 3
                )
                if m is mw_copy:
                    good = good and entry[fk] == ["Aa Bb", nm]
                if not good:
                    fails.append(f"mw-invalid {nm!r}: block does not retain original entry")
                else:
                    ok += 1
                if m is mw:
                    behaviour.append(("mw", nm, str(b.error), getattr(b.error, "position", "n/a"),
                                      getattr(b.error, "field_key", "n/a"), b.error.reason))
            except Exception as e:  # noqa
                fails.append(f"mw-invalid {nm!r}: raised {type(e).__name__}: {e}")

    # ---- full pipeline from a bibtex string (CRLF, two entries) ----------------------
    for nm in ["Aa bb Cc}", "Aa, Bb, Cc, Dd", "Aa bb,"]:
        try:
            src = (
                "@article{good,\r\n author = {Jean de la Fontaine and Knuth, Donald E.},\r\n}\r\n"
                "@book{bad,\r\n editor = \"Aa Bb and " + nm + "\",\r\n title={x}\r\n}\r\n"
            )
            lib = bibtexparser.parse_string(
                src, append_middleware=[SeparateCoAuthors(), SplitNameParts()]
            )
            good_e = lib.entries_dict.get("good")
            blocks = [b for b in lib.failed_blocks if isinstance(b, MiddlewareErrorBlock)]
            cond = (
                good_e is not None
                and good_e["author"][0] == NameParts(first=["Jean"], von=["de", "la"], last=["Fontaine"])
                and good_e["author"][1] == NameParts(first=["Donald", "E."], last=["Knuth"])
                and len(blocks) == 1
                and blocks[0].ignore_error_block.key == "bad"
                and blocks[0].ignore_error_block["editor"] == ["Aa Bb", nm]
                and isinstance(blocks[0].error, InvalidNameError)
            )
            if cond:
                ok += 1
                behaviour.append(("e2e", nm, str(blocks[0].error)))
            else:
                fails.append(f"e2e {nm!r}")
        except Exception as e:  # noqa
            fails.append(f"e2e {nm!r}: raised {type(e).__name__}: {e}")

    digest = hashlib.sha256(repr(behaviour).encode("utf-8")).hexdigest()
    print(f"scenarios: {len(names)} valid names, {len(INVALID)} invalid names")
    print(f"BEHAVIOUR {digest}")
    if fails:
        print(f"PROPERTY-FAIL {len(fails)} failures, first: {fails[0]}")
    else:
        print(f"PROPERTY-OK {ok}")


if __name__ == "__main__":
    try:
        main()
    except Exception:  # always exit 0
        traceback.print_exc()
        print("BEHAVIOUR error")
        print("PROPERTY-FAIL demo crashed")
    sys.exit(0)
