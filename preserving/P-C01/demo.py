"""Differential demo for the splitter refactoring (property C01).

Prints `DIGEST <sha256>` over a canonical rendering of parse/write results.
Exception message texts and private attributes are NOT part of the digest.
"""
import hashlib
import itertools
import logging
import random
import sys
import warnings

logging.disable(logging.CRITICAL)
warnings.simplefilter("ignore")

import bibtexparser
from bibtexparser.library import Library
from bibtexparser.model import (
    DuplicateBlockKeyBlock,
    DuplicateFieldKeyBlock,
    Entry,
    ExplicitComment,
    ImplicitComment,
    ParsingFailedBlock,
    Preamble,
    String,
)
from bibtexparser.splitter import Splitter


def render_block(b):
    parts = [type(b).__name__, repr(b.start_line), repr(b.raw)]
    if isinstance(b, ParsingFailedBlock):
        parts.append("error=" + type(b.error).__name__)
        if isinstance(b, DuplicateFieldKeyBlock):
            parts.append("dupkeys=" + repr(sorted(b.duplicate_keys)))
        if isinstance(b, DuplicateBlockKeyBlock):
            parts.append("dupkey=" + repr(b.key))
        inner = b.ignore_error_block
        if inner is not None:
            parts.append("inner=[" + render_block(inner) + "]")
    elif isinstance(b, Entry):
        parts.append(repr(b.entry_type))
        parts.append(repr(b.key))
        for f in b.fields:
            parts.append(repr((f.key, f.value, f.start_line)))
    elif isinstance(b, String):
        parts.append(repr((b.key, b.value)))
    elif isinstance(b, Preamble):
        parts.append(repr(b.value))
    elif isinstance(b, (ExplicitComment, ImplicitComment)):
        parts.append(repr(b.comment))
    return "|".join(parts)


def render_library(lib):
    return "\n".join(render_block(b) for b in lib.blocks)


def run_one(text, out):
    # 1. raw splitter (no middleware)
    try:
        lib = Splitter(text).split()
        out.append("S:" + render_library(lib))
    except Exception as e:  # must not happen; recorded by type only
        out.append("S-EXC:" + type(e).__name__)
    # 2. public entrypoints
    try:
        lib = bibtexparser.parse_string(text)
        out.append("P:" + render_library(lib))
        out.append("F:%d" % len(lib.failed_blocks))
        try:
            out.append("W:" + repr(bibtexparser.write_string(lib)))
        except Exception as e:
            out.append("W-EXC:" + type(e).__name__)
    except Exception as e:
        out.append("P-EXC:" + type(e).__name__)


def inputs():
    res = []
    # --- exhaustive token sequences over the splitter's character classes
    tokens = ["@a{", "@comment{", "@string{", "@preamble{", "{", "}", '"', ",", "=", "\n", "k", " "]
    for n in range(0, 4):
        for seq in itertools.product(tokens, repeat=n):
            res.append("".join(seq))
    # --- random longer token sequences
    rnd = random.Random(20240611)
    more = tokens + ["\\{", "\\}", '\\"', "\r\n", "\t", "@", "@ {", "@A \t{", "é", " ", "\x0b", "\x0c", "\x1c", "\xa0", "　", "%"]
    for _ in range(600):
        n = rnd.randint(4, 25)
        res.append("".join(rnd.choice(more) for _ in range(n)))
    # --- implicit comment trimming: every kind of whitespace around text
    ws = ["", " ", "\n", "\n\n", " \n", "\n ", "\t\n \n", "\r\n", "\r\n\r\n", "\r", "\x0b\n", "\x0c", "\x1c\n\x1d",
          "\x1e\x1f\n", "\x85\n", "\xa0\n", " \n ", "　\n", "​\n", "﻿\n", "\n​"]
    for a in ws:
        for b in ws[:8]:
            res.append(a + "text" + b)
            res.append(a + "text" + b + "@article{k, a = {b}}" + a + "tail" + b)
            res.append("@article{k, a = {b}}" + a + b)
            res.append(a + b)
            res.append("@article{k," + a + "x = 1" + b + "@book{z}" + a + "more")
    # --- well-formed and faulty documents
    docs = [
        "",
        "@article{key, title = {A {nested} title}, year = 2020, author = \"A \" # b}",
        "@ARTICLE{key,\r\n  title = {CRLF},\r\n  year = 1999,\r\n}\r\n\r\n% comment\r\n",
        "@string{foo = \"bar\"}\n@string{foo = \"dup\"}\n@article{a, x = foo}\n@article{a, x = 2}",
        "@article{a, x = 1, x = 2, y = 3, y = 4}",
        "@comment{some {nested} comment}\n@commentary{k, a = b}\n@preamble{\"pre\" # x}",
        "@article{no_fields}\n@article{trailing, a = 1,}",
        "@article{k, a = \"unclosed\n@book{b, t = {ok}}",
        "@article{k, a = {unclosed\n@book{b, t = {ok}}",
        "@article{k, a = b\n@book{b, t = {ok}}",
        "@article{k a = b}\n@string{x y}\n@string{x = {y}\n@preamble{ {\n@comment{ {{ \n@z{q}",
        "@article{k, a = {b} c = d}",
        "@article{k, a = \"x {\" y} z\" , b = {\"}}",
        "@article{k, = , = }",
        "@article{unterminated, a = {b}",
        "@article{",
        "@",
        "@{",
        "@ {}",
        "text @inline{not, a = block}\n@real{k, a=1}",
        "@article{ключ, название = {Юникод ß ſ İ}, año = {ñ}}",
        "@article{k, a = {\\{}, b = \"\\\"\", c = {\\}} }",
        "﻿@article{bom, a = 1}",
        "% only a comment",
        "\n\n\n   \n",
    ]
    res.extend(docs)
    for d in docs:
        res.append("leading text\n\n" + d + "\n\ntrailing text")
        res.append(d + "\n" + d)
    # --- size-scaled families
    res.append("\n" * 5000)
    res.append("% c\n" * 3000)
    res.append("@article{k,\n" + "".join("  f%d = {v},\n" % i for i in range(3000)) + "}")
    res.append("@article{k,\n" + "  f = {v},\n" * 2000)  # unterminated at EOF
    res.append("@article{k, a = " + "{" * 3000 + "x" + "}" * 3000 + "}")
    res.append("@article{k, a = " + "{" * 3000)
    res.append("@comment{" + "{" * 2000 + "}" * 1999)
    res.append("".join("@article{k%d, a = {b}}\n\n" % i for i in range(1500)))
    res.append("".join("@article{k%d, a = {b\n" % i for i in range(1500)))
    res.append("".join("\n" * 3 + "@string{s%d = \"v\"}" % i for i in range(500)))
    return res


def main():
    out = []
    all_inputs = inputs()
    for text in all_inputs:
        run_one(text, out)

    # Parsing into an existing library, and splitter re-use of the compiled pattern
    lib = Library()
    for text in ["@article{a, x = 1}", "pre @b{", "@article{a, x = 2}\n\ncomment", "@string{s = 1}", "@string{s = 2"]:
        lib = bibtexparser.parse_string(text, library=lib)
        out.append("L:" + render_library(lib))
    out.append("LW:" + repr(bibtexparser.write_string(lib)))

    # Custom format on failed blocks
    fmt = bibtexparser.BibtexFormat()
    fmt.value_column = "auto"
    fmt.trailing_comma = True
    fmt.block_separator = "\n"
    lib = bibtexparser.parse_string("@a{k, long_key = 1, s = 2}\n@b{k, a = {\n\n@c{x}\ntail")
    out.append("FW:" + repr(bibtexparser.write_string(lib, bibtex_format=fmt)))

    h = hashlib.sha256()
    for item in out:
        h.update(item.encode("utf-8", "surrogatepass"))
        h.update(b"\x00")
    print("inputs", len(all_inputs), "records", len(out))
    print("S-EXC", sum(1 for o in out if o.startswith("S-EXC")),
          "P-EXC", sum(1 for o in out if o.startswith("P-EXC")),
          "W-EXC", sum(1 for o in out if o.startswith("W-EXC")))
    print("DIGEST " + h.hexdigest())


if __name__ == "__main__":
    try:
        main()
    except Exception as e:  # always exit 0
        print("DEMO-ERROR", type(e).__name__)
        print("DIGEST error")
    sys.exit(0)
