"""Differential demo for the C09 refactoring (duplicate block keys / duplicate field keys).

Builds a few hundred deterministic documents whose entry keys, string keys and field keys are
drawn from a tiny pool (so collisions of every multiplicity and interleaving occur), runs them
through the splitter, the full parse pipeline and the Library mutation API, and prints a digest
of a canonical rendering. No exception message texts and no private attributes are rendered.
"""
import hashlib
import logging
import random
import sys

logging.disable(logging.CRITICAL)

try:
    import bibtexparser
    from bibtexparser.library import Library
    from bibtexparser.model import DuplicateBlockKeyBlock
    from bibtexparser.model import DuplicateFieldKeyBlock
    from bibtexparser.model import Entry
    from bibtexparser.model import ExplicitComment
    from bibtexparser.model import Field
    from bibtexparser.model import ImplicitComment
    from bibtexparser.model import ParsingFailedBlock
    from bibtexparser.model import Preamble
    from bibtexparser.model import String
    from bibtexparser.splitter import Splitter
except Exception as e:  # pragma: no cover
    print("IMPORT-ERROR", type(e).__name__)
    print("DIGEST import-error")
    sys.exit(0)

OUT = []


def emit(*parts):
    OUT.append("|".join(str(p) for p in parts))


def render_block(b, blocks, depth=0):
    """Canonical, message-free rendering of a block."""
    head = [type(b).__name__, repr(b.start_line), repr(b.raw)]
    if isinstance(b, Entry):
        head += ["type=" + repr(b.entry_type), "key=" + repr(b.key)]
        head += [
            "F(%r,%r,%r)" % (f.key, f.value, f.start_line) for f in b.fields
        ]
    elif isinstance(b, String):
        head += ["key=" + repr(b.key), "value=" + repr(b.value)]
    elif isinstance(b, Preamble):
        head += ["value=" + repr(b.value)]
    elif isinstance(b, (ExplicitComment, ImplicitComment)):
        head += ["comment=" + repr(b.comment)]
    elif isinstance(b, ParsingFailedBlock):
        head += ["err=" + type(b.error).__name__]
        if isinstance(b, DuplicateBlockKeyBlock):
            head += ["key=" + repr(b.key)]
            # position (by identity) of the block that owns the key
            pos = [i for i, x in enumerate(blocks) if x is b.previous_block]
            head += ["prev_at=" + repr(pos)]
            head += ["prev=" + render_block(b.previous_block, blocks, depth + 1)]
        if isinstance(b, DuplicateFieldKeyBlock):
            head += ["dupfields=" + repr(sorted(b.duplicate_keys))]
            head += ["dupfields_type=" + type(b.duplicate_keys).__name__]
        if hasattr(b.error, "end_index"):
            head += ["end_index=" + repr(b.error.end_index)]
        inner = b.ignore_error_block
        if inner is None or depth > 3:
            head += ["inner=None" if inner is None else "inner=..."]
        else:
            head += ["inner=" + render_block(inner, blocks, depth + 1)]
    return "<" + ";".join(head) + ">"


def render_library(tag, lib):
    blocks = lib.blocks
    emit(tag, "n_blocks", len(blocks))
    for i, b in enumerate(blocks):
        emit(tag, i, render_block(b, blocks))
    emit(tag, "entries", [e.key for e in lib.entries])
    emit(tag, "strings", [s.key for s in lib.strings])
    emit(tag, "failed", [type(b).__name__ for b in lib.failed_blocks])
    emit(tag, "preambles", len(lib.preambles), "comments", len(lib.comments))
    ed = lib.entries_dict
    sd = lib.strings_dict
    emit(tag, "entries_dict", [(k, [i for i, x in enumerate(blocks) if x is v]) for k, v in ed.items()])
    emit(tag, "strings_dict", [(k, [i for i, x in enumerate(blocks) if x is v]) for k, v in sd.items()])


def guarded(tag, fn):
    try:
        return fn()
    except Exception as e:  # only the type is part of the digest
        emit(tag, "RAISED", type(e).__name__)
        return None


# --------------------------------------------------------------------------------------
# Document generator
# --------------------------------------------------------------------------------------
KEYS = ["k", "K", "a1", "dup", "\xe9cole", "e\u0301cole", "x y", "", "a:b/c", "\u5f20"]
FKEYS = ["title", "Title", "author", "year", "note", "tït", ""]
TYPES = ["article", "Book", "misc", "commentary", "stringy", "ARTICLE", ""]
VALUES = [
    "{plain}",
    '"quoted"',
    "1999",
    "{nested {deep {deeper {deepest}}}}",
    '"with {"} quote"',
    "{multi\nline\nvalue}",
    "k # \" and \" # dup",
    "{}",
    '""',
    "{café über \U0001F600}",
    "{a, b = c}",
    '"a, b = c"',
    "{esc \\{ brace \\}}",
    "abbrev",
    "{@ at sign}",
]


def gen_entry(rng):
    t = rng.choice(TYPES)
    key = rng.choice(KEYS)
    n = rng.choice([0, 0, 1, 2, 3, 4, 6])
    style = rng.random()
    if n == 0 and style < 0.5:
        return "@%s{%s}" % (t, key)  # RefTeX style: no comma, no fields
    sep = rng.choice([",\n  ", ", ", ",\n\n\t"])
    fields = ["%s%s=%s%s" % (rng.choice(FKEYS), rng.choice(["", " "]), rng.choice(["", " "]), rng.choice(VALUES)) for _ in range(n)]
    body = sep.join([key] + fields)
    trailing = rng.choice(["", ",", ",\n", "\n"])
    return "@%s{%s%s}" % (t, body, trailing)


def gen_string(rng):
    return "@%s{%s = %s}" % (rng.choice(["string", "STRING", "String "]), rng.choice(KEYS), rng.choice(VALUES))


def gen_broken(rng):
    return rng.choice(
        [
            "@article{k, title = {unclosed",
            "@article{k title = {x}}",
            "@article{k, title {x}}",
            "@article{k, title = {x} author = {y}}",
            "@string{k {x}}",
            "@string{k = {unclosed",
            "@article{dup, title = \"unclosed}",
            "@article{a1, title = {x}, title = {y",
            "@article{k = v}",
            "@book{k, a = {1} {2}}",
        ]
    )


def gen_other(rng):
    return rng.choice(
        [
            "@comment{k, title = {not an entry}}",
            "@preamble{\"pre\" # k}",
            "free text, k = {v}",
            "% a percent comment",
            "@comment{}",
            "@preamble{}",
            "   ",
            "stray } brace",
        ]
    )


def gen_doc(rng):
    n = rng.choice([0, 1, 2, 3, 5, 8, 13])
    parts = []
    for _ in range(n):
        r = rng.random()
        if r < 0.5:
            parts.append(gen_entry(rng))
        elif r < 0.75:
            parts.append(gen_string(rng))
        elif r < 0.87:
            parts.append(gen_broken(rng))
        else:
            parts.append(gen_other(rng))
    sep = rng.choice(["\n", "\n\n", "\r\n", "\n  \n", " \n"])
    doc = sep.join(parts)
    if rng.random() < 0.3:
        doc = rng.choice(["\n", "\r\n\r\n", "\ufeff", "  "]) + doc
    if rng.random() < 0.3:
        doc = doc + rng.choice(["\n", "\r\n", "\n\n\n", " "])
    return doc


FIXED_DOCS = [
    "",
    "\n",
    "\r\n",
    "@article{k}",
    "@article{k}\n@article{k}",
    "@article{k,}\n@article{k,}\n@article{k,}\n@article{k,}",
    "@string{k = 1}\n@article{k, a = 1}\n@string{k = 2}\n@article{k, a = 2}\n@string{k = 3}",
    "@article{k, a = 1, a = 2}",
    "@article{k, a = 1, a = 2}\n@article{k, a = 3}\n@article{k, a = 4}",
    "@article{k, a = 1}\n@article{k, a = 2, a = 3}\n@article{k, a = 4, a = 5}",
    "@article{k, a = 1, b = 2, a = 3, b = 4, a = 5, c = 6}",
    "@article{k, a = 1, A = 2}",
    "@article{k, = 1, = 2}",
    "@article{école, a = 1}\n@article{école, a = 2}\n@article{école, a = 3}",
    "@article{k, a = 1}\r\n@article{k, a = 2}\r\n@string{k = {x}}\r\n@string{k = {y}}\r\n",
    "@article{k, a = {{{{{{{{{{deep}}}}}}}}}}, a = {{{{{{{{{{deeper}}}}}}}}}}}",
    "@article{k, a = 1}@article{k, a = 2}",
    "@article{k, a = 1} @article{k, a = 2}",
    "@ARTICLE{k, a = 1}\n@article {k, a = 2}\n@article\t{k, a = 3}",
    "@string{k = 1}\n@STRING{k = 2}\n@String {k = 3}",
    "@article{k, a = 1\n@article{k, a = 2}\n@article{k, a = 3}",
    "@article{k, a = 1, a = 2\n@article{k, a = 3}",
    "@article{, a = 1}\n@article{, a = 2}\n@string{ = 1}\n@string{ = 2}",
    "@comment{k}\n@comment{k}\n@preamble{k}\n@preamble{k}",
    "@article{k,\n a = 1,\n\n a = 2,\n}\n\n\n@article{k,\n b = 1\n}",
]


def main():
    rng = random.Random(90909)
    docs = list(FIXED_DOCS) + [gen_doc(rng) for _ in range(420)]

    # 1) Raw splitter and full pipeline on every document
    for i, doc in enumerate(docs):
        emit("DOC", i, repr(doc))
        lib = guarded("split%d" % i, lambda: Splitter(doc).split())
        if lib is not None:
            render_library("split%d" % i, lib)
        lib2 = guarded("parse%d" % i, lambda: bibtexparser.parse_string(doc))
        if lib2 is not None:
            render_library("parse%d" % i, lib2)

    # 2) Parsing into an existing library (object reuse across calls), splitter reuse
    for i in range(0, len(docs) - 2, 7):
        tag = "chain%d" % i
        lib = Library()
        for j in range(3):
            guarded(tag, lambda: Splitter(docs[i + j]).split(library=lib))
        render_library(tag, lib)
        sp = Splitter(docs[i])
        first = guarded(tag + "a", sp.split)
        again = guarded(tag + "b", lambda: sp.split(first))
        if again is not None:
            render_library(tag + "re", again)

    # 3) Library API directly: add / fail_on_duplicate_key / remove / replace
    def E(key, n=0, t="article", line=None):
        return Entry(t, key, [Field("f%d" % k, "v%d" % k, k) for k in range(n)], start_line=line, raw="raw-%s-%d" % (key, n))

    def S(key, v="v", line=None):
        return String(key, v, start_line=line, raw="sraw-%s-%s" % (key, v))

    for seed in range(120):
        r = random.Random(seed)
        tag = "api%d" % seed
        lib = Library()
        pool = []
        for step in range(r.randint(1, 14)):
            op = r.random()
            if op < 0.55 or not lib.blocks:
                n = r.choice([1, 1, 2, 4])
                new = []
                for _ in range(n):
                    kind = r.random()
                    k = r.choice(KEYS[:4])
                    if kind < 0.45:
                        new.append(E(k, r.randint(0, 3), line=step))
                    elif kind < 0.8:
                        new.append(S(k, str(step), line=step))
                    elif kind < 0.9:
                        new.append(ImplicitComment("c%d" % step, start_line=step, raw="c"))
                    else:
                        new.append(DuplicateFieldKeyBlock({"a"}, E(k, 2, line=step)))
                pool.extend(new)
                arg = new[0] if (len(new) == 1 and r.random() < 0.5) else new
                fail = r.random() < 0.4
                guarded(tag, lambda: lib.add(arg, fail_on_duplicate_key=fail))
            elif op < 0.75:
                victim = r.choice(lib.blocks)
                guarded(tag, lambda: lib.remove(victim))
            else:
                old = r.choice(lib.blocks + pool[:1])
                k = r.choice(KEYS[:4])
                newb = E(k, 1, line=100 + step) if r.random() < 0.6 else S(k, "r", line=100 + step)
                fail = r.random() < 0.6
                guarded(tag, lambda: lib.replace(old, newb, fail_on_duplicate_key=fail))
            emit(tag, "step", step, len(lib.blocks))
        render_library(tag, lib)

    # 4) Constructor with blocks, single-block add, same object added twice
    e = E("k", 1)
    lib = Library([e, S("k"), E("k", 2), S("k", "w"), e])
    render_library("ctor", lib)
    guarded("ctor", lambda: lib.add(e, fail_on_duplicate_key=True))
    guarded("ctor", lambda: lib.add([E("zz"), E("k")], fail_on_duplicate_key=True))
    guarded("ctor", lambda: lib.add([], fail_on_duplicate_key=True))
    render_library("ctor2", lib)

    # 5) Round trip through the writer (duplicates must be written from their raw)
    for i in range(0, len(docs), 11):
        lib = guarded("w%d" % i, lambda: bibtexparser.parse_string(docs[i]))
        if lib is not None:
            emit("w%d" % i, repr(guarded("w%d" % i, lambda: bibtexparser.write_string(lib))))

    data = "\n".join(OUT).encode("utf-8", "surrogatepass")
    print("lines", len(OUT))
    print("DIGEST " + hashlib.sha256(data).hexdigest())


if __name__ == "__main__":
    try:
        main()
    except Exception as e:  # pragma: no cover
        print("DEMO-ERROR", type(e).__name__, e)
        print("DIGEST demo-error")
    sys.exit(0)
