"""Demo for the C12 behaviour-changing (but property-preserving) change.

Prints exactly two final lines:
  BEHAVIOUR <sha256>   - rendering of how ill-typed / already-split values are handled
  PROPERTY-OK <n>      - number of direct checks of property C12 that passed
"""
import hashlib
import itertools
import random
import re
import sys
import traceback

WS = " \t\r\n"


# --------------------------------------------------------------------------- #
# Independent reference splitter (word based, not a state machine)
# --------------------------------------------------------------------------- #
def ref_tokens(s):
    """Return (start, end, at_depth0_only) for each whitespace separated word.

    Whitespace inside braces and escaped characters never end a word."""
    toks = []
    i, n, depth = 0, len(s), 0
    start = None
    plain = True
    while i < n:
        c = s[i]
        if c == "\\":
            if start is None:
                start, plain = i, True
            plain = False
            i += 2
            continue
        if c == "{":
            if start is None:
                start, plain = i, True
            plain = False
            depth += 1
        elif c == "}":
            if start is None:
                start, plain = i, True
            plain = False
            if depth:
                depth -= 1
        elif depth == 0 and c in WS:
            if start is not None:
                toks.append((start, i, plain))
                start = None
        else:
            if start is None:
                start, plain = i, True
        i += 1
    if start is not None:
        toks.append((start, min(i, n), plain))
    return toks


def ref_split(s):
    s = s.strip(WS)
    toks = ref_tokens(s)
    pieces = []
    cur = []
    for k, (a, b, plain) in enumerate(toks):
        is_and = plain and s[a:b].lower() == "and"
        if is_and and cur and k + 1 < len(toks):
            pieces.append(s[cur[0][0] : cur[-1][1]])
            cur = []
        else:
            cur.append((a, b))
    if cur:
        pieces.append(s[cur[0][0] : cur[-1][1]])
    return pieces


def properly_nested(s):
    depth = 0
    i = 0
    while i < len(s):
        c = s[i]
        if c == "\\":
            i += 2
            continue
        if c == "{":
            depth += 1
        elif c == "}":
            depth -= 1
            if depth < 0:
                return False
        i += 1
    return depth == 0


SEP_RE = re.compile(r"[ \t\r\n]+[aA][nN][dD][ \t\r\n]+")


def check_one(split, s):
    """Assert the property statement on one input. Returns number of checks."""
    pieces = split(s)
    assert isinstance(pieces, list) and all(isinstance(p, str) for p in pieces), "type"
    # conservation: contiguous pieces in order, gaps are separators / outer whitespace
    cursor = len(s) - len(s.lstrip(WS))
    for idx, p in enumerate(pieces):
        assert p != "" and p[0] not in WS, f"piece empty or starting with whitespace: {p!r}"
        if idx > 0:
            m = SEP_RE.match(s, cursor)
            assert m, f"no separator after piece {idx - 1} at {cursor} in {s!r}: {pieces!r}"
            cursor = m.end()
        assert s.startswith(p, cursor), f"piece {p!r} not at {cursor} in {s!r}: {pieces!r}"
        cursor += len(p)
    assert s[cursor:].strip(WS) == "", f"dropped suffix {s[cursor:]!r} in {s!r}"
    if not pieces:
        assert s.strip(WS) == ""
    # idempotence
    again = split(" and ".join(pieces))
    assert again == pieces, f"not idempotent on {s!r}: {pieces!r} -> {again!r}"
    n = 2
    # exact separator rule
    if properly_nested(s):
        exp = ref_split(s)
        assert pieces == exp, f"separator rule on {s!r}: got {pieces!r}, expected {exp!r}"
        n += 1
    return n


def property_checks():
    from bibtexparser.middlewares.names import SeparateCoAuthors
    from bibtexparser.middlewares.names import split_multiple_persons_names as split
    from bibtexparser.model import Entry
    from bibtexparser.model import Field

    n = 0
    alphabet = ["Ab", "and", "AND", "aNd", "an", "d", " ", "\t", "\n", "~", "{", "}", "\\", ",", "\\'E"]
    for length in range(0, 5):
        for seq in itertools.product(alphabet, repeat=length):
            n += check_one(split, "".join(seq))

    hand = [
        "",
        "   ",
        "\r\n",
        "and",
        " and ",
        "and and and",
        "and and and and and",
        "a and",
        "and b",
        "Knuth and \\'Etienne",
        "Knuth and \\\"{O}zg\\\"ur and {\\'E}mile",
        "A~and~B and C~D",
        "A\\ and B",
        "A and\\ B",
        "{A and B} and C",
        "{{{{{{A and B}}}}}} and {{{C and D}} and E} and F",
        "A\r\nand\r\nB",
        "A \r\n AND\t\tB\nAnD  C",
        "Müller and Ærøskøbing and 山田 太郎 and Ελένη",
        "A and B and C",
        "A and B,and C and, D",
        "Last, Jr, First and von Last, First",
        "A and {B",
        "A} and B",
        "A and }B",
        "A and }{ B",
        "A and\\",
        "\\ and \\ and \\",
        "Aand and andB and Band",
        "a an and d and an d",
    ]
    for s in hand:
        n += check_one(split, s)

    rng = random.Random(12)
    words = ["Knuth", "Donald", "E.", "van", "der", "{Simon and Schuster}", "\\'Etienne", "J.~R.",
             "Lamport,", "and", "AND", "an", "d", "{and}", "{ and }", "\\and", "and\\", "~and~",
             "Ōe", "{\\\"U}ber", "\\{", "\\}", "{a {b and c} d}"]
    seps = [" ", "  ", "\t", "\n", "\r\n", " \t "]
    for _ in range(3000):
        k = rng.randint(1, 40)
        s = rng.choice(["", " ", "\n"])
        for _i in range(k):
            s += rng.choice(words) + rng.choice(seps)
        n += check_one(split, s)

    # the same through the public middleware
    mw = SeparateCoAuthors()
    for s in hand + ["Donald E. Knuth and Leslie Lamport and {Simon and Schuster}"]:
        entry = Entry("article", "k", [Field("author", s), Field("title", "x and y")])
        out = mw.transform_entry(entry)
        got = out.fields_dict["author"].value
        assert got == split(s), f"middleware differs on {s!r}"
        assert out.fields_dict["title"].value == "x and y"
        n += 1
    return n


# --------------------------------------------------------------------------- #
# Observable behaviour the change affects
# --------------------------------------------------------------------------- #
def behaviour():
    from bibtexparser.middlewares.names import SeparateCoAuthors
    from bibtexparser.middlewares.names import split_multiple_persons_names as split
    from bibtexparser.model import Entry
    from bibtexparser.model import Field

    lines = []
    for bad in (None, 5, ["A and B"], ("A", "B"), b"A and B"):
        try:
            r = split(bad)
            lines.append(f"split({bad!r}) -> {r!r}")
        except Exception as e:  # noqa
            lines.append(f"split({bad!r}) raised {type(e).__name__}: {e}")

    for value in (["A", "B and C"], ("A", "B"), ["A", 5]):
        entry = Entry("article", "k", [Field("author", value)])
        try:
            out = SeparateCoAuthors().transform_entry(entry)
            lines.append(
                f"SeparateCoAuthors on {value!r} -> {type(out).__name__} "
                f"{out.fields_dict['author'].value!r}"
            )
        except Exception as e:  # noqa
            lines.append(f"SeparateCoAuthors on {value!r} raised {type(e).__name__}: {e}")

    entry = Entry("article", "k", [Field("author", "A and B and {C and D}")])
    try:
        mw = SeparateCoAuthors()
        out = mw.transform_entry(mw.transform_entry(entry))
        lines.append(f"twice -> {type(out).__name__} {out.fields_dict['author'].value!r}")
    except Exception as e:  # noqa
        lines.append(f"twice raised {type(e).__name__}: {e}")
    return "\n".join(lines)


def main():
    try:
        rendering = behaviour()
    except Exception:  # noqa
        rendering = "behaviour rendering crashed:\n" + traceback.format_exc()
    print(rendering)
    try:
        n = property_checks()
        verdict = f"PROPERTY-OK {n}"
    except AssertionError as e:
        verdict = f"PROPERTY-FAIL {e}"
    except Exception as e:  # noqa
        verdict = f"PROPERTY-FAIL unexpected {type(e).__name__}: {e}"
    print("BEHAVIOUR " + hashlib.sha256(rendering.encode("utf-8")).hexdigest())
    print(verdict)


if __name__ == "__main__":
    try:
        main()
    finally:
        sys.stdout.flush()
    sys.exit(0)
