"""Differential demo for the C17 refactoring (field sorting / key normalisation).

Prints a deterministic digest of everything observable through the public API.
Exception *types* are recorded, message texts are not.
"""
import hashlib
import itertools
import json
import logging
import random
import sys

try:
    import bibtexparser
    from bibtexparser import Library
    from bibtexparser.middlewares.fieldkeys import NormalizeFieldKeys
    from bibtexparser.middlewares.sorting_entry_fields import (
        SortFieldsAlphabeticallyMiddleware,
        SortFieldsCustomMiddleware,
    )
    from bibtexparser.model import Entry, Field, String, ExplicitComment
except Exception as exc:  # pragma: no cover
    print("import failed:", type(exc).__name__)
    print("DIGEST import-failed")
    sys.exit(0)

rng = random.Random(1717)
results = []


class _Capture(logging.Handler):
    def __init__(self):
        super().__init__(level=logging.DEBUG)
        self.records = []

    def emit(self, record):
        self.records.append((record.levelname, record.name, record.getMessage()))


capture = _Capture()
_log = logging.getLogger("bibtexparser.middlewares.fieldkeys")
_log.addHandler(capture)
_log.propagate = False
logging.getLogger().addHandler(logging.NullHandler())  # keep unrelated library warnings off stderr


def render_block(b):
    d = {"cls": type(b).__name__, "start_line": b.start_line, "raw": b.raw}
    if isinstance(b, Entry):
        d["entry_type"] = b.entry_type
        d["key"] = b.key
        d["fields"] = [[f.key, repr(f.value), f.start_line] for f in b.fields]
        d["fields_is_list"] = type(b.fields).__name__
        d["meta"] = {k: repr(v) for k, v in sorted(b.parser_metadata.items())}
    elif isinstance(b, String):
        d["key"] = b.key
        d["value"] = b.value
    elif isinstance(b, ExplicitComment):
        d["comment"] = b.comment
    else:
        d["repr"] = type(b).__name__
    return d


def render_lib(lib):
    return [render_block(b) for b in lib.blocks]


KEY_POOL = [
    "author", "Author", "AUTHOR", "title", "Title", "year", "YEAR", "note",
    "journal", "Journal", "éditeur", "ÉDITEUR", "straße", "STRASSE",
    "İd", "i̇d", "", "a", "A", "b", "B", "z-key", "Z_key", "x:y", "1st",
]
VALUES = [
    "{Cesar, J.}", '"A title"', "2013", "{nested {braces {deep}}}", "", "line1\r\nline2",
    "üñî", "jan", '"quoted" # str', "  spaced  ",
]


def make_entry(n, idx, pool=None):
    pool = pool or KEY_POOL
    fields = [
        Field(rng.choice(pool), rng.choice(VALUES) + "#%d" % i, start_line=idx * 10 + i)
        for i in range(n)
    ]
    return Entry(rng.choice(["article", "Book", "MISC"]), "key%d" % idx, fields, start_line=idx * 10)


def make_library(n_entries, pool=None):
    blocks = [
        String("mystr", '"abc"', start_line=0, raw='@string{mystr = "abc"}'),
        ExplicitComment("a comment", start_line=1, raw="@comment{a comment}"),
    ]
    for i in range(n_entries):
        blocks.append(make_entry(rng.randint(0, 8), i + 1, pool))
    return Library(blocks=blocks)


def run(label, make_mw, lib, twice=True):
    rec = {"label": label}
    del capture.records[:]
    try:
        mw = make_mw()
    except Exception as exc:
        rec["ctor_error"] = type(exc).__name__
        results.append(rec)
        return
    try:
        out = mw.transform(lib)
        rec["out"] = render_lib(out)
        rec["same_lib"] = out is lib
        if twice:  # idempotence + middleware object reuse
            out2 = mw.transform(out)
            rec["out2"] = render_lib(out2)
    except Exception as exc:
        rec["error"] = type(exc).__name__
    rec["src_after"] = render_lib(lib)
    rec["log"] = list(capture.records)
    results.append(rec)


# 1. exhaustive collision patterns on small key alphabets, all three middlewares
small = ["a", "A", "b", "B"]
idx = 0
for n in range(0, 4):
    for combo in itertools.product(small, repeat=n):
        idx += 1
        def lib_factory():
            fields = [Field(k, "v%d" % i, start_line=i) for i, k in enumerate(combo)]
            return Library(blocks=[Entry("article", "e", fields, start_line=3)])
        for inplace in (True, False):
            run("alpha", lambda: SortFieldsAlphabeticallyMiddleware(allow_inplace_modification=inplace), lib_factory())
            run("norm", lambda: NormalizeFieldKeys(allow_inplace_modification=inplace), lib_factory())
        for order in [(), ("b",), ("B", "a"), ("a", "A"), ("A", "a", "b"), ["b", "a"]]:
            for cs in (False, True):
                run("custom", lambda: SortFieldsCustomMiddleware(order=order, case_sensitive=cs), lib_factory())

# 2. random libraries with odd keys / values
orders = [
    (), ("author",), ("YEAR", "Title", "author"), ("title", "Author", "AUTHOR"),
    ("ÉDITEUR", "STRASSE", ""), ("straße", "İd", "i̇d"),
    ["journal", "note", "year", "z-key"], ("a", "B", "1st", "x:y", "nothere"),
    ("author", "Author"), ("author", "author"), ("İd", "i̇d", "İD"),
    "abc", "ab", "", "aa", ("",), ("", ""),
]
for r in range(40):
    for inplace in (True, False):
        run("alpha-r", lambda: SortFieldsAlphabeticallyMiddleware(allow_inplace_modification=inplace), make_library(rng.randint(0, 4)))
        run("norm-r", lambda: NormalizeFieldKeys(allow_inplace_modification=inplace), make_library(rng.randint(0, 4)))
    order = orders[r % len(orders)]
    for cs in (False, True):
        for inplace in (True, False):
            run(
                "custom-r",
                lambda: SortFieldsCustomMiddleware(order, cs, allow_inplace_modification=inplace),
                make_library(rng.randint(0, 4)),
            )
for order in orders:
    for cs in (False, True):
        run("custom-o", lambda: SortFieldsCustomMiddleware(order=order, case_sensitive=cs), make_library(3))
        run("custom-o2", lambda: SortFieldsCustomMiddleware(order=order, case_sensitive=cs),
            make_library(3, pool=["a", "b", "ab", "bc", "abc", "", "A", "AB"]))

# 3. unusual constructor arguments
for label, factory in [
    ("order-gen", lambda: SortFieldsCustomMiddleware(order=(k for k in ("b", "a")))),
    ("order-gen-cs", lambda: SortFieldsCustomMiddleware(order=(k for k in ("b", "a")), case_sensitive=True)),
    ("order-none", lambda: SortFieldsCustomMiddleware(order=None)),
    ("order-none-cs", lambda: SortFieldsCustomMiddleware(order=None, case_sensitive=True)),
    ("order-int", lambda: SortFieldsCustomMiddleware(order=(1, 2))),
    ("order-int-cs", lambda: SortFieldsCustomMiddleware(order=(1, 2), case_sensitive=True)),
    ("order-int-dup-cs", lambda: SortFieldsCustomMiddleware(order=(1, 1), case_sensitive=True)),
    ("order-unhashable", lambda: SortFieldsCustomMiddleware(order=(["a"],), case_sensitive=True)),
    ("order-dup-ci", lambda: SortFieldsCustomMiddleware(order=("A", "a", "b"))),
    ("order-dup-cs", lambda: SortFieldsCustomMiddleware(order=("a", "a", "b"), case_sensitive=True)),
    ("order-truthy-cs", lambda: SortFieldsCustomMiddleware(order=("a", "A"), case_sensitive=1)),
    ("order-falsy-cs", lambda: SortFieldsCustomMiddleware(order=("a", "A"), case_sensitive=0)),
    ("alpha-pos", lambda: SortFieldsAlphabeticallyMiddleware(False)),
    ("norm-pos", lambda: NormalizeFieldKeys(False)),
]:
    run(label, factory, make_library(3))

# 4. odd field keys (non-str) -> error types must match
for bad_key in (None, 5):
    def lib_factory():
        fields = [Field("b", "1"), Field(bad_key, "2"), Field("A", "3")]
        return Library(blocks=[Entry("misc", "odd", fields)])
    run("alpha-bad", lambda: SortFieldsAlphabeticallyMiddleware(), lib_factory(), twice=False)
    run("norm-bad", lambda: NormalizeFieldKeys(), lib_factory(), twice=False)
    for cs in (False, True):
        run("custom-bad", lambda: SortFieldsCustomMiddleware(("A", "b"), cs), lib_factory(), twice=False)

# 5. end-to-end through the parser and writer (CRLF, failed blocks, duplicate keys)
SOURCES = [
    "@article{k1,\r\n Title = {T},\r\n AUTHOR = {A},\r\n author = {B},\r\n year = 2001\r\n}\r\n",
    "@book{k2, b = {1}, a = {2}, B = {3}, A = {4}}\n@book{k2, z = {dup key block}}\n",
    "@misc{k3, title = {unclosed\n\n@misc{k4, Note = {n}, note = {{deep {nest}}}, YEAR = \"1\" # mystr}\n@string{mystr = {s}}\n",
    "% just a comment\n@comment{hello}\n@preamble{\"p\"}\n@misc{k5,}\n",
    "",
]
for src in SOURCES:
    for label, factory in [
        ("e2e-alpha", lambda: SortFieldsAlphabeticallyMiddleware()),
        ("e2e-norm", lambda: NormalizeFieldKeys()),
        ("e2e-custom", lambda: SortFieldsCustomMiddleware(("YEAR", "Author"))),
        ("e2e-custom-cs", lambda: SortFieldsCustomMiddleware(("YEAR", "Author"), case_sensitive=True)),
    ]:
        rec = {"label": label}
        del capture.records[:]
        try:
            lib = bibtexparser.parse_string(src, append_middleware=[factory()])
            rec["out"] = render_lib(lib)
            rec["failed"] = [type(b).__name__ for b in lib.failed_blocks]
            rec["written"] = bibtexparser.write_string(lib)
        except Exception as exc:
            rec["error"] = type(exc).__name__
        rec["log"] = list(capture.records)
        results.append(rec)

blob = json.dumps(results, sort_keys=True, ensure_ascii=True, default=repr)
print("cases", len(results))
print("DIGEST " + hashlib.sha256(blob.encode("ascii")).hexdigest())
sys.exit(0)
