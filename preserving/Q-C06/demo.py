"""Demo for the C06 control change: `value_column` now also aligns `@string` blocks.

Prints exactly two final lines:
  BEHAVIOUR <sha256>   - digest of the affected observable behaviour
  PROPERTY-OK <n>      - number of property scenario checks that passed
                         (PROPERTY-FAIL <what> if one of them fails)
Always exits 0.
"""
import hashlib
import random
import sys
import traceback

try:
    from bibtexparser import writer
    from bibtexparser.library import Library
    from bibtexparser.model import (
        Entry,
        ExplicitComment,
        Field,
        ImplicitComment,
        ParsingFailedBlock,
        Preamble,
        String,
    )
    from bibtexparser.writer import BibtexFormat
except Exception:  # pragma: no cover
    traceback.print_exc()
    print("BEHAVIOUR import-error")
    print("PROPERTY-FAIL import-error")
    sys.exit(0)


# --------------------------------------------------------------------------
# 1. Behaviour digest: how @string blocks are rendered under value_column.
# --------------------------------------------------------------------------
def behaviour_digest() -> str:
    rendering = []
    for vc in (0, 5, 12, 30, "auto"):
        lib = Library(
            blocks=[
                String(key="ab", value='"x"'),
                String(key="averyveryverylongstringkey", value="{y}"),
                Entry("article", "k1", [Field("title", "{T}"), Field("au", 'ab # " z"')]),
                String(key="jan", value='"January"'),
                Entry("book", "k2", [Field("publisher", "{P}")]),
            ]
        )
        fmt = BibtexFormat()
        fmt.value_column = vc
        rendering.append(repr((vc, writer.write(lib, fmt))))
    return hashlib.sha256("\n".join(rendering).encode("utf-8")).hexdigest()


# --------------------------------------------------------------------------
# 2. Property scenarios (direct assertions of the C06 statement).
# --------------------------------------------------------------------------
class Fail(Exception):
    pass


KEYS = [
    "a", "au", "title", "author", "year", "journal", "publisher", "booktitle",
    "veryverylongkeyfield", "x" * 37, "x" * 38, "x" * 41, "näme", "漢字", "k-1", "K_2",
    "howpublished", "note", "doi", "url",
]
VALUES = [
    "{T}", '"quoted"', "2020", "{nested {braces {deep {er}}}}", "{line1\nline2}", "{crlf\r\nvalue}",
    'jan # " 2020"', "{}", '""', "{ünicöde 漢}", "{a, b, and c}", "{ = }", "{trailing,}",
    "{with } inside}", "",
]
INDENTS = ["", " ", "\t", "    ", "\t\t", "--"]
SEPARATORS = ["", "\n", "\n\n", "\n-----\n", "%%", "\r\n\r\n", " ", "\n\n\n\n"]
COMMENTS = [
    None,
    "% FAILED ({n} lines)",
    "% no placeholder at all",
    "%% {n}{n} ü",
    "",
    "multi\nline {n}",
]
RAWS = [
    "@article{bad,\n title = {unclosed\n}",
    "@article{x",
    "single line",
    "crlf\r\nraw\r\n",
    "",
    "@string{q = }\n\n",
    "{{{{ deeply }} ü",
]


def snapshot(fmt):
    return (fmt.indent, fmt.value_column, fmt.block_separator, fmt.trailing_comma, fmt.parsing_failed_comment)


def make_format(rng):
    fmt = BibtexFormat()
    r = rng.random()
    if r < 0.1:
        pass  # all defaults
    else:
        if rng.random() < 0.85:
            fmt.indent = rng.choice(INDENTS)
        if rng.random() < 0.9:
            fmt.value_column = "auto" if rng.random() < 0.3 else rng.randint(0, 40)
        if rng.random() < 0.8:
            fmt.block_separator = rng.choice(SEPARATORS)
        if rng.random() < 0.7:
            fmt.trailing_comma = rng.random() < 0.5
        c = rng.choice(COMMENTS)
        if c is not None:
            fmt.parsing_failed_comment = c
    return fmt


def make_library(rng, counter):
    n_blocks = rng.choice([0, 1, 1, 2, 3, 5, 8, 12])
    blocks = []
    for _ in range(n_blocks):
        kind = rng.choice(["entry", "entry", "entry", "string", "string", "preamble", "expl", "impl", "failed"])
        counter[0] += 1
        if kind == "entry":
            n_fields = rng.choice([0, 0, 1, 2, 3, 6])
            if rng.random() < 0.2:
                keys = [rng.choice(KEYS) for _ in range(n_fields)]  # may contain duplicates
            else:
                keys = rng.sample(KEYS, n_fields)
            fields = [Field(k, rng.choice(VALUES)) for k in keys]
            # a few duplicate entry keys -> Library turns them into failed blocks (need raw)
            key = "dupkey" if rng.random() < 0.1 else "key%d" % counter[0]
            blocks.append(Entry(rng.choice(["article", "book", "MISC", "ärt"]), key, fields, raw="@raw{%s}" % key))
        elif kind == "string":
            key = rng.choice(["s%d" % counter[0], "longstringkey%d" % counter[0], "x" * 45 + str(counter[0])])
            blocks.append(String(key=key, value=rng.choice(VALUES[:12])))
        elif kind == "preamble":
            blocks.append(Preamble(rng.choice(VALUES)))
        elif kind == "expl":
            blocks.append(ExplicitComment(rng.choice(["a comment", "", "multi\nline", "ü {x}"])))
        elif kind == "impl":
            blocks.append(ImplicitComment(rng.choice(["% free text", "", "two\nlines", "漢"])))
        else:
            blocks.append(ParsingFailedBlock(error=ValueError("boom"), raw=rng.choice(RAWS)))
    return Library(blocks=blocks)


def check_scenario(lib, fmt, label):
    before = snapshot(fmt)
    out = writer.write(lib, fmt)
    out_again = writer.write(lib, fmt)  # object reuse across calls
    if snapshot(fmt) != before:
        raise Fail("%s: format object was modified: %r -> %r" % (label, before, snapshot(fmt)))
    if out != out_again:
        raise Fail("%s: second write with same format differs" % label)

    indent, vc, sep, trailing, comment = before
    blocks = list(lib.blocks)
    if vc == "auto":
        longest = 0
        for b in blocks:
            if isinstance(b, Entry):
                for f in b.fields:
                    longest = max(longest, len(f.key))
        column = longest + 3  # minimal column at which every value can start
    else:
        column = vc

    pos = 0

    def expect(text, what):
        nonlocal pos
        if not out.startswith(text, pos):
            raise Fail("%s: at offset %d expected %s %r, got %r" % (label, pos, what, text, out[pos : pos + len(text) + 20]))
        pos += len(text)

    for i, b in enumerate(blocks):
        if isinstance(b, Entry):
            expect("@" + b.entry_type + "{" + b.key + ",\n", "entry head")
            n = len(b.fields)
            for j, f in enumerate(b.fields):
                if pos != 0 and out[pos - 1] != "\n":
                    raise Fail("%s: field %r does not start on its own line" % (label, f.key))
                line_start = pos
                expect(indent, "indent")
                expect(f.key, "field key")
                pad = 0
                while out.startswith(" ", pos + pad) and not out.startswith(" = ", pos + pad):
                    pad += 1
                # padding is made of spaces only and is followed by ' = '
                pos += pad
                expect(" = ", "value separator")
                value_col = pos - line_start
                if len(f.key) + 3 <= column:
                    if value_col != len(indent) + column:
                        raise Fail(
                            "%s: value of %r starts at column %d, expected %d"
                            % (label, f.key, value_col, len(indent) + column)
                        )
                else:
                    if pad != 0:
                        raise Fail("%s: long key %r was padded" % (label, f.key))
                if vc == "auto" and value_col != len(indent) + column:
                    raise Fail("%s: auto alignment broken for %r" % (label, f.key))
                expect(f.value, "field value")
                last = j == n - 1
                if (not last) or trailing:
                    expect(",", "comma")
                expect("\n", "end of field line")
            expect("}\n", "entry end")
        elif isinstance(b, String):
            # The statement does not pin the inner layout of @string blocks
            # beyond carrying key and value: allow optional padding spaces.
            expect("@string{" + b.key, "string head")
            while out.startswith(" ", pos) and not out.startswith(" = " + b.value + "}\n", pos):
                pos += 1
            expect(" = " + b.value + "}\n", "string value")
        elif isinstance(b, Preamble):
            expect("@preamble{" + b.value + "}\n", "preamble")
        elif isinstance(b, ExplicitComment):
            expect("@comment{" + b.comment + "}\n", "explicit comment")
        elif isinstance(b, ImplicitComment):
            expect(b.comment + "\n", "implicit comment")
        elif isinstance(b, ParsingFailedBlock):
            expect(comment.format(n=len(b.raw.splitlines())) + "\n", "failed-block warning comment")
            expect(b.raw + "\n", "verbatim failed block")
        else:
            raise Fail("%s: unexpected block type %r" % (label, type(b)))
        if i < len(blocks) - 1:
            expect(sep, "block separator")
    if pos != len(out):
        raise Fail("%s: trailing output after last block: %r" % (label, out[pos:]))


def fixed_scenarios():
    """Hand-picked interactions named in the property."""
    scen = []
    # trailing comma with zero fields
    for tc in (True, False):
        f = BibtexFormat()
        f.trailing_comma = tc
        scen.append((Library(blocks=[Entry("misc", "e", [])]), f))
    # empty library, all column values
    for vc in list(range(0, 41)) + ["auto"]:
        f = BibtexFormat()
        f.value_column = vc
        f.indent = ""
        f.block_separator = "\n-----\n"
        f.trailing_comma = True
        f.parsing_failed_comment = "% custom {n}"
        lib = Library(
            blocks=[
                String("s", '"v"'),
                Entry("article", "a", [Field("title", "{T}"), Field("x" * 37, "1"), Field("x" * 38, "2")]),
                ParsingFailedBlock(error=ValueError("e"), raw="@bad{\nraw"),
                Entry("book", "b", [Field("veryverylongkeyfield", "{V}"), Field("a", "{A}")]),
                String("a_rather_long_string_key", "{w}"),
            ]
        )
        scen.append((lib, f))
    scen.append((Library(blocks=[]), BibtexFormat()))
    scen.append((Library(blocks=[]), None))
    return scen


def run_property_checks() -> int:
    passed = 0
    for k, (lib, fmt) in enumerate(fixed_scenarios()):
        if fmt is None:
            if writer.write(lib) != "":
                raise Fail("fixed %d: empty library with default format is not empty" % k)
        else:
            check_scenario(lib, fmt, "fixed %d" % k)
        passed += 1
    rng = random.Random(60606)
    counter = [0]
    for k in range(400):
        lib = make_library(rng, counter)
        fmt = make_format(rng)
        check_scenario(lib, fmt, "random %d" % k)
        passed += 1
    # one format reused across several libraries
    fmt = BibtexFormat()
    fmt.value_column = "auto"
    fmt.indent = "  "
    for k in range(30):
        check_scenario(make_library(rng, counter), fmt, "reuse %d" % k)
        passed += 1
    return passed


def main():
    try:
        digest = behaviour_digest()
    except Exception as e:  # pragma: no cover
        digest = "error-" + type(e).__name__
    try:
        n = run_property_checks()
        verdict = "PROPERTY-OK %d" % n
    except Fail as e:
        verdict = "PROPERTY-FAIL %s" % str(e).replace("\n", "\\n")
    except Exception as e:  # pragma: no cover
        verdict = "PROPERTY-FAIL unexpected %s: %s" % (type(e).__name__, str(e).replace("\n", "\\n"))
    print("BEHAVIOUR " + digest)
    print(verdict)


if __name__ == "__main__":
    try:
        main()
    finally:
        sys.exit(0)
