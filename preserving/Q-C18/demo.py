"""Demo for the C18 behaviour-changing (but property-preserving) change.

Prints exactly two final lines:
  BEHAVIOUR <sha256>   - rendering of the error/constructor messages the change affects
  PROPERTY-OK <n>      - number of direct property checks that passed (or PROPERTY-FAIL <what>)
"""
import hashlib
import logging
import random
import sys
import traceback
from copy import deepcopy

logging.disable(logging.CRITICAL)

from bibtexparser.library import Library
from bibtexparser.middlewares.latex_encoding import LatexDecodingMiddleware
from bibtexparser.middlewares.latex_encoding import LatexEncodingMiddleware
from bibtexparser.middlewares.names import NameParts
from bibtexparser.model import Entry
from bibtexparser.model import ExplicitComment
from bibtexparser.model import Field
from bibtexparser.model import ImplicitComment
from bibtexparser.model import MiddlewareErrorBlock
from bibtexparser.model import ParsingFailedBlock
from bibtexparser.model import Preamble
from bibtexparser.model import String
from pylatexenc.latex2text import LatexNodes2Text
from pylatexenc.latexencode import UnicodeToLatexEncoder

# --------------------------------------------------------------------------- helpers

LETTERS = "abcdefghijklmnopqrstuvwxyzABCDEFGHIJKLMNOPQRSTUVWXYZ"
DIGITS = "0123456789"
ACCENTED = "àáâãäåçèéêëìíîïñòóôõöùúûüýÿÀÁÂÄÇÈÉÊËÍÎÑÓÔÖÙÚÛÜÝøØßæÆœŒåšžčćńłŁ"
# (double-acute letters and "&" inside URLs are left out: the third-party converter does
#  not round-trip them, with or without this change)
PUNCT = ".,;:!?()[]/+=*@|<>-'"
TEX_SPECIAL = "#$%&_{}~\\"
URLS = [
    "https://example.org/a_b",
    "http://mweiss.ch",
    "https://human_resources.com/x?y=1",
    "www.example.com/path",
    "https://doi.org/10.1000/xyz123",
]
MATHS = ["$e=mc_2$", "$ a+b $", "$x_1 + y_2$", "$\\alpha$", "$\\frac{1}{2}$"]


def bad_for_quantifier(text: str) -> bool:
    """Inputs the property's quantifier excludes (ligature sequences, '^', '"')."""
    return any(seq in text for seq in ("--", "``", "''", "!`", "?`", "^", '"'))


def random_word(rng, alphabet, lo=1, hi=8):
    return "".join(rng.choice(alphabet) for _ in range(rng.randint(lo, hi)))


def random_plain_text(rng):
    """Text over letters, digits, accented letters, punctuation and TeX specials."""
    words = []
    for _ in range(rng.randint(1, 6)):
        kind = rng.random()
        if kind < 0.45:
            w = random_word(rng, LETTERS + DIGITS)
        elif kind < 0.7:
            w = random_word(rng, LETTERS + ACCENTED)
        elif kind < 0.85:
            w = random_word(rng, LETTERS) + rng.choice(PUNCT)
        else:
            w = random_word(rng, LETTERS, 1, 3) + rng.choice(TEX_SPECIAL) + random_word(
                rng, LETTERS, 0, 3
            )
        words.append(w)
    text = " ".join(words)
    return text


def make_library(rng, texts):
    """A library with every block type; string values taken from `texts`."""
    t = iter(texts)
    blocks = [
        String(key="jan", value=next(t), start_line=0, raw="@string{jan = raw}"),
        Preamble(value="\\newcommand{\\x}{é & ü}", start_line=1, raw="@preamble{raw é}"),
        ExplicitComment(comment="comment é & _ $x$", start_line=2, raw="@comment{raw}"),
        ImplicitComment(comment="implicit ü % #", start_line=3, raw="implicit raw"),
        Entry(
            entry_type="article",
            key="Müller_2020&",
            fields=[
                Field("title", next(t), start_line=5),
                Field("Ünïcode_key&", next(t), start_line=6),
                Field(
                    "author",
                    [
                        NameParts(first=[next(t)], von=["von"], last=[next(t)], jr=[]),
                        NameParts(first=[], von=[], last=[next(t)], jr=["Jr."]),
                    ],
                    start_line=7,
                ),
                Field(
                    "editor",
                    NameParts(first=[next(t), next(t)], von=[next(t)], last=[next(t)], jr=[next(t)]),
                    start_line=8,
                ),
                Field("year", 2020, start_line=9),
                Field("keywords", ["é", "b&c"], start_line=10),
                Field("nothing", None, start_line=11),
            ],
            start_line=4,
            raw="@article{Müller_2020&, raw é & text}",
        ),
        Entry(entry_type="book", key="empty", fields=[], start_line=12, raw="@book{empty,}"),
        Entry(
            entry_type="misc",
            key="Müller_2020&",  # duplicate key on purpose
            fields=[Field("note", next(t), start_line=14), Field("url", next(t), start_line=15)],
            start_line=13,
            raw="@misc{...}\r\n",
        ),
    ]
    return Library(blocks)


N_TEXTS = 14


def unwrap(block):
    if isinstance(block, MiddlewareErrorBlock):
        return block.ignore_error_block
    return block


def skeleton(block):
    """Everything the property says must be untouched."""
    base = (type(block).__name__, block.start_line, block.raw)
    if isinstance(block, Entry):
        fields = []
        for f in block.fields:
            if isinstance(f.value, str):
                v = ("str",)
            elif isinstance(f.value, NameParts):
                v = ("NameParts",) + tuple(
                    len(getattr(f.value, p)) for p in ("first", "von", "last", "jr")
                )
            else:
                v = ("other", repr(f.value))
            fields.append((f.key, f.start_line, v))
        return base + (block.entry_type, block.key, tuple(fields))
    if isinstance(block, String):
        return base + (block.key,)
    if isinstance(block, Preamble):
        return base + (block.value,)
    if isinstance(block, ParsingFailedBlock):
        # e.g. the DuplicateBlockKeyBlock created by Library for the repeated key:
        # an "other block", to be left completely alone
        return base + (repr(block.error), repr(block.ignore_error_block))
    return base + (block.comment,)


def value_strings(block):
    """All strings the middleware is allowed to change, in order."""
    out = []
    if isinstance(block, String):
        out.append(block.value)
    elif isinstance(block, Entry):
        for f in block.fields:
            if isinstance(f.value, str):
                out.append(f.value)
            elif isinstance(f.value, NameParts):
                for p in ("first", "last", "von", "jr"):
                    out.extend(getattr(f.value, p))
    return out


class FailingEncoder(UnicodeToLatexEncoder):
    def unicode_to_latex(self, s):
        if "FAIL" in s:
            raise ValueError(f"cannot encode {s!r}")
        return super().unicode_to_latex(s)


class FailingDecoder(LatexNodes2Text):
    def latex_to_text(self, s, **kwargs):
        if "FAIL" in s:
            raise RuntimeError(f"cannot decode {s!r}")
        return super().latex_to_text(s, **kwargs)


class SilentlyFailingEncoder(UnicodeToLatexEncoder):
    def unicode_to_latex(self, s):
        if "FAIL" in s:
            raise KeyError()  # no message at all
        return super().unicode_to_latex(s)


def middleware_variants():
    yield "enc-default", lambda ip: LatexEncodingMiddleware(allow_inplace_modification=ip)
    for km in (True, False):
        for eu in (True, False):
            yield f"enc-km{km}-eu{eu}", (
                lambda ip, km=km, eu=eu: LatexEncodingMiddleware(
                    keep_math=km, enclose_urls=eu, allow_inplace_modification=ip
                )
            )
    yield "enc-custom", lambda ip: LatexEncodingMiddleware(
        encoder=UnicodeToLatexEncoder(non_ascii_only=True), allow_inplace_modification=ip
    )
    yield "enc-failing", lambda ip: LatexEncodingMiddleware(
        encoder=FailingEncoder(), allow_inplace_modification=ip
    )
    yield "dec-default", lambda ip: LatexDecodingMiddleware(allow_inplace_modification=ip)
    for kb in (True, False):
        for kmm in (True, False):
            yield f"dec-kb{kb}-kmm{kmm}", (
                lambda ip, kb=kb, kmm=kmm: LatexDecodingMiddleware(
                    keep_braced_groups=kb, keep_math_mode=kmm, allow_inplace_modification=ip
                )
            )
    yield "dec-custom", lambda ip: LatexDecodingMiddleware(
        decoder=LatexNodes2Text(strict_latex_spaces=True), allow_inplace_modification=ip
    )
    yield "dec-failing", lambda ip: LatexDecodingMiddleware(
        decoder=FailingDecoder(), allow_inplace_modification=ip
    )


# --------------------------------------------------------------------------- property checks

passed = 0
failures = []


def check(cond, what):
    global passed
    if cond:
        passed += 1
    else:
        failures.append(what)


def scope_checks():
    rng = random.Random(1801)
    edge_texts = [
        "",
        " ",
        "{{{{deep {nested {braces}}}}}}",
        "line1\r\nline2",
        "tab\tseparated",
        "Ünïcödé ßtraße",
        "100% & more_#1 {x} ~ \\ $",
        "$e=mc_2$ and https://example.org/a_b",
        "unbalanced { brace",
        "unbalanced } brace",
        "\\unknownmacro{x}",
        "\\textbf{bold} \\'e \\\"o",
        "中文 кириллица ελληνικά",
        "trailing backslash\\",
    ]
    for name, factory in middleware_variants():
        for inplace in (True, False):
            mw = factory(inplace)  # the same object is reused across all calls below
            for round_ in range(3):
                if round_ == 0:
                    texts = edge_texts
                elif round_ == 1:
                    texts = [random_plain_text(rng) for _ in range(N_TEXTS)]
                else:
                    texts = [random_plain_text(rng) for _ in range(N_TEXTS)]
                    texts[rng.randrange(N_TEXTS)] = "FAIL here"
                    texts[rng.randrange(N_TEXTS)] = "also FAIL"
                lib = make_library(rng, texts)
                before = deepcopy(lib)
                label = f"{name}/inplace={inplace}/round={round_}"
                try:
                    out = mw.transform(lib)
                except Exception as e:  # error containment: never an exception
                    check(False, f"{label}: raised {type(e).__name__}: {e}")
                    continue
                check(True, label + " no exception")
                check(
                    len(out.blocks) == len(before.blocks),
                    f"{label}: block count changed",
                )
                for b_before, b_out in zip(before.blocks, out.blocks):
                    inner = unwrap(b_out)
                    if skeleton(inner) != skeleton(b_before):
                        check(False, f"{label}: skeleton of {b_before!r} changed")
                        break
                    if isinstance(b_out, MiddlewareErrorBlock):
                        if (b_out.start_line, b_out.raw) != (b_before.start_line, b_before.raw):
                            check(False, f"{label}: error block lost start_line/raw")
                            break
                    if not all(isinstance(s, str) for s in value_strings(inner)):
                        check(False, f"{label}: non-str value produced")
                        break
                else:
                    check(True, label + " scope")
                # error containment on the failing variants
                if "failing" in name and round_ == 2:
                    ok = True
                    for b_before, b_out in zip(before.blocks, out.blocks):
                        has_fail = any("FAIL" in s for s in value_strings(b_before))
                        if has_fail:
                            ok &= isinstance(b_out, MiddlewareErrorBlock)
                            ok &= isinstance(b_out.error, Exception)
                            inner = b_out.ignore_error_block if ok else None
                            ok &= type(inner) is type(b_before)
                            if ok:
                                ok &= inner.key == b_before.key
                                # the values that failed are still the original ones
                                for s0, s1 in zip(value_strings(b_before), value_strings(inner)):
                                    if "FAIL" in s0:
                                        ok &= s0 == s1
                                if inplace:
                                    ok &= inner is lib.blocks[before.blocks.index(b_before)]
                        else:
                            ok &= not isinstance(b_out, MiddlewareErrorBlock)
                    check(ok, f"{label}: error containment")
                if not inplace:
                    check([skeleton(b) for b in lib.blocks] == [skeleton(b) for b in before.blocks] and all(
                        value_strings(a) == value_strings(b)
                        for a, b in zip(lib.blocks, before.blocks)
                    ), f"{label}: input modified although inplace is disallowed")


def roundtrip_checks():
    rng = random.Random(1802)
    configs = [
        ("default", {}),
        ("km-True", {"keep_math": True}),
        ("km-False", {"keep_math": False}),
        ("eu-True", {"enclose_urls": True}),
        ("eu-False", {"enclose_urls": False}),
    ]
    for cname, kwargs in configs:
        enc = LatexEncodingMiddleware(**kwargs)
        dec = LatexDecodingMiddleware()
        for i in range(40):
            texts = []
            for j in range(N_TEXTS):
                while True:
                    txt = random_plain_text(rng)
                    extra = rng.random()
                    if extra < 0.2 and kwargs.get("enclose_urls", True):
                        txt = txt + " " + rng.choice(URLS)
                    elif extra < 0.4 and kwargs.get("keep_math", True):
                        txt = txt + " " + rng.choice(MATHS) + " " + random_word(rng, LETTERS)
                    if not bad_for_quantifier(txt) and roundtrip_domain(txt):
                        break
                texts.append(txt)
            lib = make_library(rng, texts)
            before = deepcopy(lib)
            try:
                out = dec.transform(enc.transform(lib))
            except Exception as e:
                check(False, f"roundtrip {cname}#{i}: raised {type(e).__name__}: {e}")
                continue
            ok = True
            for b_before, b_out in zip(before.blocks, out.blocks):
                if isinstance(b_out, MiddlewareErrorBlock):
                    ok = False
                    break
                if value_strings(b_before) != value_strings(b_out):
                    ok = False
                    failures.append(
                        f"roundtrip {cname}#{i}: {value_strings(b_before)!r} -> {value_strings(b_out)!r}"
                    )
                    break
                if skeleton(b_before) != skeleton(b_out):
                    ok = False
                    break
            check(ok, f"roundtrip {cname}#{i}")


def roundtrip_domain(txt: str) -> bool:
    """Restrict the demo's round trip to a conservative sub-alphabet: a '$' outside a
    math span pairs up with another one, and a lone brace is not 'text' in TeX."""
    plain = txt
    for m in MATHS:
        plain = plain.replace(m, "")
    for u in URLS:
        plain = plain.replace(u, "")
    if "$" in plain:
        return False
    return True


# --------------------------------------------------------------------------- behaviour rendering


def behaviour_rendering():
    lines = []
    rng = random.Random(1803)
    texts = [f"text{i}" for i in range(N_TEXTS)]
    texts[0] = "FAIL in string"
    texts[1] = "FAIL in title"
    texts[4] = "FAIL in last"
    texts[7] = "FAIL in editor first"
    for label, mw in (
        ("enc", LatexEncodingMiddleware(encoder=FailingEncoder())),
        ("dec", LatexDecodingMiddleware(decoder=FailingDecoder())),
        ("enc-silent", LatexEncodingMiddleware(encoder=SilentlyFailingEncoder())),
    ):
        out = mw.transform(make_library(rng, texts))
        for b in out.blocks:
            if isinstance(b, MiddlewareErrorBlock):
                lines.append(f"{label} error-block {type(b.error).__name__}: {b.error}")
                lines.append(f"{label} reasons attr: {getattr(b.error, 'reasons', '<absent>')!r}")
            else:
                lines.append(f"{label} ok-block {type(b).__name__}")
    for label, ctor in (
        ("enc-ctor", lambda: LatexEncodingMiddleware(keep_math=True, encoder=UnicodeToLatexEncoder())),
        ("dec-ctor", lambda: LatexDecodingMiddleware(keep_math_mode=True, decoder=LatexNodes2Text())),
    ):
        try:
            ctor()
            lines.append(f"{label}: accepted")
        except Exception as e:
            lines.append(f"{label}: {type(e).__name__}: {e}")
    return "\n".join(lines)


def main():
    behaviour = "<crashed>"
    try:
        behaviour = behaviour_rendering()
    except Exception:
        behaviour = "crash: " + traceback.format_exc()
    try:
        scope_checks()
        roundtrip_checks()
    except Exception:
        failures.append("demo crashed: " + traceback.format_exc())
    if "--show" in sys.argv:
        print(behaviour)
        for f in failures[:20]:
            print("FAILURE:", f)
    print("BEHAVIOUR " + hashlib.sha256(behaviour.encode("utf-8")).hexdigest())
    if failures:
        print("PROPERTY-FAIL " + failures[0].replace("\n", " | ")[:300])
    else:
        print(f"PROPERTY-OK {passed}")


if __name__ == "__main__":
    try:
        main()
    except BaseException:
        print("BEHAVIOUR " + hashlib.sha256(b"crash").hexdigest())
        print("PROPERTY-FAIL demo crashed")
    sys.exit(0)
