"""Differential demo for the names.py refactoring (property C13).

Prints a deterministic digest of name-splitting results over a few thousand names.
"""
import hashlib
import itertools
import json
import logging
import sys

logging.disable(logging.CRITICAL)

try:
    import bibtexparser
    from bibtexparser.middlewares.names import (
        InvalidNameError,
        MergeNameParts,
        NameParts,
        SeparateCoAuthors,
        SplitNameParts,
        parse_single_name_into_parts,
    )
except Exception as e:  # pragma: no cover
    print("IMPORT FAILED", type(e).__name__)
    print("DIGEST import-failed")
    sys.exit(0)

TOKENS = [
    "Aa", "bb", "12", "{cc}", "{Dd}", "{\\'E}x", "{\\'e}x", "\\'Ee", "\\oe", "x\\", "{\\AA}",
    "{\\aa rest}", "{{\\'e}}Z", "Éa", "ßb", "中", "de~la", "A-b", "{", "}", "{A B", "b}", "{A, b}",
]
SEPS = [" ", ", ", ",", "~", "\t", "\r\n", "  "]


def names():
    out = ["", " ", "~", ",", ",,", ", ,", " , ", "\\", "\\ ", "\\,", "{}", "{{}}", "a\\ b", "A\\~b c"]
    for n in (1, 2):
        for toks in itertools.product(TOKENS, repeat=n):
            for sep in SEPS:
                out.append(sep.join(toks))
    small = ["Aa", "bb", "12", "{\\'e}x", "x\\", "}"]
    for n in (3, 4, 5):
        for toks in itertools.product(small[: (6 if n == 3 else 3)], repeat=n):
            for seps in itertools.product([" ", ", "], repeat=n - 1):
                s = toks[0]
                for sp, t in zip(seps, toks[1:]):
                    s += sp + t
                out.append(s)
    out += [n + "," for n in out[:200]] + [" " + n + " " for n in out[:200]]
    out.append("{" * 40 + "Deep" + "}" * 40 + " von " + "{" * 3 + "x" + "}" * 3 + " Last")
    out.append("A " * 50 + "b " * 50 + "C")
    return out


def render(parts):
    assert isinstance(parts, NameParts)
    return [parts.first, parts.von, parts.last, parts.jr,
            parts.merge_first_name_first, parts.merge_last_name_first]


results = []
all_names = names()
for name in all_names:
    for strict in (True, False):
        try:
            results.append(["ok", name, strict, render(parse_single_name_into_parts(name, strict=strict))])
        except InvalidNameError as e:
            results.append(["invalid", name, strict, type(e).__name__, e.name])
        except Exception as e:
            results.append(["exc", name, strict, type(e).__name__])

# Through the middleware stack (object reuse across calls, failed blocks).
split, sep_mw = SplitNameParts(), SeparateCoAuthors()
merge = MergeNameParts(style="first")
for i in range(0, min(len(all_names), 1500), 3):
    a, b, c = (all_names[i : i + 3] + ["X", "Y", "Z"])[:3]
    if any(ch in (a + b + c) for ch in '"@') :
        continue
    bib = "@article{k%d,\n author = \"%s and %s\",\n editor = \"%s\",\n title = {T}\n}\n" % (i, a, b, c)
    try:
        lib = bibtexparser.parse_string(bib, append_middleware=[sep_mw, split])
    except Exception as e:
        results.append(["parse-exc", i, type(e).__name__])
        continue
    for blk in lib.blocks:
        row = [type(blk).__name__, blk.start_line, blk.raw]
        if hasattr(blk, "error"):
            row.append(type(blk.error).__name__)
        ent = getattr(blk, "ignore_error_block", None)
        if hasattr(blk, "fields"):
            row.append(blk.key)
            for f in blk.fields:
                v = f.value
                if isinstance(v, list):
                    v = [render(x) if isinstance(x, NameParts) else x for x in v]
                row.append([f.key, v])
        elif ent is not None and hasattr(ent, "fields"):
            row.append(["orig", ent.key, [[f.key, repr(f.value)] for f in ent.fields]])
        results.append(row)

# Directly through the middleware on hand-built entries (also for names that are not valid bibtex).
from bibtexparser.library import Library
from bibtexparser.model import Entry, Field, MiddlewareErrorBlock

for i in range(0, len(all_names), 7):
    group = all_names[i : i + 2]
    entry = Entry("article", "e%d" % i, [Field("author", list(group)), Field("title", "T"),
                                          Field("translator", [all_names[i]])])
    for inplace in (True, False):
        mw = SplitNameParts(allow_inplace_modification=inplace)
        try:
            out = mw.transform(Library([Entry("article", entry.key, [Field(f.key, list(f.value) if isinstance(f.value, list) else f.value) for f in entry.fields])]))
        except Exception as e:
            results.append(["mw-exc", i, inplace, type(e).__name__])
            continue
        for blk in out.blocks:
            if isinstance(blk, MiddlewareErrorBlock):
                orig = blk.ignore_error_block
                results.append(["mw-err", i, inplace, type(blk.error).__name__, orig.key,
                                [[f.key, repr(f.value)] for f in orig.fields]])
            else:
                results.append(["mw-ok", i, inplace, blk.key,
                                [[f.key, [render(x) for x in f.value] if isinstance(f.value, list) else f.value]
                                 for f in blk.fields]])

blob = json.dumps(results, ensure_ascii=True, sort_keys=True, default=repr).encode()
print("cases", len(results))
print("invalid", sum(1 for r in results if r[0] == "invalid"), "exc", sum(1 for r in results if r[0] in ("exc", "parse-exc")))
print("DIGEST", hashlib.sha256(blob).hexdigest())
