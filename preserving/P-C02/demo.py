"""Differential demo for the C02 refactoring (splitter mark handling, implicit-comment
trimming, library key indexing). Prints a deterministic digest as its last line."""
import hashlib
import logging
import random
import sys
import traceback

logging.disable(logging.CRITICAL)

from bibtexparser.library import Library
from bibtexparser.model import (
    DuplicateBlockKeyBlock,
    DuplicateFieldKeyBlock,
    Entry,
    ExplicitComment,
    ImplicitComment,
    ParsingFailedBlock,
    Preamble,
    String,
)
from bibtexparser.splitter import Splitter

rng = random.Random(20260402)

WS = ["", " ", "  ", "\t", "\n", "\n\n", " \n ", "\r\n", "\x0b", "\x0c", " ", " ", "\x1c"]
WORDS = ["alpha", "Beta", "gamma-delta", "x", "1999", "Müller", "中文", "naïve", "a=b",
         "a,b", "@", "@home", "\\\"o", "\\{", "\\}", "100\\%", "é", "\U0001f600", "#", "="]
KEYS = ["author", "title", "year", "Author", "note", "url", "abstract", "x-y", "über", "a_b"]
TYPES = ["article", "Book", "INPROCEEDINGS", "misc", "commentary", "stringent", "preambles", "online", "étude"]
CITEKEYS = ["k1", "Smith2020", "a:b", "x/y", "k1", "ü1", "long-key_with.stuff", "", "K1"]


def ws():
    return rng.choice(WS)


def braced(depth=0):
    parts = []
    for _ in range(rng.randint(0, 4)):
        r = rng.random()
        if r < 0.25 and depth < 5:
            parts.append(braced(depth + 1))
        elif r < 0.35:
            parts.append('"')
        elif r < 0.45:
            parts.append(rng.choice([",", "=", " @ ", "#"]))
        else:
            parts.append(rng.choice(WORDS))
        parts.append(rng.choice(["", " ", "\n", "\r\n"]))
    return "{" + "".join(parts) + "}"


def quoted():
    parts = []
    for _ in range(rng.randint(0, 4)):
        r = rng.random()
        if r < 0.3:
            parts.append(braced(1))
        elif r < 0.4:
            parts.append(rng.choice([",", "=", "#", "\\\""]))
        else:
            parts.append(rng.choice([w for w in WORDS if '"' not in w or w.startswith("\\")]))
        parts.append(rng.choice(["", " ", "\n"]))
    return '"' + "".join(parts) + '"'


def value():
    atoms = []
    for _ in range(rng.choice([1, 1, 1, 2, 3])):
        r = rng.random()
        if r < 0.45:
            atoms.append(braced())
        elif r < 0.8:
            atoms.append(quoted())
        elif r < 0.9:
            atoms.append(str(rng.randint(0, 3000)))
        else:
            atoms.append(rng.choice(["jan", "myStr", "ABC"]))
    return (ws() + "#" + ws()).join(atoms)


def entry():
    n = rng.randint(0, 5)
    fields = [ws() + rng.choice(KEYS) + ws() + "=" + ws() + value() + ws() for _ in range(n)]
    body = ",".join(fields)
    key = rng.choice(CITEKEYS)
    if n == 0 and rng.random() < 0.4:
        inner = ws() + key + ws()
    else:
        inner = ws() + key + ws() + "," + body + rng.choice(["", ",", ", ", ",\n"])
    return "@" + rng.choice(TYPES) + rng.choice(["", " ", "\t", "  "]) + "{" + inner + "}"


def string_block():
    return "@" + rng.choice(["string", "String", "STRING"]) + rng.choice(["", " "]) + "{" + ws() + rng.choice(["s1", "myStr", "s1", "X"]) + ws() + "=" + ws() + rng.choice([braced(), quoted()]) + ws() + "}"


def preamble():
    return "@" + rng.choice(["preamble", "Preamble"]) + "{" + ws() + rng.choice([braced(), quoted(), '"a" # "b"']) + ws() + "}"


def comment():
    return "@" + rng.choice(["comment", "Comment", "COMMENT"]) + rng.choice(["", " "]) + "{" + ws() + rng.choice(WORDS) + " " + braced(1) + ws() + "}"


def free_text():
    lines = [rng.choice(["% a remark", "free text", "Übung macht", "  indented", "email at example", "x = y, z", "\"quoted\" {braced}", "}", "{"]) for _ in range(rng.randint(1, 3))]
    return rng.choice(["\n", "\r\n", "\n\n", "\n \x0c\n"]).join(lines)


def broken():
    r = rng.random()
    if r < 0.2:
        return "@article{k, title = {unclosed " + rng.choice(WORDS)
    if r < 0.4:
        return '@article{k, title = "unclosed ' + rng.choice(WORDS)
    if r < 0.5:
        return "@string{s1 " + braced() + "}"
    if r < 0.6:
        return "@article{k = {v}}"
    if r < 0.7:
        return "@article{k, title {v}}"
    if r < 0.8:
        return "@article{k, title = {v} year = 2000}"
    if r < 0.9:
        return "@comment{ never {closed"
    return "@preamble{ {never closed"


GENS = [entry, entry, entry, string_block, preamble, comment, free_text]


def document(allow_broken):
    blocks = []
    for _ in range(rng.randint(0, 7)):
        if allow_broken and rng.random() < 0.2:
            blocks.append(broken())
        else:
            blocks.append(rng.choice(GENS)())
    sep = rng.choice(["\n", "\n\n", "\r\n", "\n  \n", "\n\t"])
    doc = rng.choice(["", "\n", "  \n", "﻿"]) + sep.join(blocks) + rng.choice(["", "\n", " \n\n", "\r\n"])
    return doc


FIXED = [
    "", "\n", " ", "\r\n\r\n", "\x0c\x0b", "just text", "\n\n  text after blank lines  \n\n",
    "@article{k}", "@article{k,}", "@article{,}", "@article{k, a = {b}}", "@article{k, a = {b},}",
    '@article{k, a = "x {"} y" z", b = {p "q{"}r" s}}',
    '@article{k, a = "x" # {y} # 12 # abc, a = {dup}}',
    "@article{k, a = {\\{ \\} \\\" , = @x}}",
    '@article{k, a = "} stray closing in quotes", b = 1}',
    "@article{k, a = {v}}\n@article{k, a = {w}}\n@string{s = {1}}\n@string{s = {2}}",
    "@comment{a {b} c}\n@commentary{k, t = {x}}\n@preamble{\"p\"}@article{glued, t = {x}}",
    "text @article{notablock, t = {x}} more",
    "@article{k, t = {x @inner{y} z}}",
    "@article{k, t = {x \n@inner{y} z}}",
    "@article {k, t = {x}}\n@article\t{k2, t = {x}}\n@article\n{k3, t = {x}}",
    "@article{k, t = " + "{" * 60 + "deep" + "}" * 60 + "}",
    '@article{k, t = "' + "{" * 40 + '"' + "}" * 40 + '"}',
    "@ARTICLE{K, T = {X}}",
    "@İstanbul{k, t = {x}}",
    "\n" * 50 + "late comment" + "\n" * 5 + "@article{k, t = {x}}" + "\n" * 3 + "tail",
    "@article{k, t = {x}",
    "@article{k, t = {x}\n@book{b, t = {y}}",
    '@article{k, t = "x\n@book{b, t = {y}}',
    "@string{s1 = {x}\n@book{b, t = {y}}",
    "@string{= {x}}", "@string{s {x}}", "@preamble{}", "@comment{}", "@comment{ }",
    "a\x1cb\n\x1d\n@article{k}\x1e\nrest\x1f",
    " text after LS \n@article{k} ",
    " \n　 ideographic space lead\n@misc{k}",
]


def render_block(b, depth=0):
    out = [type(b).__name__, repr(b.start_line), repr(b.raw)]
    if isinstance(b, Entry):
        out += [repr(b.entry_type), repr(b.key)]
        for f in b.fields:
            out += [type(f).__name__, repr(f.key), repr(f.value), repr(f.start_line)]
    elif isinstance(b, String):
        out += [repr(b.key), repr(b.value)]
    elif isinstance(b, Preamble):
        out += [repr(b.value)]
    elif isinstance(b, (ExplicitComment, ImplicitComment)):
        out += [repr(b.comment)]
    elif isinstance(b, DuplicateBlockKeyBlock):
        out += [repr(b.key), "prev", render_block(b.previous_block, depth + 1), "dup", render_block(b.ignore_error_block, depth + 1)]
        out += [type(b.error).__name__]
    elif isinstance(b, DuplicateFieldKeyBlock):
        out += [repr(sorted(b.duplicate_keys)), render_block(b.ignore_error_block, depth + 1)]
        out += [type(b.error).__name__]
    elif isinstance(b, ParsingFailedBlock):
        out += [type(b.error).__name__, repr(getattr(b.error, "end_index", None))]
        out += [repr(b.ignore_error_block is None)]
    return "|".join(out)


def render_library(lib):
    lines = [render_block(b) for b in lib.blocks]
    lines.append("entries:" + ",".join(repr(e.key) for e in lib.entries))
    lines.append("entries_dict:" + ",".join(repr(k) for k in lib.entries_dict))
    lines.append("strings_dict:" + ",".join(repr(k) for k in lib.strings_dict))
    lines.append("failed:%d comments:%d preambles:%d strings:%d" % (
        len(lib.failed_blocks), len(lib.comments), len(lib.preambles), len(lib.strings)))
    return "\n".join(lines)


def run(doc, into=None):
    try:
        lib = Splitter(doc).split(into)
        return render_library(lib)
    except Exception as e:  # error type only (texts may be reworded)
        return "EXC:" + type(e).__name__


def main():
    h = hashlib.sha256()
    docs = list(FIXED)
    docs += [document(allow_broken=False) for _ in range(300)]
    docs += [document(allow_broken=True) for _ in range(200)]
    docs += [d.replace("\n", "\r\n") for d in docs[: len(FIXED) + 60]]
    n = 0
    for d in docs:
        h.update(repr(d).encode("utf-8", "backslashreplace"))
        h.update(run(d).encode("utf-8", "backslashreplace"))
        n += 1
    # Parsing into an existing library (object reuse), and splitting twice with one splitter
    for i in range(0, 120, 2):
        lib = Splitter(docs[len(FIXED) + i]).split()
        h.update(run(docs[len(FIXED) + i + 1], into=lib).encode("utf-8", "backslashreplace"))
        sp = Splitter(docs[len(FIXED) + i])
        first = render_library(sp.split())
        try:
            second = render_library(sp.split())
        except Exception as e:
            second = "EXC:" + type(e).__name__
        h.update((first + "\x00" + second).encode("utf-8", "backslashreplace"))
        n += 2
    # Library API directly: add / replace / remove with duplicate keys
    for i in range(40):
        lib = Library()
        blocks = []
        for j in range(rng.randint(1, 6)):
            if rng.random() < 0.6:
                blocks.append(Entry("article", rng.choice(["a", "b", "c"]), []))
            else:
                blocks.append(String(rng.choice(["a", "b"]), "{v%d}" % j))
        res = []
        try:
            lib.add(blocks, fail_on_duplicate_key=rng.random() < 0.3)
        except ValueError:
            res.append("ValueError")
        res.append(render_library(lib))
        try:
            lib.replace(lib.blocks[0], Entry("book", rng.choice(["a", "b", "z"]), []), fail_on_duplicate_key=rng.random() < 0.5)
        except Exception as e:
            res.append(type(e).__name__)
        res.append(render_library(lib))
        try:
            lib.remove(lib.blocks[-1])
        except Exception as e:
            res.append(type(e).__name__)
        res.append(render_library(lib))
        h.update("\n".join(res).encode("utf-8", "backslashreplace"))
        n += 1
    print("cases", n)
    print("DIGEST " + h.hexdigest())


if __name__ == "__main__":
    try:
        main()
    except Exception:
        traceback.print_exc()
        print("DIGEST error")
    sys.exit(0)
