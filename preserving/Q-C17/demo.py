"""Demo for the C17 change: BEHAVIOUR hash (differs with/without the patch) and
direct assertions of property C17 on a few hundred varied inputs."""
import hashlib
import itertools
import logging
import random
import sys
import traceback
from copy import deepcopy

from bibtexparser.library import Library
from bibtexparser.middlewares.fieldkeys import NormalizeFieldKeys
from bibtexparser.middlewares.sorting_entry_fields import SortFieldsAlphabeticallyMiddleware
from bibtexparser.middlewares.sorting_entry_fields import SortFieldsCustomMiddleware
from bibtexparser.model import Entry
from bibtexparser.model import ExplicitComment
from bibtexparser.model import Field
from bibtexparser.model import ImplicitComment
from bibtexparser.model import Preamble
from bibtexparser.model import String


class _Capture(logging.Handler):
    def __init__(self):
        super().__init__(level=logging.DEBUG)
        self.records = []

    def emit(self, record):
        self.records.append((record.levelname, record.getMessage()))


CAP = _Capture()
_lg = logging.getLogger("bibtexparser.middlewares.fieldkeys")
_lg.addHandler(CAP)
_lg.setLevel(logging.DEBUG)
_lg.propagate = False


# --------------------------------------------------------------------------- #
# Observable behaviour affected by the change
# --------------------------------------------------------------------------- #
def behaviour() -> str:
    out = []
    # 1. wording / number of the duplicate-key warnings
    CAP.records.clear()
    e = Entry(
        "article",
        "k1",
        [Field("Author", "a"), Field("title", "t"), Field("AUTHOR", "b"), Field("TITLE", "u"),
         Field("author", "c")],
    )
    NormalizeFieldKeys().transform(Library(blocks=[e]))
    out.append(("warnings", list(CAP.records)))
    # 2. metadata recorded by the custom sorter (type + value)
    m = SortFieldsCustomMiddleware(order=["Year", "author"])
    e = Entry("article", "k2", [Field("author", "a"), Field("year", "1")])
    r = m.transform(Library(blocks=[e])).entries[0]
    md = r.parser_metadata.get("sorted_fields_custom")
    out.append(("metadata", type(md).__name__, repr(md)))
    # 3. introspection properties
    out.append(("props", repr(getattr(m, "order", "<none>")), repr(getattr(m, "case_sensitive", "<none>"))))
    # 4. error message for an invalid (duplicate) order list
    try:
        SortFieldsCustomMiddleware(order=("b", "B", "a", "A"))
        out.append(("dup", "no error"))
    except ValueError as ex:
        msg = str(ex)
        # the old message iterates a set -> normalise the (hash-order dependent) tail
        head, _, tail = msg.partition("duplicated: ")
        out.append(("dup", head, sorted(tail.split(", "))))
    return repr(out)


# --------------------------------------------------------------------------- #
# Property checks
# --------------------------------------------------------------------------- #
def pairs(entry):
    return [(f.key, f.value) for f in entry.fields]


def other_blocks():
    return [
        String("foo", "bar"),
        Preamble("pre"),
        ExplicitComment("explicit"),
        ImplicitComment("implicit"),
    ]


def run(mw, entry, inplace):
    """Apply middleware on library [String, entry, Preamble,...]; return transformed entry.
    Also checks that other blocks, entry type and entry key are untouched."""
    others = other_blocks()
    lib = Library(blocks=[others[0], entry] + others[1:])
    snapshot = deepcopy(others)
    res = mw.transform(lib)
    assert len(res.blocks) == 5
    got_others = [res.blocks[0]] + res.blocks[2:]
    assert got_others == snapshot, "other blocks changed"
    out = res.blocks[1]
    assert isinstance(out, Entry)
    return out


def check_sorted(before, after_entry, sort_key, src_entry):
    after = pairs(after_entry)
    # exactly the entry's fields, each pair once (multiset equality)
    assert sorted(after, key=repr) == sorted(before, key=repr), "field multiset changed"
    assert len(after) == len(before)
    # in key order, ties keeping source order == the unique stable sort
    expected = sorted(before, key=lambda kv: sort_key(kv[0]))
    assert after == expected, f"order wrong: {after} != {expected}"
    assert after_entry.entry_type == src_entry[0] and after_entry.key == src_entry[1]


def check_alpha(fields, inplace):
    e = Entry("Article", "Key:1", [Field(k, v) for k, v in fields])
    before = list(fields)
    mw = SortFieldsAlphabeticallyMiddleware(allow_inplace_modification=inplace)
    out = run(mw, e, inplace)
    check_sorted(before, out, lambda k: k, ("Article", "Key:1"))
    if not inplace:
        assert pairs(e) == before, "input mutated although inplace not allowed"
    again = run(mw, out, inplace)
    assert pairs(again) == pairs(out), "not idempotent"
    assert again.entry_type == "Article" and again.key == "Key:1"


def check_custom(fields, order, case_sensitive, inplace, mw=None):
    e = Entry("Book", "kéy", [Field(k, v) for k, v in fields])
    before = list(fields)
    if mw is None:
        mw = SortFieldsCustomMiddleware(
            order=order, case_sensitive=case_sensitive, allow_inplace_modification=inplace
        )
    eff = list(order) if case_sensitive else [x.lower() for x in order]

    def sk(k):
        kk = k if case_sensitive else k.lower()
        return eff.index(kk) if kk in eff else len(eff)

    out = run(mw, e, inplace)
    check_sorted(before, out, sk, ("Book", "kéy"))
    if not inplace:
        assert pairs(e) == before
    again = run(mw, out, inplace)
    assert pairs(again) == pairs(out), "not idempotent"
    assert again.entry_type == "Book" and again.key == "kéy"


def check_normalize(fields, inplace):
    e = Entry("misc", "K", [Field(k, v) for k, v in fields])
    before = list(fields)
    mw = NormalizeFieldKeys(allow_inplace_modification=inplace)
    out = run(mw, e, inplace)
    after = pairs(out)
    keys = [k for k, _ in after]
    assert all(k == k.lower() for k in keys), "not lower-case"
    assert len(set(keys)) == len(keys), "not unique"
    last = {}
    first_order = []
    for k, v in before:
        lk = k.lower()
        if lk not in last:
            first_order.append(lk)
        last[lk] = v
    assert keys == first_order, "order of first occurrences not kept"
    for k, v in after:
        assert last[k] == v and type(last[k]) is type(v), "value changed"
    assert out.entry_type == "misc" and out.key == "K"
    again = run(mw, out, inplace)
    assert pairs(again) == after, "not idempotent"
    assert again.entry_type == "misc" and again.key == "K"


def main():
    ok = 0
    rnd = random.Random(1717)
    pool = ["author", "Author", "AUTHOR", "title", "Title", "year", "YEAR", "note", "Ünï", "ünï",
            "ÜNÏ", "a", "A", "b"]
    values = ["v", "{nested {braces {deep}}}", "line1\r\nline2", "", "ünïcödé ß", '"q"', 42,
              "same", "same"]

    cases = [[]]
    # every collision pattern on small alphabets, 0..4 fields
    for n in range(1, 5):
        for ks in itertools.product(["a", "A", "b"], repeat=n):
            cases.append([(k, f"v{i}") for i, k in enumerate(ks)])
    # random larger ones, up to 8 fields, exotic values, duplicate pairs
    for _ in range(150):
        n = rnd.randint(0, 8)
        cases.append([(rnd.choice(pool), rnd.choice(values)) for _ in range(n)])
    cases.append([("a", "x"), ("a", "x"), ("A", "x")])  # identical pairs

    for i, fields in enumerate(cases):
        inplace = bool(i % 2)
        check_alpha(fields, inplace)
        ok += 1
        check_normalize(fields, inplace)
        ok += 1

    # custom orders: subsets / permutations, both case modes
    order_pool = ["author", "Title", "YEAR", "a", "B", "ünï", "missing"]
    for i, fields in enumerate(cases):
        k = rnd.randint(0, len(order_pool))
        order = rnd.sample(order_pool, k)
        for cs in (False, True):
            # also exercise list / tuple inputs
            o = tuple(order) if i % 3 else list(order)
            check_custom(fields, o, cs, bool(i % 2))
            ok += 1
    # case-sensitive orders containing case variants of the same key
    for fields in cases[:60]:
        check_custom(fields, ("A", "b", "a"), True, True)
        ok += 1
    # all permutations of a 3-key order on a fixed colliding entry
    fx = [("b", 1), ("A", 2), ("c", 3), ("a", 4), ("B", 5), ("C", 6), ("d", 7), ("A", 8)]
    for r in range(0, 4):
        for perm in itertools.permutations(["a", "B", "c"], r):
            for cs in (False, True):
                check_custom(fx, perm, cs, False)
                ok += 1
    # object reuse across calls: one middleware, many entries
    shared = SortFieldsCustomMiddleware(order=["Title", "a"])
    for fields in cases[:40]:
        check_custom(fields, ["Title", "a"], False, True, mw=shared)
        ok += 1
    # mutating the caller's list afterwards must not matter to the property check
    # (order given to the check is the one passed at construction time)
    return ok


if __name__ == "__main__":
    try:
        beh = behaviour()
    except Exception:
        beh = "ERROR " + traceback.format_exc()
    print("BEHAVIOUR " + hashlib.sha256(beh.encode("utf-8")).hexdigest())
    try:
        n = main()
        print(f"PROPERTY-OK {n}")
    except Exception as ex:  # noqa
        tb = traceback.extract_tb(sys.exc_info()[2])[-1]
        print(f"PROPERTY-FAIL {type(ex).__name__}: {ex} (line {tb.lineno})".replace("\n", " "))
    sys.exit(0)
