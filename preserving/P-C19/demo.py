"""Differential demo for the model.py refactoring (Entry field access, structural equality).

Prints a deterministic digest as its last line; always exits 0.
"""
import copy
import hashlib
import random
import sys
import traceback

OUT = []


def emit(*parts):
    OUT.append("|".join(repr(p) for p in parts))


def render_field(f):
    return ("F", f.key, repr(f.value), f.start_line)


def render_block(b):
    from bibtexparser import model as m

    name = type(b).__name__
    base = [name, b.start_line, b.raw, sorted(b.parser_metadata.items(), key=repr).__repr__()]
    if isinstance(b, m.Entry):
        base += [b.entry_type, b.key, [render_field(f) for f in b.fields]]
        base += [[(k, render_field(v)) for k, v in b.fields_dict.items()], repr(b.items())]
        base += [str(b), repr(b)]
    elif isinstance(b, m.String):
        base += [b.key, b.value, str(b), repr(b)]
    elif isinstance(b, m.Preamble):
        base += [b.value, str(b), repr(b)]
    elif isinstance(b, (m.ExplicitComment, m.ImplicitComment)):
        base += [b.comment, str(b), repr(b)]
    elif isinstance(b, m.ParsingFailedBlock):
        base += [type(b.error).__name__]
        ieb = b.ignore_error_block
        base += [render_block(ieb) if ieb is not None else None]
        if isinstance(b, m.DuplicateFieldKeyBlock):
            base += [sorted(b.duplicate_keys)]
        if isinstance(b, m.DuplicateBlockKeyBlock):
            base += [b.key, render_block(b.previous_block)]
    return base


BIBS = [
    "",
    "\n\n",
    "@article{a1, author = {A. Uthor}, title = {T}, year = 2020}\n",
    "@article{a1,\r\n  author = {A. Uthor},\r\n  Author = {Other},\r\n  title = \"T\",\r\n}\r\n",
    "@book{b, title = {{Deep {nested {braces {here}}}}}, note = {éè 中文 \U0001f600}}",
    "@string{me = \"My Name\"}\n@preamble{\"pre\"}\n@comment{expl}\nimplicit text\n@misc{m, a = me # \" x\"}",
    "@article{dup, a = 1, a = 2, b = 3}\n@article{ok, x = {y}}",
    "@article{k, a = 1}\n@article{k, a = 2}\n@string{s = \"1\"}\n@string{s = \"2\"}",
    "@article{broken, a = {unclosed\n@article{next, b = {fine}}",
    "@article{nofields}\n@article{trail, a = 1,}\n@ARTICLE{Upper, TITLE = {x}, title = {y}}",
    "@misc{u, über = {x}, UBER = {y}, uber = {z}}",
    "% comment line\n@misc{e, empty = {}, q = \"\", n = 0}\n\n\ntrailing",
]

KEYS = ["a", "A", "b", "title", "Title", "TITLE", "ü", "Ü", "", " a", "author", "x" * 40]


def safe(fn, *args):
    try:
        return ("ok", fn(*args))
    except Exception as e:  # only the type and args-shape, no message texts
        return ("err", type(e).__name__, len(e.args), repr(e.args[0]) if isinstance(e, KeyError) else None)


def apply_ops(entry, rng, n_ops, tag):
    from bibtexparser.model import Field

    for step in range(n_ops):
        op = rng.choice(["set", "setitem", "pop", "popd", "del", "get", "getd", "in", "getitem", "views"])
        key = rng.choice(KEYS)
        before = entry.fields
        if op == "set":
            f = Field(key, rng.choice(["v", 1, None, ["l"], "é"]), rng.choice([None, 0, 7]))
            r = safe(entry.set_field, f)
            if f not in entry.fields or not any(x is f for x in entry.fields):
                emit(tag, step, "set-lost")
        elif op == "setitem":
            r = safe(entry.__setitem__, key, rng.choice(["w", 2, ("t",)]))
        elif op == "pop":
            r = safe(entry.pop, key)
        elif op == "popd":
            r = safe(entry.pop, key, "DEFAULT")
        elif op == "del":
            r = safe(entry.__delitem__, key)
        elif op == "get":
            r = safe(entry.get, key)
        elif op == "getd":
            r = safe(entry.get, key, 42)
        elif op == "in":
            r = safe(entry.__contains__, key)
        elif op == "getitem":
            r = safe(entry.__getitem__, rng.choice([key, key, "ENTRYTYPE", "ID"]))
        else:
            r = ("ok", None)
        if r[0] == "ok" and hasattr(r[1], "key") and hasattr(r[1], "value"):
            r = ("ok", render_field(r[1]))
        emit(tag, step, op, key, r, entry.fields is before, type(entry.fields).__name__)
        emit([render_field(f) for f in entry.fields])
        emit([(k, render_field(v)) for k, v in entry.fields_dict.items()])
        emit(entry.items())


def equality_checks(blocks, tag):
    from bibtexparser import model as m

    for i, b in enumerate(blocks):
        c, d = copy.copy(b), copy.deepcopy(b)
        emit(tag, i, "copy-eq", safe(lambda: (b == c, c == b, b != c, b == d, d == b, b != d)))
        emit(tag, i, "self-other", safe(lambda: (b == b, b == None, b == 1, b == "x", b != object())))  # noqa: E711
        for j, o in enumerate(blocks):
            emit(tag, i, j, safe(lambda: (b == o, b != o)))
        # single attribute perturbations through public API
        for attr in ("key", "value", "comment", "entry_type"):
            if hasattr(type(b), attr) and getattr(type(b), attr).fset is not None:
                p = copy.deepcopy(b)
                setattr(p, attr, str(getattr(p, attr)) + "~")
                emit(tag, i, "perturb", attr, p == b, b == p, p != b)
        p = copy.deepcopy(b)
        p.set_parser_metadata("k", 1)
        emit(tag, i, "perturb-meta", p == b, b == p)
        for kw in ("start_line", "raw"):
            if isinstance(b, m.Entry):
                args = dict(entry_type=b.entry_type, key=b.key, fields=copy.deepcopy(b.fields),
                            start_line=b.start_line, raw=b.raw)
                same = m.Entry(**args)
                args[kw] = 999 if kw == "start_line" else (b.raw or "") + " "
                other = m.Entry(**copy.deepcopy(args))
                same._parser_metadata = copy.deepcopy(b.parser_metadata)
                other._parser_metadata = copy.deepcopy(b.parser_metadata)
                emit(tag, i, "ctor", kw, same == b, other == b, b == other)
        if isinstance(b, m.Entry):
            for fi, f in enumerate(b.fields):
                for what in ("key", "value", "line", "order", "drop"):
                    p = copy.deepcopy(b)
                    if what == "key":
                        p.fields[fi].key = f.key + "~"
                    elif what == "value":
                        p.fields[fi].value = [f.value]
                    elif what == "line":
                        p.fields[fi] = m.Field(f.key, copy.deepcopy(f.value), (f.start_line or 0) + 1)
                    elif what == "order":
                        p.fields = list(reversed(p.fields))
                    else:
                        del p.fields[fi]
                    emit(tag, i, fi, what, p == b, b == p, p.fields == b.fields)
                g = m.Field(f.key, copy.deepcopy(f.value), f.start_line)
                emit(tag, i, fi, "field-eq", g == f, f == g, g != f, f == (f.key, f.value), f == None)  # noqa: E711


def subclass_checks():
    from bibtexparser import model as m

    class SubField(m.Field):
        pass

    class SubEntry(m.Entry):
        pass

    f, sf = m.Field("a", 1, 2), SubField("a", 1, 2)
    emit("sub", f == sf, sf == f, sf == SubField("a", 1, 2), f != sf)
    e = m.Entry("t", "k", [m.Field("a", 1)], 3, "raw")
    se = SubEntry("t", "k", [m.Field("a", 1)], 3, "raw")
    emit("sub", e == se, se == e, se == copy.deepcopy(se))
    emit("cross", m.String("k", "v") == m.Preamble("v"), m.ExplicitComment("c") == m.ImplicitComment("c"),
         m.ExplicitComment("c", 1, "r") == m.ExplicitComment("c", 1, "r"),
         m.Preamble("v", 1) == m.Preamble("v", 2), m.String("k", "v", raw="a") == m.String("k", "v", raw="b"))
    err = ValueError("x")
    emit("failed", m.ParsingFailedBlock(err, 1, "r") == m.ParsingFailedBlock(err, 1, "r"),
         m.ParsingFailedBlock(err, 1, "r") == m.ParsingFailedBlock(ValueError("x"), 1, "r"))
    emit("hash", m.Field.__hash__, m.Block.__hash__, m.Entry.__hash__, safe(hash, f)[:2], safe(hash, e)[:2])
    emit("meta", m.Block.__init__.__defaults__, m.String("k", "v").parser_metadata,
         m.String("k", "v").parser_metadata is not m.String("k", "v").parser_metadata)
    md = {"x": 1}

    class B(m.Block):
        pass

    b = B(1, "r", md)
    emit("meta-id", b.parser_metadata is md, B(1, "r", {}).parser_metadata, B().parser_metadata, vars(b))
    emit("vars", list(vars(e)), list(vars(f)), list(vars(m.String("k", "v"))))


def main():
    import bibtexparser
    from bibtexparser import model as m

    rng = random.Random(19)
    all_blocks = []
    for bi, bib in enumerate(BIBS):
        lib = bibtexparser.parse_string(bib)
        emit("parse", bi, [render_block(b) for b in lib.blocks])
        all_blocks.extend(lib.blocks)
        emit("write", bi, safe(bibtexparser.write_string, lib))

    entries = [b for b in all_blocks if isinstance(b, m.Entry)]
    entries += [b.ignore_error_block for b in all_blocks
                if isinstance(b, m.ParsingFailedBlock) and isinstance(b.ignore_error_block, m.Entry)]
    # hand-made starting points, incl. empty, duplicates and case variants
    entries += [
        m.Entry("article", "empty", []),
        m.Entry("article", "dups", [m.Field("a", 1, 1), m.Field("b", 2, 2), m.Field("a", 3, 3), m.Field("A", 4)]),
        m.Entry("", "", [m.Field("", ""), m.Field("ENTRYTYPE", "shadow"), m.Field("ID", "shadow")]),
        m.Entry("misc", "uni", [m.Field("ü", "x"), m.Field("Ü", "y"), m.Field("ü", "z")]),
    ]
    emit("n-entries", len(entries))
    for ei, e in enumerate(entries):
        for rep in range(6):
            work = copy.deepcopy(e)
            apply_ops(work, rng, rng.choice([1, 3, 8, 30]), ("ops", ei, rep))
            emit("after", ei, rep, work == e, e == work, render_block(work))
        # object reuse: same entry through many rounds
        apply_ops(e, rng, 40, ("reuse", ei))

    # reserved names and KeyError payloads
    e = m.Entry("book", "K", [m.Field("a", 1)])
    for k in ["ENTRYTYPE", "ID", "a", "zz", "entrytype", "id", ""]:
        emit("reserved", k, safe(e.__getitem__, k), safe(e.get, k), safe(e.__contains__, k), safe(e.pop, k, "d"))
    emit("fields-setter")
    e.fields = (m.Field("t", 1), m.Field("u", 2))
    emit(safe(e.get, "t")[0], safe(e.__contains__, "u"), safe(e.__getitem__, "u"), safe(e.pop, "nope"),
         type(e.fields).__name__, safe(e.pop, "t")[0], type(e.fields).__name__, [render_field(f) for f in e.fields])

    equality_checks(all_blocks[:], "eq")
    equality_checks(entries[:12], "eq2")
    subclass_checks()


if __name__ == "__main__":
    try:
        main()
    except Exception:
        emit("CRASH", traceback.format_exc().splitlines()[-1].split(":")[0])
        traceback.print_exc(file=sys.stderr)
    text = "\n".join(OUT)
    print("LINES", len(OUT))
    print("DIGEST", hashlib.sha256(text.encode("utf-8", "backslashreplace")).hexdigest())
    sys.exit(0)
