"""Differential demo for the block-sorting refactoring (property C16).

Sorts a few thousand pseudo-random libraries under many type orders and both
comment modes, and prints a digest over a canonical rendering of the results.
"""
import hashlib
import itertools
import random
import sys
from copy import deepcopy

import logging

import bibtexparser
from bibtexparser.library import Library
from bibtexparser.middlewares.sorting_blocks import DEFAULT_BLOCK_TYPE_ORDER
from bibtexparser.middlewares.sorting_blocks import SortBlocksByTypeAndKeyMiddleware
from bibtexparser.model import Block
from bibtexparser.model import DuplicateBlockKeyBlock
from bibtexparser.model import DuplicateFieldKeyBlock
from bibtexparser.model import Entry
from bibtexparser.model import ExplicitComment
from bibtexparser.model import Field
from bibtexparser.model import ImplicitComment
from bibtexparser.model import MiddlewareErrorBlock
from bibtexparser.model import ParsingFailedBlock
from bibtexparser.model import Preamble
from bibtexparser.model import String

logging.disable(logging.CRITICAL)
H = hashlib.sha256()


def emit(*parts):
    H.update(("\x1f".join(str(p) for p in parts) + "\n").encode("utf-8", "surrogatepass"))


def render_block(b):
    out = [type(b).__name__, repr(b.start_line), repr(b.raw)]
    if isinstance(b, Entry):
        out += [b.entry_type, repr(b.key)]
        out += ["%r=%r@%r" % (f.key, f.value, f.start_line) for f in b.fields]
    elif isinstance(b, String):
        out += [repr(b.key), repr(b.value)]
    elif isinstance(b, Preamble):
        out += [repr(b.value)]
    elif isinstance(b, (ExplicitComment, ImplicitComment)):
        out += [repr(b.comment)]
    elif isinstance(b, ParsingFailedBlock):
        out += [type(b.error).__name__]
        if isinstance(b, DuplicateBlockKeyBlock):
            out += [repr(b.key), "prev:" + type(b.previous_block).__name__]
        if isinstance(b, DuplicateFieldKeyBlock):
            out += [repr(sorted(b.duplicate_keys))]
        ign = b.ignore_error_block
        out += ["ign:" + (type(ign).__name__ if ign is not None else "None")]
    return "|".join(out)


def render_library(lib):
    return [render_block(b) for b in lib.blocks]


KEYS = ["", "a", "b", "B", "aa", "k1", "k10", "k2", "é", "é", "ß", "Z", " a", "a "]
TYPES = (String, Preamble, Entry, ImplicitComment, ExplicitComment)


def make_block(rng, n):
    kind = rng.randrange(10)
    key = rng.choice(KEYS)
    line = rng.choice([None, n, n * 3])
    raw = rng.choice([None, "raw%d" % n, "r\r\nw{{{%d}}}" % n])
    if kind in (0, 1):
        fields = [Field("title", "{T%d}" % n, line), Field("year", str(1990 + n))][: rng.randrange(3)]
        return Entry(rng.choice(["article", "book"]), key, fields, line, raw)
    if kind in (2, 3):
        return String(key, "v%d" % n, line, raw)
    if kind == 4:
        return Preamble("p%d" % n, line, raw)
    if kind == 5:
        return ExplicitComment("ec%d" % n, line, raw)
    if kind == 6:
        return ImplicitComment("%% ic%d" % n, line, raw)
    if kind == 7:
        return ParsingFailedBlock(ValueError("boom%d" % n), line, raw)
    if kind == 8:
        return MiddlewareErrorBlock(Entry("misc", key, [], line, raw), KeyError("k"))
    e = Entry("misc", key, [Field("x", "1"), Field("x", "2")], line, raw)
    return DuplicateFieldKeyBlock({"x"}, e)


def type_orders():
    orders = []
    for r in range(0, 6):
        orders.extend(itertools.permutations(TYPES, r))
    return orders


ALL_ORDERS = type_orders()  # 326 sub-permutations


def run_case(tag, lib, order, preserve, mw=None):
    before = render_library(lib)
    before_ids = [id(b) for b in lib.blocks]
    try:
        if mw is None:
            mw = SortBlocksByTypeAndKeyMiddleware(
                block_type_order=order, preserve_comments_on_top=preserve
            )
        out = mw.transform(lib)
        res = render_library(out)
        shared = sum(1 for b in out.blocks if id(b) in set(before_ids))
        emit(tag, [t.__name__ for t in order], preserve, "OK", shared, *res)
        emit(
            "dicts",
            sorted(out.entries_dict.keys()),
            sorted(out.strings_dict.keys()),
            len(out.failed_blocks),
            len(out.comments),
        )
    except Exception as e:  # only the type goes into the digest
        emit(tag, [getattr(t, "__name__", repr(t)) for t in order], preserve, "ERR", type(e).__name__)
    after = render_library(lib)
    emit("unchanged", before == after, before_ids == [id(b) for b in lib.blocks])


def main():
    rng = random.Random(20161)
    n_cases = 0

    # 1. random libraries x random orders x both modes
    for i in range(400):
        n = rng.choice([0, 1, 2, 3, 5, 8, 13, 21])
        lib = Library([make_block(rng, j) for j in range(n)])
        for order in [DEFAULT_BLOCK_TYPE_ORDER, ()] + rng.sample(ALL_ORDERS, 4):
            for preserve in (True, False):
                run_case("rand%d" % i, lib, order, preserve)
                n_cases += 1

    # 2. one fixed odd library x ALL sub-permutations x both modes
    odd = Library(
        [
            ExplicitComment("lead1"),
            ImplicitComment("lead2"),
            Entry("article", "k", []),
            String("k", "sv"),
            Entry("article", "k", [Field("a", "dup")]),  # -> DuplicateBlockKeyBlock
            ExplicitComment("above-empty"),
            Entry("book", "", []),
            String("", "empty"),
            String("k", "dup"),  # -> DuplicateBlockKeyBlock
            Preamble("p1"),
            ImplicitComment("above-failed"),
            ParsingFailedBlock(RuntimeError("x"), 7, "@broken{"),
            Preamble("p0"),
            Entry("misc", "K", []),
            ExplicitComment("trail1"),
            ImplicitComment("trail2"),
            ExplicitComment("trail1"),
        ]
    )
    for order in ALL_ORDERS:
        for preserve in (True, False):
            run_case("odd", odd, order, preserve)
            n_cases += 1

    # 3. object reuse, list-typed orders (also mutated between calls), repeated types, subclasses
    list_order = [Entry, String]
    mw = SortBlocksByTypeAndKeyMiddleware(block_type_order=list_order)
    run_case("reuse1", odd, tuple(list_order), True, mw)
    run_case("reuse2", odd, tuple(list_order), True, mw)
    list_order.reverse()
    run_case("reuse3", odd, tuple(list_order), True, mw)
    list_order.append(Preamble)
    list_order.insert(0, ExplicitComment)
    run_case("reuse4", odd, tuple(list_order), True, mw)
    del list_order[:]
    run_case("reuse5", odd, tuple(list_order), True, mw)

    for order in [
        (Entry, Entry, String),
        (Entry, String, Entry),
        (ExplicitComment, Preamble, String, Preamble, ExplicitComment),
        (String, Entry, String, Entry),
        (ParsingFailedBlock, Entry),
        (DuplicateBlockKeyBlock, String, ParsingFailedBlock),
        (Block,),
        (MiddlewareErrorBlock, DuplicateFieldKeyBlock, ExplicitComment),
    ]:
        for preserve in (True, False):
            run_case("special", odd, order, preserve)
            for i in range(10):
                lib = Library([make_block(rng, j) for j in range(12)])
                run_case("special-r", lib, order, preserve)
                n_cases += 1

    # 4. invalid orders: exception types only
    for bad in [(int,), (Entry, str), (Field,), ("Entry",), (None,), (Entry, 3)]:
        try:
            SortBlocksByTypeAndKeyMiddleware(block_type_order=bad)
            emit("bad", "OK")
        except Exception as e:
            emit("bad", type(e).__name__)

    # 5. incomparable / unusual keys (tampered blocks): success vs error type must agree
    for keys in [(None, "a"), (1, "a"), (1, 2), (None, None), (("t",), ("s",)), (2.5, 1)]:
        e1, e2 = Entry("a", "x", []), Entry("a", "y", [])
        lib = Library([ExplicitComment("c"), e1, e2, String("s", "v")])
        e1.key, e2.key = keys
        for preserve in (True, False):
            run_case("weirdkeys", lib, DEFAULT_BLOCK_TYPE_ORDER, preserve)

    # 6. Library bookkeeping paths (add / replace / remove / duplicates)
    for i in range(150):
        blocks = [make_block(rng, j) for j in range(rng.randrange(0, 10))]
        lib = Library()
        try:
            lib.add(deepcopy(blocks), fail_on_duplicate_key=bool(i % 2))
            emit("add", "OK")
        except Exception as e:
            emit("add", type(e).__name__)
        emit("lib", *render_library(lib))
        emit("libd", sorted(lib.entries_dict), sorted(lib.strings_dict), len(lib.failed_blocks))
        cands = lib.entries + lib.strings
        if cands:
            old = rng.choice(cands)
            new = rng.choice([Entry("new", rng.choice(KEYS), []), String(rng.choice(KEYS), "nv")])
            try:
                lib.replace(old, new, fail_on_duplicate_key=bool(i % 3))
                emit("replace", "OK")
            except Exception as e:
                emit("replace", type(e).__name__)
            emit("lib", *render_library(lib))
            emit("libd", sorted(lib.entries_dict), sorted(lib.strings_dict))
        if lib.blocks:
            victim = rng.choice(lib.blocks)
            try:
                lib.remove(victim)
                emit("remove", "OK")
            except Exception as e:
                emit("remove", type(e).__name__)
            emit("libd", sorted(lib.entries_dict), sorted(lib.strings_dict), len(lib.blocks))
        run_case("afterops", lib, DEFAULT_BLOCK_TYPE_ORDER, True)
        run_case("afterops", lib, (Entry,), False)
    for bad_key in ([], {}):
        lib = Library()
        e = Entry("a", "k", [])
        e.key = bad_key
        try:
            lib.add(e)
            emit("unhashable", "OK")
        except Exception as ex:
            emit("unhashable", type(ex).__name__)

    # 7. end to end through the parser/writer, including CRLF and nested braces
    src = (
        "% leading\r\n@comment{top}\r\n@string{zz = \"Z\"}\r\n@string{aa = \"A\"}\r\n"
        "@preamble{\"pre\"}\r\n% about b\r\n@article{b, title = {{{Deep {nested}}} T}, year = 2001}\r\n"
        "@article{a, title = \"Été\"}\r\n@article{a, title = {dup}}\r\n"
        "@article{broken, title = {x\r\n@book{, title = {empty key}}\r\n% trailing\r\n"
    )
    for text in (src, src.replace("\r\n", "\n"), "", "% only a comment"):
        lib = bibtexparser.parse_string(text)
        for order in (DEFAULT_BLOCK_TYPE_ORDER, (Entry, String), ()):
            for preserve in (True, False):
                run_case("parsed", lib, order, preserve)
                mw = SortBlocksByTypeAndKeyMiddleware(order, preserve)
                try:
                    emit("written", bibtexparser.write_string(mw.transform(lib)))
                except Exception as e:
                    emit("written", type(e).__name__)

    print("cases", n_cases)
    print("DIGEST " + H.hexdigest())


if __name__ == "__main__":
    try:
        main()
    except Exception as exc:  # always exit 0
        print("demo crashed:", type(exc).__name__, exc)
        print("DIGEST crashed-" + type(exc).__name__)
    sys.exit(0)
