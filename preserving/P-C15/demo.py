"""Differential demo for the month middlewares (property C15).

Prints a deterministic digest of everything observable through the public API:
resulting month value (repr + type), the per-entry parser metadata written by the
middleware, whether the input library was left alone, and exception types (if any).
"""
import hashlib
import itertools
import logging
import random
import sys
import traceback

import bibtexparser
from bibtexparser.library import Library
from bibtexparser.middlewares.enclosing import RemoveEnclosingMiddleware
from bibtexparser.middlewares.month import MonthAbbreviationMiddleware
from bibtexparser.middlewares.month import MonthIntMiddleware
from bibtexparser.middlewares.month import MonthLongStringMiddleware
from bibtexparser.model import Entry
from bibtexparser.model import Field

FULL = ["January", "February", "March", "April", "May", "June", "July",
        "August", "September", "October", "November", "December"]
MIDDLEWARES = [MonthIntMiddleware, MonthAbbreviationMiddleware, MonthLongStringMiddleware]


def case_variants(word, limit, rng):
    if 2 ** len(word) <= limit:
        out = []
        for mask in itertools.product((0, 1), repeat=len(word)):
            out.append("".join(c.upper() if m else c.lower() for c, m in zip(word, mask)))
        return out
    out = {word, word.lower(), word.upper(), word.capitalize(), word.swapcase()}
    while len(out) < limit:
        out.add("".join(c.upper() if rng.random() < 0.5 else c.lower() for c in word))
    return sorted(out)


def build_values():
    rng = random.Random(1505)
    vals = []
    vals += list(range(-3, 17)) + [True, False, 10 ** 30, -10 ** 30]
    vals += [None, 3.0, 12.5, float("nan"), ("jan",), ["jan"], b"jan", 1 + 0j]
    for m in range(0, 15):
        for width in (1, 2, 3, 7):
            vals.append(str(m).zfill(width))
    for name in FULL:
        vals += case_variants(name[:3], 8, rng)
        vals += case_variants(name, 24, rng)
    # enclosed / padded / near misses
    for s in ("jan", "1", "March", "12", "MAY", "may"):
        vals += ["{" + s + "}", '"' + s + '"', " " + s, s + " ", s + "\n", s + "\r\n",
                 "{{" + s + "}}", s + ".", s + "#" + s, "-" + s, "+" + s]
    vals += ["", " ", "sept", "Sept.", "janu", "januar", "marc", "mayy", "ma", "j", "june1",
             "1.0", "1e0", "0x1", "1_0", "1 0", "١", "٣", "١٢", "١٣", "０５", "１２", "१२",
             "²", "³", "1²", "①", "Ⅻ", "٠", "۰۷", "7" * 5000, "0" * 5000 + "7",
             "İan", "ſep", "ſeptember", "Kan", "oKt", "DEZ", "März", "mär", "juLÝ",
             "ＪＡＮ", "ｊａｎ", "jan​", "ß", "\U0001d7d3", "NOVEMBER" * 2,
             "dec}", "{dec", "a" * 300, "\x00", "jan\x00", "\ud800"]
    return vals


def render(v):
    return "%s:%r" % (type(v).__name__, v)


def run_one(chain, value, with_month, inplace):
    entry = Entry(
        "article", "k", [Field("title", "{T}")] + ([Field("month", value)] if with_month else [])
    )
    lib = Library([entry])
    out = []
    try:
        cur = lib
        for cls in chain:
            cur = cls(allow_inplace_modification=inplace).transform(cur)
        e = cur.entries[0]
        out.append("type=%s key=%s" % (type(e).__name__, e.key))
        out.append("fields=%s" % [(f.key, render(f.value)) for f in e.fields])
        out.append("meta=%s" % sorted(
            (k, v) for k, v in e.parser_metadata.items() if k.startswith("Month")))
        orig = lib.entries[0]
        out.append("orig=%s same=%s" % (
            [(f.key, render(f.value)) for f in orig.fields], orig is e))
    except Exception as exc:  # noqa
        out.append("EXC %s" % type(exc).__name__)
    return " | ".join(out)


BIB = """@comment{x}
@string{foo = "bar"}
@article{a1, month = jan, title = {A}}\r
@article{a2, month = "FEB", title = {A}}
@article{a3, month = {March}, title = {A}}
@article{a4, month = 04, title = {A}}
@article{a5, month = 13, title = {A}}
@article{a6, month = mAy, title = {A}}
@article{a7, month = {{jun}}, title = {A}}
@article{a8, title = {no month}}
@article{a9, month = jul # "~4", title = {A}}
@article{a10, month = {}, title = {A}}
@article{a11, month = december, month = 1, title = {dup}}
@article{a12, MONTH = aug, title = {upper key}}
@article{broken, month = sep
@article{a13, month = "0012", title = {A}}
"""


def run_parse(chain, remove_enclosing):
    out = []
    try:
        stack = ([RemoveEnclosingMiddleware()] if remove_enclosing else []) + [c() for c in chain]
        lib = bibtexparser.parse_string(BIB, parse_stack=stack)
        for b in lib.blocks:
            line = "%s start=%s" % (type(b).__name__, b.start_line)
            if isinstance(b, Entry):
                line += " key=%s fields=%s meta=%s" % (
                    b.key,
                    [(f.key, render(f.value)) for f in b.fields],
                    sorted((k, v) for k, v in b.parser_metadata.items() if k.startswith("Month")),
                )
            out.append(line)
        out.append(bibtexparser.write_string(lib))
    except Exception as exc:  # noqa
        out.append("EXC %s" % type(exc).__name__)
    return "\n".join(out)


def main():
    logging.disable(logging.CRITICAL)
    h = hashlib.sha256()
    n = 0
    values = build_values()
    chains = [(c,) for c in MIDDLEWARES] + list(itertools.product(MIDDLEWARES, repeat=2))
    chains.append((MonthIntMiddleware, MonthLongStringMiddleware, MonthAbbreviationMiddleware))
    for chain in chains:
        for value in values:
            for inplace in ((True, False) if len(chain) == 1 else (True,)):
                line = "%s %s %s -> %s" % (
                    [c.__name__ for c in chain], render(value), inplace,
                    run_one(chain, value, True, inplace))
                h.update(line.encode("utf-8", "backslashreplace"))
                h.update(b"\n")
                n += 1
        line = "%s nomonth -> %s" % ([c.__name__ for c in chain], run_one(chain, None, False, True))
        h.update(line.encode("utf-8", "backslashreplace"))
        n += 1
        for remove_enclosing in (False, True):
            h.update(run_parse(chain, remove_enclosing).encode("utf-8", "backslashreplace"))
            n += 1
    # object reuse: one middleware instance over many libraries
    for cls in MIDDLEWARES:
        mw = cls()
        for value in values[:120] * 2:
            lib = Library([Entry("misc", "k", [Field("month", value)])])
            try:
                r = mw.transform(lib).entries[0].fields[0].value
                h.update(render(r).encode("utf-8", "backslashreplace"))
            except Exception as exc:  # noqa
                h.update(("EXC " + type(exc).__name__).encode())
            n += 1
    print("cases", n, "values", len(values))
    print("DIGEST " + h.hexdigest())


if __name__ == "__main__":
    try:
        main()
    except Exception:  # noqa
        traceback.print_exc()
        print("DIGEST error")
    sys.exit(0)
