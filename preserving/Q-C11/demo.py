"""Demo for the C11 behaviour-changing (but property-preserving) change.

Prints exactly two final lines:
  BEHAVIOUR <sha256>   -- rendering of what the change affects (metadata, log records, warning text)
  PROPERTY-OK <n>      -- number of property scenario checks that passed (or PROPERTY-FAIL <what>)
"""
import hashlib
import io
import logging
import random
import sys
import warnings

logging.disable(logging.NOTSET)


def _quiet_root():
    # keep stdout/stderr clean: library loggers propagate to root
    root = logging.getLogger()
    root.handlers[:] = [logging.NullHandler()]


_quiet_root()

import bibtexparser  # noqa: E402
from bibtexparser.middlewares.enclosing import RemoveEnclosingMiddleware  # noqa: E402
from bibtexparser.middlewares.interpolate import ResolveStringReferencesMiddleware  # noqa: E402
from bibtexparser.middlewares.parsestack import default_parse_stack  # noqa: E402
from bibtexparser.model import DuplicateBlockKeyBlock  # noqa: E402
from bibtexparser.model import String  # noqa: E402

META_KEY = "ResolveStringReferences"


# --------------------------------------------------------------------------- behaviour
class _Capture(logging.Handler):
    def __init__(self):
        super().__init__(level=logging.DEBUG)
        self.records = []

    def emit(self, record):
        self.records.append((record.name, record.levelname, record.getMessage()))


def behaviour_digest() -> str:
    out = io.StringIO()
    doc = (
        '@string{jname = "Journal of Things"}\n'
        "@article{one, journal = jname, month = jan, note = JNAME, year = 2020,\n"
        "  title = {jname}, publisher = missing_pub, extra = jname # jname}\n"
        "@book{two, title = {Only enclosed}, year = 1999}\n"
        "@misc{three, note = nowhere}\n"
    )
    lg = logging.getLogger("bibtexparser.middlewares.interpolate")
    cap = _Capture()
    old_level = lg.level
    lg.setLevel(logging.DEBUG)
    lg.addHandler(cap)
    try:
        lib = bibtexparser.parse_string(doc)
    finally:
        lg.removeHandler(cap)
        lg.setLevel(old_level)
    for e in lib.entries:
        meta = {k: v for k, v in sorted(e.parser_metadata.items()) if k != "removed_enclosing"}
        out.write(f"ENTRY {e.key} META {meta!r}\n")
    for rec in cap.records:
        out.write(f"LOG {rec!r}\n")

    # wrong middleware order: wording of the warning
    with warnings.catch_warnings(record=True) as rec:
        warnings.simplefilter("always")
        bibtexparser.parse_string(
            doc,
            parse_stack=[RemoveEnclosingMiddleware(), ResolveStringReferencesMiddleware()],
        )
    for w in rec:
        out.write(f"WARN {w.category.__name__} {w.message}\n")
    import bibtexparser.middlewares.interpolate as interp

    out.write(f"CONST {getattr(interp, 'UNRESOLVED_REFERENCES_KEY', None)!r}\n")
    return hashlib.sha256(out.getvalue().encode("utf-8")).hexdigest()


# --------------------------------------------------------------------------- property
KEYS = ["foo", "Bar", "jrnl", "a1", "x_y", "pub-name", "K", "longerKeyName", "é"]
UNDEFINED = ["nokey", "undefd", "jan", "ZZZ", "q1", "other_key"]
CONTENTS = [
    "Journal of Testing",
    "ünï cødé ß",
    "with {nested {deep {braces}}} inside",
    "foo",  # content equal to a key name
    "x",
    "a # b",
    "tab\tand  spaces",
    "2020",
    "",
]


def swapcase_variant(key):
    v = key.swapcase()
    return v if v != key else None


def make_scenario(rng, idx):
    """Return (document, expectations)."""
    n_defs = rng.choice([0, 0, 1, 2, 3, 4])
    def_keys = rng.sample(KEYS, n_defs)
    # first definitions
    first = {}
    string_blocks = []  # (key, content, encl, is_first)
    for k in def_keys:
        c = rng.choice(CONTENTS)
        encl = rng.choice(["{", '"'])
        first[k] = c
        string_blocks.append([k, c, encl, True])
    # duplicates (later definitions with same key, different content)
    dups = []
    for k in def_keys:
        if rng.random() < 0.35:
            dups.append([k, "DUPLICATE " + rng.choice(CONTENTS), rng.choice(["{", '"']), False])

    def render_string(k, c, encl):
        kw = rng.choice(["@string", "@STRING", "@String"])
        if encl == "{":
            return f"{kw}{{{k} = {{{c}}}}}"
        return f'{kw}{{{k} = "{c}"}}'

    # entries
    n_entries = rng.choice([1, 1, 2, 3])
    entries = []
    expectations = []  # (entry_key, [(field_key, expected_value, resolved?)])
    for ei in range(n_entries):
        ekey = f"entry{idx}_{ei}"
        nf = rng.randint(1, 7)
        fields = []
        exp = []
        for fi in range(nf):
            fkey = f"f{fi}"
            kind = rng.choice(
                ["defined", "defined", "undefined", "braced", "quoted", "case", "concat", "number"]
            )
            if kind in ("defined", "braced", "quoted", "case", "concat") and not def_keys:
                kind = rng.choice(["undefined", "number"])
            if kind == "defined":
                k = rng.choice(def_keys)
                fields.append((fkey, k))
                exp.append((fkey, first[k], True))
            elif kind == "undefined":
                k = rng.choice([u for u in UNDEFINED if u not in first])
                fields.append((fkey, k))
                exp.append((fkey, k, False))
            elif kind == "braced":
                k = rng.choice(def_keys)
                fields.append((fkey, "{" + k + "}"))
                exp.append((fkey, k, False))
            elif kind == "quoted":
                k = rng.choice(def_keys)
                fields.append((fkey, '"' + k + '"'))
                exp.append((fkey, k, False))
            elif kind == "case":
                k = rng.choice(def_keys)
                v = swapcase_variant(k)
                if v is None or v in first:
                    v = "undefd"
                fields.append((fkey, v))
                exp.append((fkey, v, False))
            elif kind == "concat":
                k = rng.choice(def_keys)
                k2 = rng.choice(def_keys)
                v = f"{k} # {k2}"
                fields.append((fkey, v))
                exp.append((fkey, v, False))
            else:
                v = str(rng.choice([0, 7, 1999, 2020, 123456789]))
                fields.append((fkey, v))
                exp.append((fkey, v, False))
        sep = rng.choice([",\n  ", ", ", ",\n\t"])
        trailing = rng.choice(["", ","])
        body = sep.join(f"{fk} = {fv}" for fk, fv in fields)
        entries.append(f"@article{{{ekey},{sep.lstrip(',')}{body}{trailing}\n}}")
        expectations.append((ekey, exp))

    # placement: each first-definition before or after the entries; dups after their firsts
    before, after = [], []
    for sb in string_blocks:
        (before if rng.random() < 0.5 else after).append(sb)
    pieces = []
    if rng.random() < 0.3:
        pieces.append("% a leading comment line")
    pieces += [render_string(k, c, e) for k, c, e, _ in before]
    ent = list(entries)
    # interleave some 'after' definitions between entries
    mid = []
    for sb in list(after):
        if rng.random() < 0.4 and len(ent) > 1:
            after.remove(sb)
            mid.append(sb)
    if mid:
        pieces.append(ent.pop(0))
        pieces += [render_string(k, c, e) for k, c, e, _ in mid]
    pieces += ent
    if rng.random() < 0.2:
        pieces.append("@preamble{\"some preamble\"}")
    pieces += [render_string(k, c, e) for k, c, e, _ in after]
    # duplicates go at the very end (after all first definitions) or, sometimes,
    # right after the first definition when that one was placed 'before'
    pieces += [render_string(k, c, e) for k, c, e, _ in dups]
    if rng.random() < 0.15:
        pieces.append("@article{broken" + str(idx) + ", title = {unclosed")
    nl = rng.choice(["\n", "\n\n", "\r\n"])
    doc = nl.join(pieces) + rng.choice(["", "\n"])
    if nl == "\r\n":
        doc = doc.replace("\r\n", "\n").replace("\n", "\r\n")
    ordered_first = [sb for sb in before + mid + after]
    return doc, expectations, first, ordered_first, dups


def check_scenario(doc, expectations, first, dups, parse_stack=None):
    with warnings.catch_warnings():
        warnings.simplefilter("ignore")
        if parse_stack is None:
            lib = bibtexparser.parse_string(doc)
        else:
            lib = bibtexparser.parse_string(doc, parse_stack=parse_stack)
    ed = lib.entries_dict
    for ekey, exp in expectations:
        if ekey not in ed:
            return f"entry {ekey} missing"
        e = ed[ekey]
        fd = e.fields_dict
        resolved = []
        for fkey, want, is_res in exp:
            if fkey not in fd:
                return f"{ekey}.{fkey} missing"
            got = fd[fkey].value
            if got != want:
                return f"{ekey}.{fkey}: got {got!r}, want {want!r}"
            if is_res:
                resolved.append(fkey)
        rec = e.parser_metadata.get(META_KEY)
        if resolved:
            if rec is None or list(rec) != resolved:
                return f"{ekey}: recorded {rec!r}, want {resolved!r}"
        else:
            if rec:
                return f"{ekey}: recorded {rec!r} but nothing should be resolved"
    # @string blocks stay in the library unchanged
    strings = lib.strings
    got = {s.key: s.value for s in strings}
    if got != first:
        return f"strings {got!r} != {first!r}"
    if set(lib.strings_dict) != set(first):
        return "strings_dict keys differ"
    for s in strings:
        if type(s) is not String or lib.strings_dict[s.key] is not s:
            return "string block identity/type"
        if s.raw is None or s.key not in s.raw:
            return "string raw lost"
    dup_blocks = [b for b in lib.blocks if isinstance(b, DuplicateBlockKeyBlock)]
    if sorted(b.key for b in dup_blocks) != sorted(k for k, _, _, _ in dups):
        return "duplicate @string blocks not kept as DuplicateBlockKeyBlock"
    return None


def property_checks():
    rng = random.Random(1103)
    n = 0
    shared_stack = default_parse_stack()
    for idx in range(420):
        doc, expectations, first, _ordered, dups = make_scenario(rng, idx)
        stack = shared_stack if idx % 5 == 0 else None  # object reuse across calls
        err = check_scenario(doc, expectations, first, dups, parse_stack=stack)
        if err:
            return n, f"scenario {idx}: {err} :: {doc!r}"
        n += 1

    # hand-written edge cases
    fixed = [
        ("", [], {}, []),
        ("   \n\n", [], {}, []),
        ("@article{e, f0 = nokey}", [("e", [("f0", "nokey", False)])], {}, []),
        (
            "@article{e, f0 = k, f1 = {k}, f2 = \"k\", f3 = K, f4 = k # k, f5 = 12}\n"
            "@string{k = {late {definition}}}\n@string{k = {second}}\n",
            [
                (
                    "e",
                    [
                        ("f0", "late {definition}", True),
                        ("f1", "k", False),
                        ("f2", "k", False),
                        ("f3", "K", False),
                        ("f4", "k # k", False),
                        ("f5", "12", False),
                    ],
                )
            ],
            {"k": "late {definition}"},
            [("k", "", "", False)],
        ),
        (
            "@string{k = \"first\"}\r\n@string{K = \"upper\"}\r\n@article{e,\r\n f0 = k,\r\n f1 = K,\r\n}\r\n",
            [("e", [("f0", "first", True), ("f1", "upper", True)])],
            {"k": "first", "K": "upper"},
            [],
        ),
        (
            "@string{k = 2020}\n@article{e, f0 = k, f1 = 2020}\n",
            [("e", [("f0", "2020", True), ("f1", "2020", False)])],
            {"k": "2020"},
            [],
        ),
    ]
    for i, (doc, expectations, first, dups) in enumerate(fixed):
        err = check_scenario(doc, expectations, first, dups)
        if err:
            return n, f"fixed {i}: {err}"
        n += 1
    return n, None


def main():
    try:
        beh = behaviour_digest()
    except Exception as exc:  # pragma: no cover
        beh = hashlib.sha256(("EXC " + repr(exc)).encode()).hexdigest()
    try:
        n, err = property_checks()
    except Exception as exc:  # pragma: no cover
        n, err = 0, f"exception {exc!r}"
    print(f"BEHAVIOUR {beh}")
    if err:
        print(f"PROPERTY-FAIL {err}")
    else:
        print(f"PROPERTY-OK {n}")
    return 0


if __name__ == "__main__":
    try:
        main()
    finally:
        sys.exit(0)
