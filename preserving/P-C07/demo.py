"""Differential demo for the C07 refactoring (middleware dispatch, string interpolation, writer).

Prints a deterministic digest of everything observable through the public API:
parsed/transformed libraries, written text, input-unchanged and no-aliasing checks, error types.
Exception messages, log messages and private names are NOT part of the digest.
"""
import hashlib
import logging
import random
import sys
import warnings
from copy import deepcopy

logging.disable(logging.CRITICAL)
warnings.simplefilter("ignore")

import bibtexparser  # noqa: E402
from bibtexparser import middlewares as m  # noqa: E402
from bibtexparser.library import Library  # noqa: E402
from bibtexparser.middlewares.middleware import BlockMiddleware  # noqa: E402
from bibtexparser.model import Block  # noqa: E402
from bibtexparser.model import Entry  # noqa: E402
from bibtexparser.model import ExplicitComment  # noqa: E402
from bibtexparser.model import Field  # noqa: E402
from bibtexparser.model import ImplicitComment  # noqa: E402
from bibtexparser.model import ParsingFailedBlock  # noqa: E402
from bibtexparser.model import Preamble  # noqa: E402
from bibtexparser.model import String  # noqa: E402
from bibtexparser.writer import BibtexFormat  # noqa: E402

OUT = []


def emit(*parts):
    OUT.append("|".join(str(p) for p in parts))


# --------------------------------------------------------------------------- rendering
def render_value(v):
    return f"{type(v).__name__}:{v!r}"


def render_block(b):
    parts = [type(b).__name__, repr(b.start_line), repr(b.raw)]
    parts.append(repr(sorted((k, render_value(v)) for k, v in b.parser_metadata.items())))
    if isinstance(b, Entry):
        parts += [repr(b.entry_type), repr(b.key)]
        parts += [f"{f.key!r}={render_value(f.value)}@{f.start_line!r}" for f in b.fields]
    elif isinstance(b, String):
        parts += [repr(b.key), render_value(b.value)]
    elif isinstance(b, Preamble):
        parts += [render_value(b.value)]
    elif isinstance(b, (ExplicitComment, ImplicitComment)):
        parts += [repr(b.comment)]
    elif isinstance(b, ParsingFailedBlock):
        parts += [type(b.error).__name__, repr(b.ignore_error_block is not None)]
    return "<" + ";".join(parts) + ">"


def render_library(lib):
    return (
        type(lib).__name__
        + "["
        + ",".join(render_block(b) for b in lib.blocks)
        + "]"
        + repr(sorted(lib.strings_dict))
        + repr(sorted(lib.entries_dict))
        + repr(len(lib.failed_blocks))
    )


def mutable_ids(lib):
    """ids of all mutable objects reachable from the blocks of a library."""
    ids = set()
    todo = list(lib.blocks)
    while todo:
        o = todo.pop()
        if isinstance(o, (str, int, float, bool, type(None), tuple, frozenset, type)):
            if isinstance(o, tuple):
                todo.extend(o)
            continue
        if id(o) in ids:
            continue
        ids.add(id(o))
        if isinstance(o, dict):
            todo.extend(o.values())
        elif isinstance(o, (list, set)):
            todo.extend(o)
        elif isinstance(o, BaseException):
            continue
        elif hasattr(o, "__dict__"):
            todo.extend(vars(o).values())
    return ids


# --------------------------------------------------------------------------- inputs
RNG = random.Random(20240707)
KEYS = ["a", "B", "müller2020", "key-1", "x:y", "Zeta", "a", "dup", "dup", "ünï", "k_9"]
FIELD_KEYS = ["author", "Author", "title", "year", "month", "editor", "url", "note", "TITLE", "x"]
VALUES = [
    "{John Doe and Jane Roe}",
    '"Doe, John"',
    "{{Deeply {nested {braces {here}}}}}",
    "2020",
    "jan",
    "{March}",
    '"12"',
    "myref",
    "other # myref",
    "{Müller, Jürgen and Ångström, Å.}",
    "{\\\"{o}ne \\& two $x^2$}",
    "{http://example.com/a_b}",
    "{}",
    '""',
    "{de la Fontaine, Jean and von Neumann, John and others}",
    "{a\n   multi-line\n value}",
    "UNDEFINED",
    "{and}",
]
STRINGS = ['@string{myref = "My Reference"}', "@string{other = {Other {T}hing}}",
           '@string{myref = "dup string"}', "@string{jan = {Januar}}", '@STRING{UNDEF = "x"}']
MISC = [
    "@preamble{\"\\newcommand{\\x}{y}\"}",
    "@comment{an explicit {comment}}",
    "some implicit comment % here",
    "% another one\n% two lines",
    "@article{broken, title = {unclosed",
    "@article{nokeyfields}",
    "@book{dupfield, title={a}, title={b}}",
    "@misc{,}",
    "@article{x y z, a = }",
    "@unknown",
    "@string{bad}",
]


def make_entry():
    typ = RNG.choice(["article", "Book", "misc", "inproceedings", "ARTICLE"])
    key = RNG.choice(KEYS)
    n = RNG.choice([0, 1, 1, 2, 3, 5])
    fkeys = RNG.sample(FIELD_KEYS, n)
    sep = RNG.choice([",\n  ", ", ", ",\r\n\t"])
    body = sep.join(f"{k} = {RNG.choice(VALUES)}" for k in fkeys)
    trail = RNG.choice(["", ","])
    if n == 0:
        return "@%s{%s%s}" % (typ, key, RNG.choice(["", ","]))
    return "@%s{%s,%s%s%s%s}" % (typ, key, RNG.choice(["", " ", "\n  "]), body, trail,
                                 RNG.choice(["", "\n"]))


def make_doc(i):
    if i == 0:
        return ""
    if i == 1:
        return "\n\n  \r\n"
    if i == 2:
        return "just a comment"
    n = RNG.choice([1, 2, 3, 4, 6, 9])
    parts = []
    for _ in range(n):
        r = RNG.random()
        if r < 0.55:
            parts.append(make_entry())
        elif r < 0.75:
            parts.append(RNG.choice(STRINGS))
        else:
            parts.append(RNG.choice(MISC))
    nl = RNG.choice(["\n", "\n\n", "\r\n", "\r\n\r\n"])
    return nl.join(parts) + RNG.choice(["", "\n", "\r\n"])


# --------------------------------------------------------------------------- middleware zoo
def middleware_factories():
    fs = []
    for inplace in (False, True):
        def add(name, fn, inplace=inplace):
            fs.append((f"{name}/inplace={inplace}", fn, inplace))

        add("ResolveStr", lambda ip: m.ResolveStringReferencesMiddleware(allow_inplace_modification=ip))
        add("RemoveEncl", lambda ip: m.RemoveEnclosingMiddleware(allow_inplace_modification=ip))
        for reuse in (False, True):
            for ints in (False, True):
                for de in ("{", '"'):
                    add(
                        f"AddEncl{reuse}{ints}{de}",
                        lambda ip, reuse=reuse, ints=ints, de=de: m.AddEnclosingMiddleware(
                            reuse_previous_enclosing=reuse,
                            enclose_integers=ints,
                            default_enclosing=de,
                            allow_inplace_modification=ip,
                        ),
                    )
        add("NormKeys", lambda ip: m.NormalizeFieldKeys(allow_inplace_modification=ip))
        add("LatexEnc", lambda ip: m.LatexEncodingMiddleware(allow_inplace_modification=ip))
        add("LatexEncKM", lambda ip: m.LatexEncodingMiddleware(
            keep_math=False, enclose_urls=True, allow_inplace_modification=ip))
        add("LatexDec", lambda ip: m.LatexDecodingMiddleware(allow_inplace_modification=ip))
        add("LatexDecKB", lambda ip: m.LatexDecodingMiddleware(
            allow_inplace_modification=ip, keep_braced_groups=True, keep_math_mode=True))
        add("MonthAbbr", lambda ip: m.MonthAbbreviationMiddleware(allow_inplace_modification=ip))
        add("MonthInt", lambda ip: m.MonthIntMiddleware(allow_inplace_modification=ip))
        add("MonthLong", lambda ip: m.MonthLongStringMiddleware(allow_inplace_modification=ip))
        add("SepCo", lambda ip: m.SeparateCoAuthors(allow_inplace_modification=ip))
        add("MergeCo", lambda ip: m.MergeCoAuthors(allow_inplace_modification=ip))
        add("SplitNP", lambda ip: m.SplitNameParts(allow_inplace_modification=ip))
        add("MergeNPlast", lambda ip: m.MergeNameParts(style="last", allow_inplace_modification=ip))
        add("MergeNPfirst", lambda ip: m.MergeNameParts(
            style="first", allow_inplace_modification=ip, name_fields=("author",)))
        add("SortAlpha", lambda ip: m.SortFieldsAlphabeticallyMiddleware(allow_inplace_modification=ip))
        add("SortCustom", lambda ip: m.SortFieldsCustomMiddleware(
            order=("title", "author"), allow_inplace_modification=ip))
        add("SortCustomCS", lambda ip: m.SortFieldsCustomMiddleware(
            order=("Author", "year"), case_sensitive=True, allow_inplace_modification=ip))
    # The block sorter never works in place
    fs.append(("SortBlocks", lambda ip: m.SortBlocksByTypeAndKeyMiddleware(), False))
    fs.append(("SortBlocksNoComments",
               lambda ip: m.SortBlocksByTypeAndKeyMiddleware(preserve_comments_on_top=False), False))
    fs.append(("SortBlocksOrder",
               lambda ip: m.SortBlocksByTypeAndKeyMiddleware(block_type_order=(Entry, String)), False))
    return fs


STACKS = [
    ["RemoveEncl", "SepCo", "SplitNP"],
    ["ResolveStr", "RemoveEncl", "LatexDec"],
    ["RemoveEncl", "NormKeys", "SortAlpha"],
    ["SortBlocks", "ResolveStr", "MonthInt"],
    ["RemoveEncl", "ResolveStr"],  # triggers the wrong-order warning
    ["RemoveEncl", "SepCo", "MergeCo"],
    ["NormKeys", "SortBlocksNoComments", "LatexEnc"],
]


# --------------------------------------------------------------------------- custom middlewares
class Odd(Block):
    """A block type unknown to the library."""


class Returning(BlockMiddleware):
    """Returns, for entries, whatever `make` yields; other blocks go through the default hooks."""

    def __init__(self, make, allow_inplace_modification):
        super().__init__(allow_inplace_modification=allow_inplace_modification)
        self.make = make

    def transform_entry(self, entry, library):
        return self.make(entry)

    def transform_implicit_comment(self, implicit_comment, library):
        return None  # drop


RETURNS = {
    "none": lambda e: None,
    "same": lambda e: e,
    "list2": lambda e: [e, ImplicitComment("after " + e.key)],
    "tuple0": lambda e: (),
    "set1": lambda e: {e} if False else [e],
    "dictkeys": lambda e: {"a": 1},
    "str": lambda e: "abc",
    "emptystr": lambda e: "",
    "int": lambda e: 3,
    "gen": lambda e: (x for x in [e]),
    "mixed": lambda e: [e, "notablock"],
    "failed": lambda e: ParsingFailedBlock(error=ValueError("x"), start_line=1, raw="@raw{\n}"),
    "odd": lambda e: Odd(start_line=0, raw="odd"),
}


# --------------------------------------------------------------------------- formats
def formats():
    res = [("none", None), ("default", BibtexFormat())]
    f = BibtexFormat(); f.value_column = "auto"; res.append(("auto", f))
    f = BibtexFormat(); f.value_column = 12; f.trailing_comma = True; f.indent = "  "
    res.append(("col12", f))
    f = BibtexFormat(); f.block_separator = "\n"; f.indent = ""
    f.parsing_failed_comment = "%% FAILED {n}"; f.value_column = 3
    res.append(("tight", f))
    f = BibtexFormat(); f.block_separator = ""; f.value_column = "auto"; f.trailing_comma = True
    res.append(("autocomma", f))
    return res


def render_format(f):
    if f is None:
        return "None"
    return repr((f.indent, f.value_column, f.block_separator, f.trailing_comma,
                 f.parsing_failed_comment))


def attempt(fn):
    try:
        return "ok", fn()
    except Exception as e:  # noqa: BLE001
        return "err:" + type(e).__name__, None


# --------------------------------------------------------------------------- main
def main():
    docs = [make_doc(i) for i in range(260)]
    factories = middleware_factories()
    by_name = {}
    for name, fn, ip in factories:
        by_name.setdefault(name.split("/")[0], fn)
    fmts = formats()

    for di, doc in enumerate(docs):
        # parsing (default stack, in place) and with an empty stack
        status, lib = attempt(lambda: bibtexparser.parse_string(doc))
        emit("parse", di, status, render_library(lib) if lib else "")
        status, raw_lib = attempt(lambda: bibtexparser.parse_string(doc, parse_stack=[]))
        emit("split", di, status, render_library(raw_lib) if raw_lib else "")
        if lib is None or raw_lib is None:
            continue

        # writing: twice, with each format; the library and the format must be left as they were
        for fname, fmt in fmts:
            before_lib, before_fmt = render_library(lib), render_format(fmt)
            s1, t1 = attempt(lambda: bibtexparser.write_string(lib, bibtex_format=fmt))
            s2, t2 = attempt(lambda: bibtexparser.write_string(lib, bibtex_format=fmt))
            emit("write", di, fname, s1, s2, repr(t1), t1 == t2,
                 before_lib == render_library(lib), before_fmt == render_format(fmt))
        s, t = attempt(lambda: bibtexparser.write_string(raw_lib, unparse_stack=[]))
        emit("write-raw", di, s, repr(t))
        s, t = attempt(lambda: bibtexparser.write_string(
            lib, prepend_middleware=[m.SortBlocksByTypeAndKeyMiddleware()]))
        emit("write-sorted", di, s, repr(t))

        # every middleware, on the parsed and on the only-split library
        chosen = factories if di % 4 == 0 else RNG.sample(factories, 8)
        for name, fn, inplace in chosen:
            for src_name, src in (("lib", lib), ("raw", raw_lib)):
                inp = deepcopy(src)
                before = render_library(inp)
                ids_before = mutable_ids(inp)
                mw = fn(inplace)
                status, out = attempt(lambda: mw.transform(inp))
                if out is None:
                    emit("mw", di, name, src_name, status, before == render_library(inp))
                    continue
                shared = len(ids_before & mutable_ids(out))
                emit("mw", di, name, src_name, status, render_library(out),
                     before == render_library(inp), out is inp,
                     shared if not inplace else "n/a")
                # the same instance again (object reuse), then write the result
                status2, out2 = attempt(lambda: mw.transform(deepcopy(src)))
                emit("mw-again", status2, render_library(out2) == render_library(out) if out2 else "")
                s, t = attempt(lambda: bibtexparser.write_string(out, unparse_stack=[]))
                emit("mw-write", s, repr(t))

        # stacks of copy-mode middlewares
        for stack in STACKS:
            inp = deepcopy(raw_lib)
            before = render_library(inp)
            ids_before = mutable_ids(inp)
            cur = inp
            status = "ok"
            for n in stack:
                status, nxt = attempt(lambda: by_name[n](False).transform(cur))
                if nxt is None:
                    break
                cur = nxt
            emit("stack", di, "+".join(stack), status, render_library(cur),
                 before == render_library(inp), len(ids_before & mutable_ids(cur)) if cur is not inp else -1)

        # custom block middlewares: all legal and illegal return shapes
        if di % 3 == 0:
            for rname, make in sorted(RETURNS.items()):
                for inplace in (False, True):
                    inp = deepcopy(lib)
                    before = render_library(inp)
                    status, out = attempt(lambda: Returning(make, inplace).transform(inp))
                    emit("custom", di, rname, inplace, status,
                         render_library(out) if out else "", before == render_library(inp))
                    if out is not None:
                        s, t = attempt(lambda: bibtexparser.write_string(out))
                        emit("custom-write", s, repr(t))

    # hand-built libraries: non-string values, unknown blocks, failed blocks, empty entry
    def hand_library(clean):
        blocks = [
            String("s1", '"val"', start_line=0, raw="r"),
            Entry("article", "k", [Field("a", "s1"), Field("b", 5), Field("d", "{x}")]
                  + ([] if clean else [Field("c", None)])),
            Entry("misc", "empty", []),
            ParsingFailedBlock(error=RuntimeError("boom"), start_line=4, raw="l1\nl2\r\nl3"),
            ExplicitComment("c"),
            # duplicate key -> DuplicateBlockKeyBlock (without raw if not clean)
            Entry("article", "k", [Field("a", "S1")], raw="@article{k,\n a = S1}" if clean else None),
        ]
        return Library(blocks)

    for clean in (True, False):
        hand = hand_library(clean)
        for name, fn, inplace in factories:
            inp = deepcopy(hand)
            before = render_library(inp)
            status, out = attempt(lambda: fn(inplace).transform(inp))
            emit("hand", clean, name, status, render_library(out) if out else "",
                 before == render_library(inp))
        for fname, fmt in fmts:
            s, t = attempt(lambda: bibtexparser.write_string(hand, bibtex_format=fmt))
            emit("hand-write", clean, fname, s, repr(t))
            s, t = attempt(lambda: bibtexparser.write_string(hand, unparse_stack=[], bibtex_format=fmt))
            emit("hand-write-raw", clean, fname, s, repr(t))
    odd_lib = Library([Entry("a", "b", [Field("x", "{y}")]), Odd(start_line=1, raw="zz")])
    s, t = attempt(lambda: bibtexparser.write_string(odd_lib))
    emit("odd-write", s)
    s, out = attempt(lambda: m.NormalizeFieldKeys(allow_inplace_modification=False).transform(odd_lib))
    emit("odd-mw", s, render_library(out) if out else "", out.blocks[1] is not odd_lib.blocks[1] if out else "")
    s, t = attempt(lambda: bibtexparser.write_string(Library()))
    emit("empty-write", s, repr(t))
    s, _ = attempt(lambda: bibtexparser.write_string(hand, unparse_stack=[], prepend_middleware=[]))
    emit("both-args", s)

    text = "\n".join(OUT)
    print("records", len(OUT), "chars", len(text))
    print("DIGEST", hashlib.sha256(text.encode("utf-8", "backslashreplace")).hexdigest())


if __name__ == "__main__":
    try:
        main()
    except Exception as exc:  # noqa: BLE001
        print("demo crashed:", type(exc).__name__, exc)
        print("DIGEST", "crash-" + type(exc).__name__)
    sys.exit(0)
