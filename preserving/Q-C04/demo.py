"""Demo for the C04 behaviour-changing-but-property-preserving change.

Prints exactly two final lines:
  BEHAVIOUR <sha256>   -- over the error reporting of failed blocks (changes)
  PROPERTY-OK <n>      -- number of passed resync scenario checks
"""
import hashlib
import logging
import random
import sys
import traceback

import bibtexparser

_root = logging.getLogger("bibtexparser")
_root.setLevel(logging.DEBUG)
_root.addHandler(logging.NullHandler())
_root.propagate = False  # keep stderr quiet; records are captured explicitly below


class _Capture(logging.Handler):
    def __init__(self):
        super().__init__(level=logging.DEBUG)
        self.records = []

    def emit(self, record):
        self.records.append((record.levelname, record.getMessage()))


def parse(s):
    return bibtexparser.parse_string(s)


# --------------------------------------------------------------------------
# Observable behaviour affected by the change
# --------------------------------------------------------------------------
MALFORMED = [
    '@article{k1, title = "abc\n@comment{x}\n',
    "@article{k2, title = {abc\n@comment{x}\n",
    "@article{k3 title = {abc}}\n@comment{x}\n",
    "@article{k4, title {abc}}\n@comment{x}\n",
    '@article{k5, title = {abc} "x" }\n@comment{x}\n',
    "@string{foo {bar}}\n@comment{x}\n",
    "@string{foo = {bar}\n@comment{x}\n",
    "@preamble{ {abc \n@comment{x}\n",
    "@comment{ {abc \n\n\n@comment{x}\n",
    "@article{k6, title = {abc},\n  year = 2000",
    "@ARTICLE {k7,\n\n title = abc\n@comment{x}\n",
]


def behaviour():
    out = []
    cap = _Capture()
    lg = logging.getLogger("bibtexparser.splitter")
    lg.addHandler(cap)
    try:
        for src in MALFORMED:
            lib = parse(src)
            for fb in lib.failed_blocks:
                err = fb.error
                out.append(
                    repr(
                        (
                            type(fb).__name__,
                            fb.start_line,
                            fb.raw,
                            getattr(err, "abort_reason", None),
                            str(err),
                            getattr(err, "args", None),
                            getattr(err, "abort_line", "<no attr>"),
                            getattr(err, "block_type", "<no attr>"),
                            sorted(fb.parser_metadata.items()),
                        )
                    )
                )
        out.append(repr([r for r in cap.records if r[0] in ("WARNING", "INFO")]))
    finally:
        lg.removeHandler(cap)
    return hashlib.sha256("\n".join(out).encode("utf-8")).hexdigest()


# --------------------------------------------------------------------------
# Property scenarios
# --------------------------------------------------------------------------
def render_block(b, line_shift=0):
    """Everything a user can see of a parsed block (start lines shifted)."""
    name = type(b).__name__
    sl = None if b.start_line is None else b.start_line - line_shift
    item = [name, sl, b.raw, sorted(b.parser_metadata.items())]
    if name in ("Entry",):
        item += [
            b.entry_type,
            b.key,
            [(f.key, f.value, None if f.start_line is None else f.start_line - line_shift) for f in b.fields],
        ]
    elif name == "String":
        item += [b.key, b.value]
    elif name == "Preamble":
        item += [b.value]
    elif name in ("ExplicitComment", "ImplicitComment"):
        item += [b.comment]
    elif name == "DuplicateFieldKeyBlock":
        e = b.ignore_error_block
        item += [
            sorted(b.duplicate_keys),
            e.entry_type,
            e.key,
            [(f.key, f.value, None if f.start_line is None else f.start_line - line_shift) for f in e.fields],
        ]
    else:
        item += ["<failed>", repr(getattr(b, "error", None))]
    return repr(item)


def render(blocks, line_shift=0):
    return [render_block(b, line_shift) for b in blocks]


def wellformed_docs(rng):
    """Well-formed documents ending in a complete block, keys unique via tag."""

    def mk(tag):
        return [
            "@article{%s_a,\n  title = {A {nested {deep {er}}} title},\n  author = \"Doe, J. and {Roe} R.\",\n  year = 2001\n}" % tag,
            "@book{%s_b, title = \"Quote {with \" inside} x\", note = {a, b = c}}" % tag,
            "@string{%s_s = \"Some {string} value\"}" % tag,
            "@string{%s_t = {braced}}" % tag,
            "@preamble{\"\\newcommand{\\x}{y} %s\"}" % tag,
            "@comment{explicit %s {with {nesting}} , = \" }" % tag,
            "@misc{%s_e}" % tag,
            "@misc{%s_u, title = {Ünicöde 中文 \U0001f600}, note = jan # \" x\"}" % tag,
            "@ARTICLE {%s_sp,\r\n  title = {crlf},\r\n  year = 1999,\r\n}" % tag,
            "@inproceedings{%s_d, title = {one}, title = {two}}" % tag,
            "@commentary{%s_c, title = {not a comment}}" % tag,
            "@online{%s_esc, url = {a\\{b}, x = \"p\\\"q\"}" % tag,
        ]

    docs = []
    for tag in ("p", "q"):
        blocks = mk(tag)
        per_tag = [[b] for b in blocks]
        for _ in range(8):
            k = rng.randint(2, 5)
            per_tag.append(rng.sample(blocks, k))
        # some with free text (implicit comments) between blocks
        per_tag.append([blocks[0], "free text, with = signs", blocks[2], "% more", blocks[1]])
        docs.append(["\n".join(d) for d in per_tag] + ["\n\n".join(d) for d in per_tag[-4:]])
    return docs  # [docs for D1, docs for D2]


TOKENS = ["{", "}", '"', ",", "=", "@", "@x{", "@string{", "@comment{", "@preamble{", "a", " ", "\n", "\\", "%", "\r\n", "é"]

VALID_FOR_CORRUPTION = [
    "@article{m_a,\n  title = {A {nested} title},\n  author = \"Doe, J.\",\n  year = 2001\n}",
    "@string{m_s = \"Some {string} value\"}",
    "@preamble{\"\\newcommand{\\x}{y}\"}",
    "@comment{explicit {with {nesting}}}",
    "@book{m_b, title = \"Quote {with \" inside} x\", note = {a, b = c}}",
]


def middles(rng):
    xs = ["", "\n", "   ", "garbage text", "}}}}", "{{{{", '"', '"{', '{"', "@", "@@@", "@article", "@article{",
          "@article{k", "@article{k,", "@article{k, t", "@article{k, t =", '@article{k, t = "', "@article{k, t = {",
          '@article{k, t = "{', '@article{k, t = "{"', "@string{", "@string{a", "@string{a =", '@string{a = "',
          "@comment{", "@comment{ {{ ", "@preamble{", '@preamble{ "x', "}\n}\n}", "= , = ,", "\\", "\\{", "\\}\\\"",
          "\r\n", "@article{k, t = {" + "{" * 200, "}" * 200, '@article{k, t = "' + '{"' * 50,
          "中文 {", "text @notablock text", "@ {", "@{", "@{}", "@x{}{", "@x{,}", "@x{,,}", "@x{=}",
          "@x{a,b}", "@x{a,b=}", '@x{a,b="}', '@x{a,b={"}']
    # every token sequence up to length 2, plus random longer ones
    for a in TOKENS:
        xs.append(a)
        for b in TOKENS:
            xs.append(a + b)
    for _ in range(150):
        n = rng.randint(3, 9)
        xs.append("".join(rng.choice(TOKENS) for _ in range(n)))
    # truncations / corruptions of valid blocks
    for v in VALID_FOR_CORRUPTION:
        for cut in range(1, len(v), 3):
            xs.append(v[:cut])
        for _ in range(15):
            i = rng.randrange(len(v))
            c = rng.choice(["{", "}", '"', ",", "=", "@", "", "\n"])
            xs.append(v[:i] + c + v[i + 1:])
    return xs


def main():
    rng = random.Random(404)
    d1s, d2s = wellformed_docs(rng)
    xs = middles(rng)
    n_ok = 0
    fails = []

    def check(cond, what):
        nonlocal n_ok
        if cond:
            n_ok += 1
        elif len(fails) < 5:
            fails.append(what)

    alone1 = {d: render(parse(d).blocks) for d in d1s}
    alone2 = {d: render(parse(d).blocks) for d in d2s}

    # sanity: documents are well-formed (no failed blocks except duplicate-field wrappers)
    for d in d1s + d2s:
        fb = [b for b in parse(d).failed_blocks if type(b).__name__ != "DuplicateFieldKeyBlock"]
        check(not fb, "doc not well-formed: %r" % d)

    for i, x in enumerate(xs):
        d1 = d1s[i % len(d1s)]
        d2 = d2s[(i * 7 + 3) % len(d2s)]

        # (1) D1 followed by arbitrary text: D1's blocks unchanged
        for sep in ("", "\n"):
            got = render(parse(d1 + sep + x).blocks)
            exp = alone1[d1]
            check(got[: len(exp)] == exp, "prefix damaged: d1=%r x=%r" % (d1, x))

        # (2) arbitrary text, then D2 at a line start: D2's blocks as on their own
        pre = x + "\n"
        shift = pre.count("\n")
        got = render(parse(pre + d2).blocks, line_shift=shift)
        exp = alone2[d2]
        check(got[-len(exp):] == exp, "suffix damaged: x=%r d2=%r" % (x, d2))

        # (3) full triple
        pre = d1 + "\n" + x + "\n"
        shift = pre.count("\n")
        blocks = parse(pre + d2).blocks
        e1, e2 = alone1[d1], alone2[d2]
        check(
            render(blocks)[: len(e1)] == e1 and render(blocks, line_shift=shift)[-len(e2):] == e2
            and len(blocks) >= len(e1) + len(e2),
            "triple damaged: d1=%r x=%r d2=%r" % (d1, x, d2),
        )

    # (4) concatenation of well-formed documents == concatenation of blocks
    for i, d1 in enumerate(d1s):
        d2 = d2s[(i * 5 + 1) % len(d2s)]
        pre = d1 + "\n"
        got = parse(pre + d2).blocks
        e1, e2 = alone1[d1], alone2[d2]
        check(
            render(got[: len(e1)]) + render(got[len(e1):], line_shift=pre.count("\n")) == e1 + e2,
            "concat differs: %r + %r" % (d1, d2),
        )

    # (5) empty document edge cases
    check(render(parse("").blocks) == [], "empty input yields blocks")
    check(render(parse("\n\n").blocks) == [], "blank input yields blocks")

    return n_ok, fails


if __name__ == "__main__":
    try:
        beh = behaviour()
    except Exception:
        traceback.print_exc()
        beh = "error"
    try:
        n_ok, fails = main()
    except Exception as exc:  # pragma: no cover
        traceback.print_exc()
        n_ok, fails = 0, ["exception: %r" % (exc,)]
    for f in fails:
        sys.stderr.write("FAIL " + f + "\n")
    print("BEHAVIOUR " + beh)
    if fails:
        print("PROPERTY-FAIL " + fails[0][:300].replace("\n", "\\n"))
    else:
        print("PROPERTY-OK %d" % n_ok)
    sys.exit(0)
