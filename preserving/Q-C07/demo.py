"""Demo for the C07 control change.

Prints exactly two final lines:
  BEHAVIOUR <sha256>   - rendering of the behaviour the change affects
  PROPERTY-OK <n>      - number of direct property checks that passed
"""
import hashlib
import logging
import random
import sys
import traceback
import warnings
from copy import deepcopy

import bibtexparser
from bibtexparser import middlewares as mw
from bibtexparser.library import Library
from bibtexparser.middlewares.middleware import BlockMiddleware
from bibtexparser.model import Block
from bibtexparser.model import Field
from bibtexparser.writer import BibtexFormat

logging.getLogger("bibtexparser").setLevel(logging.DEBUG)
logging.getLogger("bibtexparser").propagate = False
logging.getLogger("bibtexparser").addHandler(logging.NullHandler())
logging.getLogger("pylatexenc").propagate = False
logging.getLogger("pylatexenc").addHandler(logging.NullHandler())

IMMUTABLE = (str, bytes, int, float, bool, type(None), type, complex)


# --------------------------------------------------------------------------
# structural snapshot (identity-free) and reachable mutable objects
# --------------------------------------------------------------------------
def snap(o, _depth=0):
    if _depth > 60:
        return "<deep>"
    if isinstance(o, IMMUTABLE):
        return (type(o).__name__, o if not isinstance(o, type) else o.__name__)
    if isinstance(o, (list, tuple)):
        return (type(o).__name__, tuple(snap(x, _depth + 1) for x in o))
    if isinstance(o, (set, frozenset)):
        return (type(o).__name__, tuple(sorted(repr(snap(x, _depth + 1)) for x in o)))
    if isinstance(o, dict):
        return ("dict", tuple((repr(snap(k, _depth + 1)), snap(v, _depth + 1)) for k, v in o.items()))
    if isinstance(o, BaseException):
        return (
            "exc",
            type(o).__name__,
            str(o),
            snap(getattr(o, "__dict__", {}), _depth + 1),
        )
    if hasattr(o, "__dict__"):
        return ("obj", type(o).__name__, snap(vars(o), _depth + 1))
    return ("other", type(o).__name__, repr(o))


def mutable_ids(o, acc=None, _depth=0):
    """ids (with a short description) of every mutable object reachable from o."""
    if acc is None:
        acc = {}
    if isinstance(o, IMMUTABLE) or _depth > 60:
        return acc
    if isinstance(o, BaseException):
        # Error objects are used as immutables by the library (ParsingException
        # deliberately returns itself from deepcopy) and are not among the object
        # kinds the property lists (block, field, field-list, value, metadata).
        return acc
    if isinstance(o, tuple) or isinstance(o, frozenset):
        for x in o:
            mutable_ids(x, acc, _depth + 1)
        return acc
    if id(o) in acc:
        return acc
    acc[id(o)] = type(o).__name__
    if isinstance(o, (list, set)):
        for x in o:
            mutable_ids(x, acc, _depth + 1)
    elif isinstance(o, dict):
        for k, v in o.items():
            mutable_ids(k, acc, _depth + 1)
            mutable_ids(v, acc, _depth + 1)
    elif hasattr(o, "__dict__"):
        mutable_ids(vars(o), acc, _depth + 1)
    return acc


# --------------------------------------------------------------------------
# documents
# --------------------------------------------------------------------------
FIXED_DOCS = [
    "",
    "   \n\n  ",
    "just an implicit comment",
    "% percent comment\n@comment{explicit one}\n",
    "@string{jan = \"January\"}\n@string{JAN = {Januar}}\n@string{jan = {again}}\n",
    "@preamble{\"\\newcommand{\\x}{y}\"}\n",
    "@article{k1,\n author = {Doe, John and Roe, Jane},\n title = {A {Deeply {nested {brace {group}}}} title},\n year = 2020,\n month = jan\n}\n",
    "@article{k1, title = {first}}\n@article{k1, title = {second}}\n@article{k1, title = {third}}\n",
    "@article{dupfield, title = {a}, title = {b}, Title = {c}}\n",
    "@article{broken, title = {never closed\n\n@book{after, title = {fine}}\n",
    "@article{nokey}\n@article{,title={x}}\n@misc{m, note = }\n",
    "@article{crlf,\r\n  author = {M{\\\"u}ller, J\\'er\\^ome and {The Big Corp}},\r\n  title = \"Quoted {T}itle\",\r\n}\r\n\r\n@string{s = \"v\"}\r\n",
    "@article{uni, author = {Žižek, Slavoj and 山田, 太郎 and Ångström, Å.}, title = {Ünïcödé — ∑ «x»}, month = {März}}\n",
    "@article{badname, author = {Doe,, John,, Jr,, X and , and and}, editor = {A, B, C, D}}\n",
    "@article{math, title = {$E = mc^2$ and \\& 100\\% of \\url{http://x.y/~z}}, url = {http://a.b/c_d}}\n",
    "@ARTICLE{Upper, AUTHOR = {X}, Author = {Y}, author = {Z}, YEAR = 1999, Month = 12}\n",
    "@article{refs, journal = jrnl, month = mar, title = ttl # { suffix}}\n@string{jrnl = {Journal of Things}}\n@string{ttl = \"T\"}\n",
    "@comment{a}\n% b\n@article{z, x = {1}}\n% c\n@article{a, x = {2}}\n@preamble{{p}}\n@string{q = {r}}\n@article{broken2, x = {\n",
]

KEYS = ["a", "b", "B", "k1", "Zed", "ünï", "x:1", "long-key_42"]
FKEYS = ["author", "editor", "translator", "title", "Title", "year", "month", "journal", "url", "note", "x"]
NAMES = [
    "Doe, John",
    "John Doe and Jane Roe",
    "von der Heide, Jr, Anna",
    "{The Corp} and others",
    "M{\\\"u}ller, J.",
    "Žižek, S. and 山田 太郎",
    "Doe,, bad,, name,, here",
    "a, b, c, d",
    "",
    " and ",
]
VALUES = [
    "{plain}",
    "\"quoted\"",
    "{nested {braces {three {four}}}}",
    "2021",
    "jan",
    "12",
    "{December}",
    "{Ünï \\& cö\\%dé $x^2$}",
    "sref",
    "{}",
    "\"\"",
    "{line one\n  line two}",
]


def gen_doc(rng):
    parts = []
    for _ in range(rng.randint(0, 7)):
        kind = rng.random()
        if kind < 0.5:
            key = rng.choice(KEYS)
            fields = []
            for _ in range(rng.randint(0, 5)):
                fk = rng.choice(FKEYS)
                if fk in ("author", "editor", "translator"):
                    val = "{" + rng.choice(NAMES) + "}"
                else:
                    val = rng.choice(VALUES)
                fields.append(f"  {fk} = {val}")
            sep = ",\n"
            trailing = "," if rng.random() < 0.3 else ""
            parts.append(f"@{rng.choice(['article', 'Book', 'MISC'])}{{{key},\n{sep.join(fields)}{trailing}\n}}")
        elif kind < 0.62:
            parts.append(f"@string{{{rng.choice(['sref', 'jan', 's2'])} = {rng.choice(VALUES[:3])}}}")
        elif kind < 0.7:
            parts.append(f"@preamble{{{rng.choice(VALUES[:3])}}}")
        elif kind < 0.78:
            parts.append(f"@comment{{{rng.choice(['c', 'ünï', 'multi\nline'])}}}")
        elif kind < 0.86:
            parts.append(rng.choice(["% stray", "free text here", "«unicode» text"]))
        else:
            parts.append(rng.choice([
                "@article{broken, title = {unclosed",
                "@article{x, title = }",
                "@string{oops}",
                "@article{nofields",
                "@preamble{{unclosed}",
            ]))
    nl = rng.choice(["\n", "\n\n", "\r\n"])
    return nl.join(parts) + rng.choice(["", "\n", "\r\n"])


def libraries():
    rng = random.Random(7)
    docs = list(FIXED_DOCS) + [gen_doc(rng) for _ in range(60)]
    for i, doc in enumerate(docs):
        with warnings.catch_warnings():
            warnings.simplefilter("ignore")
            yield f"doc{i}/default", bibtexparser.parse_string(doc)
            if i % 3 == 0:
                # yields middleware-error blocks for the invalid names
                yield f"doc{i}/names", bibtexparser.parse_string(
                    doc, append_middleware=[mw.SeparateCoAuthors(), mw.SplitNameParts()]
                )
            if i % 3 == 1:
                yield f"doc{i}/latex", bibtexparser.parse_string(
                    doc, append_middleware=[mw.LatexDecodingMiddleware(), mw.NormalizeFieldKeys()]
                )
            if i % 3 == 2:
                yield f"doc{i}/raw", bibtexparser.parse_string(doc, parse_stack=[])


# --------------------------------------------------------------------------
# middleware (copy mode) factories
# --------------------------------------------------------------------------
FACTORIES = [
    ("RemoveEnclosing", lambda: mw.RemoveEnclosingMiddleware(allow_inplace_modification=False)),
    ("AddEnclosing{", lambda: mw.AddEnclosingMiddleware(
        reuse_previous_enclosing=False, enclose_integers=True, default_enclosing="{",
        allow_inplace_modification=False)),
    ("AddEnclosing\"reuse", lambda: mw.AddEnclosingMiddleware(
        reuse_previous_enclosing=True, enclose_integers=False, default_enclosing='"',
        allow_inplace_modification=False)),
    ("NormalizeFieldKeys", lambda: mw.NormalizeFieldKeys(allow_inplace_modification=False)),
    ("ResolveStringReferences", lambda: mw.ResolveStringReferencesMiddleware(allow_inplace_modification=False)),
    ("LatexDecoding", lambda: mw.LatexDecodingMiddleware(allow_inplace_modification=False)),
    ("LatexDecodingOpts", lambda: mw.LatexDecodingMiddleware(
        allow_inplace_modification=False, keep_braced_groups=True, keep_math_mode=True)),
    ("LatexEncoding", lambda: mw.LatexEncodingMiddleware(allow_inplace_modification=False)),
    ("LatexEncodingOpts", lambda: mw.LatexEncodingMiddleware(
        keep_math=False, enclose_urls=False, allow_inplace_modification=False)),
    ("MonthLong", lambda: mw.MonthLongStringMiddleware(allow_inplace_modification=False)),
    ("MonthAbbrev", lambda: mw.MonthAbbreviationMiddleware(allow_inplace_modification=False)),
    ("MonthInt", lambda: mw.MonthIntMiddleware(allow_inplace_modification=False)),
    ("SeparateCoAuthors", lambda: mw.SeparateCoAuthors(allow_inplace_modification=False)),
    ("SeparateCoAuthorsEd", lambda: mw.SeparateCoAuthors(allow_inplace_modification=False, name_fields=("editor",))),
    ("MergeCoAuthors", lambda: mw.MergeCoAuthors(allow_inplace_modification=False)),
    ("SplitNameParts", lambda: mw.SplitNameParts(allow_inplace_modification=False)),
    ("MergeNamePartsLast", lambda: mw.MergeNameParts(style="last", allow_inplace_modification=False)),
    ("MergeNamePartsFirst", lambda: mw.MergeNameParts(style="first", allow_inplace_modification=False)),
    ("SortFieldsAlpha", lambda: mw.SortFieldsAlphabeticallyMiddleware(allow_inplace_modification=False)),
    ("SortFieldsCustom", lambda: mw.SortFieldsCustomMiddleware(
        order=("title", "Author"), allow_inplace_modification=False)),
    ("SortFieldsCustomCS", lambda: mw.SortFieldsCustomMiddleware(
        order=("year", "Title"), case_sensitive=True, allow_inplace_modification=False)),
    ("SortBlocks", lambda: mw.SortBlocksByTypeAndKeyMiddleware()),
    ("SortBlocksNoComments", lambda: mw.SortBlocksByTypeAndKeyMiddleware(preserve_comments_on_top=False)),
    ("SortBlocksOrder", lambda: mw.SortBlocksByTypeAndKeyMiddleware(
        block_type_order=(bibtexparser.model.Entry, bibtexparser.model.String))),
]

# name pipelines that only make sense in sequence
PIPELINES = [
    ("SeparateCoAuthors", "SplitNameParts", "MergeNamePartsFirst"),
    ("SeparateCoAuthors", "MergeCoAuthors"),
    ("RemoveEnclosing", "SeparateCoAuthors", "SplitNameParts"),
    ("LatexDecoding", "LatexEncoding", "AddEnclosing{"),
    ("SortBlocks", "SortFieldsAlpha", "NormalizeFieldKeys"),
    ("ResolveStringReferences", "RemoveEnclosing", "MonthInt"),
]

checks = 0
failures = []


class _Rejected(Exception):
    pass


def check_step(label, middleware, lib_in):
    """One copy-mode transform: no aliasing, input untouched. Returns the result."""
    global checks
    before = snap(lib_in)
    in_ids = mutable_ids(lib_in)
    try:
        with warnings.catch_warnings():
            warnings.simplefilter("ignore")
            out = middleware.transform(lib_in)
    except Exception as e:
        # A middleware that rejects the library outright (e.g. MergeNameParts on
        # names that were never split) produces no result to inspect; the input
        # must still be untouched.
        if snap(lib_in) != before:
            failures.append(f"{label}: input mutated before raising {type(e).__name__}")
        raise _Rejected() from e
    if out is lib_in:
        failures.append(f"{label}: returned the input library")
        return out
    shared = set(in_ids) & set(mutable_ids(out))
    if shared:
        kinds = sorted({in_ids[i] for i in shared})
        failures.append(f"{label}: result aliases input objects of kind {kinds}")
    if snap(lib_in) != before:
        failures.append(f"{label}: input library was mutated")
    if not isinstance(out, Library):
        failures.append(f"{label}: result is not a Library")
    checks += 1
    return out


def check_write(label, lib):
    global checks
    for fmt_name, fmt in (("none", None), ("default", BibtexFormat()), ("auto", "auto"), ("custom", "custom")):
        if fmt == "auto":
            fmt = BibtexFormat()
            fmt.value_column = "auto"
            fmt.trailing_comma = True
        elif fmt == "custom":
            fmt = BibtexFormat()
            fmt.indent = "  "
            fmt.value_column = 12
            fmt.block_separator = "\n"
            fmt.parsing_failed_comment = "%% failed ({n})"
        lib_before = snap(lib)
        ids_before = mutable_ids(lib)
        fmt_before = snap(fmt)
        with warnings.catch_warnings():
            warnings.simplefilter("ignore")
            one = bibtexparser.write_string(lib, bibtex_format=fmt)
            two = bibtexparser.write_string(lib, bibtex_format=fmt)
        if one != two:
            failures.append(f"{label}/{fmt_name}: writing twice gives different text")
        if snap(lib) != lib_before or mutable_ids(lib) != ids_before:
            failures.append(f"{label}/{fmt_name}: write_string changed the library")
        if snap(fmt) != fmt_before:
            failures.append(f"{label}/{fmt_name}: write_string changed the format")
        checks += 1


def run_property_checks():
    by_name = dict(FACTORIES)
    rng = random.Random(11)
    for n, (label, lib) in enumerate(libraries()):
        check_write(label, lib)
        # every shipped middleware on a rotating subset of libraries,
        # the block sorter and two block middlewares on every library
        for j, (name, factory) in enumerate(FACTORIES):
            if name.startswith("SortBlocks") or name in ("AddEnclosing{", "NormalizeFieldKeys") or (n + j) % 4 == 0:
                try:
                    check_step(f"{label}/{name}", factory(), lib)
                except _Rejected:
                    pass
        # stacks of 2 and 3
        stacks = [PIPELINES[n % len(PIPELINES)]]
        stacks.append(tuple(rng.choice(FACTORIES)[0] for _ in range(rng.randint(2, 3))))
        for stack in stacks:
            orig_before = snap(lib)
            orig_ids = mutable_ids(lib)
            cur = lib
            try:
                for name in stack:
                    cur = check_step(f"{label}/{'+'.join(stack)}@{name}", by_name[name](), cur)
            except _Rejected:
                if snap(lib) != orig_before:
                    failures.append(f"{label}/{'+'.join(stack)}: original library mutated by a rejected stack")
                continue
            if snap(lib) != orig_before:
                failures.append(f"{label}/{'+'.join(stack)}: original library mutated by the stack")
            if set(orig_ids) & set(mutable_ids(cur)):
                failures.append(f"{label}/{'+'.join(stack)}: final result aliases the original library")
            # the result must itself be writable and reusable
            check_write(f"{label}/{'+'.join(stack)}/write", cur)


# --------------------------------------------------------------------------
# behaviour rendering
# --------------------------------------------------------------------------
class _Collect(logging.Handler):
    def __init__(self):
        super().__init__(level=logging.DEBUG)
        self.records = []

    def emit(self, record):
        self.records.append((record.name, record.levelname, record.getMessage()))


class _OddBlock(Block):
    """A user-defined block type the library does not know."""

    def __init__(self):
        super().__init__(start_line=0, raw="odd")


def behaviour():
    out = []
    doc = (
        "@article{a, title = {one}}\n@article{a, title = {two}}\n"
        "@article{f, x = {1}, x = {2}}\n@article{broken, title = {unclosed\n"
    )
    lib = bibtexparser.parse_string(doc)
    out.append(("failed-block-types", [type(b).__name__ for b in lib.failed_blocks]))

    handler = _Collect()
    log = logging.getLogger("bibtexparser.middlewares.middleware")
    log.addHandler(handler)
    try:
        for inplace in (False, True):
            res = mw.SortFieldsAlphabeticallyMiddleware(allow_inplace_modification=inplace).transform(
                deepcopy(lib)
            )
            out.append(("result-types", inplace, [type(b).__name__ for b in res.blocks]))
        # default write stack on a library with failed blocks
        out.append(("written", bibtexparser.write_string(lib)))
        # a truly unknown block type
        odd = Library()
        odd._blocks.append(_OddBlock())
        mw.NormalizeFieldKeys(allow_inplace_modification=False).transform(odd)
    finally:
        log.removeHandler(handler)
    out.append(("log-records", handler.records))
    out.append(("has-failed-block-hook", hasattr(BlockMiddleware, "transform_parsing_failed_block")))

    try:
        bibtexparser.write_string(lib, unparse_stack=[], prepend_middleware=[])
        out.append(("both-args", "no error"))
    except Exception as e:
        out.append(("both-args", type(e).__name__, str(e)))

    with warnings.catch_warnings(record=True) as caught:
        warnings.simplefilter("always")
        bibtexparser.write_string(
            lib,
            prepend_middleware=[
                mw.AddEnclosingMiddleware(
                    reuse_previous_enclosing=True,
                    enclose_integers=True,
                    default_enclosing="{",
                    allow_inplace_modification=False,
                )
            ],
        )
    out.append(("dup-warning", [(w.category.__name__, str(w.message)) for w in caught]))
    return out


def main():
    try:
        rendering = repr(behaviour())
    except Exception:
        rendering = "behaviour rendering raised:\n" + traceback.format_exc()
    digest = hashlib.sha256(rendering.encode("utf-8")).hexdigest()
    if "-v" in sys.argv:
        print(rendering)

    try:
        run_property_checks()
    except Exception:
        failures.append("unexpected exception: " + traceback.format_exc().replace("\n", " | "))

    print(f"BEHAVIOUR {digest}")
    if failures:
        print(f"PROPERTY-FAIL {failures[0]} (+{len(failures) - 1} more)")
    else:
        print(f"PROPERTY-OK {checks}")


if __name__ == "__main__":
    try:
        main()
    except BaseException:
        print("BEHAVIOUR " + hashlib.sha256(b"crash").hexdigest())
        print("PROPERTY-FAIL demo crashed")
    sys.exit(0)
