"""Demo for the C10 behaviour-changing, property-preserving change.

Prints exactly two final lines:
    BEHAVIOUR <sha256>      - differs with vs. without the change
    PROPERTY-OK <n>         - number of property scenario checks that passed
"""
import hashlib
import itertools
import random
import sys
import traceback


def _render_behaviour():
    """Render the observable behaviour the change affects (and only that)."""
    from bibtexparser.library import Library
    from bibtexparser.middlewares import enclosing as enc_mod
    from bibtexparser.middlewares.enclosing import AddEnclosingMiddleware
    from bibtexparser.model import Entry
    from bibtexparser.model import Field
    from bibtexparser.model import String

    out = []

    def attempt(label, fn):
        try:
            out.append(f"{label} -> OK {fn()!r}")
        except Exception as e:  # noqa
            out.append(f"{label} -> {type(e).__name__}: {e}")

    # 1. constructor: accepted option values / wording of the error
    for default in ["{", '"', "no-enclosing", "(", "", None, 5, ["{"]]:
        attempt(
            f"ctor default={default!r}",
            lambda d=default: type(
                AddEnclosingMiddleware(
                    reuse_previous_enclosing=True, enclose_integers=False, default_enclosing=d
                )
            ).__name__,
        )

    # 2. the new 'no-enclosing' default on an entry / string (if accepted)
    def no_enclosing_default():
        m = AddEnclosingMiddleware(
            reuse_previous_enclosing=True, enclose_integers=True, default_enclosing="no-enclosing"
        )
        e = Entry(
            "article",
            "k",
            [Field("title", "Some {T}itle"), Field("year", "1999"), Field("author", "x")],
        )
        e.parser_metadata["removed_enclosing"] = {"author": '"'}
        s = String("abc", "def")
        lib = m.transform(Library([e, s]))
        return [f.value for f in lib.entries[0].fields], lib.strings[0].value

    attempt("no-enclosing default applied", no_enclosing_default)

    # 3. introspection: repr and read-only option properties
    m = AddEnclosingMiddleware(
        reuse_previous_enclosing=False, enclose_integers=True, default_enclosing='"'
    )
    r = repr(m)
    out.append("repr is default object repr: %r" % (" object at 0x" in r))
    if " object at 0x" not in r:
        out.append("repr: " + r)
    for name in ("default_enclosing", "reuse_previous_enclosing", "enclose_integers"):
        out.append(f"attr {name}: {getattr(m, name, '<missing>')!r}")
    for name in ("NO_ENCLOSING", "SUPPORTED_DEFAULT_ENCLOSINGS"):
        out.append(f"module {name}: {getattr(enc_mod, name, '<missing>')!r}")

    # 4. unknown recorded enclosing (cannot be produced by RemoveEnclosingMiddleware)
    def unknown_metadata():
        mm = AddEnclosingMiddleware(
            reuse_previous_enclosing=True, enclose_integers=False, default_enclosing="{"
        )
        e = Entry("article", "k", [Field("title", "abc")])
        e.parser_metadata["removed_enclosing"] = {"title": "<"}
        return mm.transform(Library([e])).entries[0].fields[0].value

    attempt("unknown recorded enclosing", unknown_metadata)
    return "\n".join(out)


# --------------------------------------------------------------------------
# Property scenarios
# --------------------------------------------------------------------------

NUMERIC_KEYS = ["year", "month", "volume", "number", "pages", "edition", "chapter", "issue"]
OTHER_KEYS = ["title", "author", "note", "yeartwo"]


def _marks(v):
    """Braces / quotes the splitter sees: those not preceded by a backslash."""
    for i, c in enumerate(v):
        if c in '{}"' and not (i > 0 and v[i - 1] == "\\"):
            yield c


def _balanced(v):
    depth = 0
    for c in _marks(v):
        if c == "{":
            depth += 1
        elif c == "}":
            depth -= 1
            if depth < 0:
                return False
    return depth == 0


def _bare_quote(v):
    depth = 0
    for c in _marks(v):
        if c == "{":
            depth += 1
        elif c == "}":
            depth -= 1
        elif c == '"' and depth == 0:
            return True
    return False


def _value_pool():
    rnd = random.Random(1010)
    fixed = [
        "",
        "a",
        '"',
        "{",
        "}",
        "{}",
        '""',
        '"""',
        "{{}}",
        '{"}',
        '"{"}"',
        "{a} # {b}",
        '"a" # "b"',
        '"a" # abc # {b}',
        "abc",
        "abc # def",
        "1999",
        "{1999}",
        '"1999"',
        "0",
        "007",
        "{a {b {c {d {e}}}}}",
        '{He said "hi"}',
        '"He said {"}hi{"}"',
        "{\\\"a}",
        "{ spaced }",
        '" spaced "',
        "{äöü 中文 \U0001f600}",
        '"é{è}"',
        "{line1\r\nline2}",
        "{line1\nline2}",
        "{a,b=c}",
        '"a,b=c"',
        "{@x}",
        "{%}",
        "{#}",
        '"#"',
        "{a}{b}",
        "{" * 30 + "x" + "}" * 30,
        "١٢",  # arabic-indic digits
        "²",
    ]
    alphabet = ["a", "b", " ", "{", "}", '"', "#", "1", "2", ",", "=", "\\", "é", "x y"]
    rand = []
    for _ in range(260):
        n = rnd.randint(0, 9)
        rand.append("".join(rnd.choice(alphabet) for _ in range(n)))
    # enclosed variants of random material
    for _ in range(80):
        n = rnd.randint(0, 6)
        inner = "".join(rnd.choice(["a", " ", "{x}", '"', "1", "é", "{{y}}"]) for _ in range(n))
        rand.append(rnd.choice(["{%s}", '"%s"', "%s"]) % inner)
    seen = set()
    pool = []
    for v in fixed + rand:
        if v not in seen:
            seen.add(v)
            pool.append(v)
    return pool


def _splitter_values():
    """Values as really produced by the splitter (parse with an empty parse stack)."""
    import bibtexparser

    src = (
        "@string{abc = {x}}\n@string{s2 = \"y\" # abc}\n"
        '@article{k,\n  a = {n {e} "s" t},\n  b = "q {"} r",\n  c = abc # " - " # {z},\n'
        '  d = {},\n  e = "",\n  year = 1999,\n  f = {a} # {b},\n  g = "a" # "b",\n'
        "  h = {ä \\\"o},\r\n  i = abc\n}\n"
    )
    lib = bibtexparser.parse_string(src, parse_stack=[])
    assert not lib.failed_blocks, lib.failed_blocks
    vals = [s.value for s in lib.strings]
    for e in lib.entries:
        vals.extend(f.value for f in e.fields)
    return vals


def _expected_strip(v):
    s = v.strip()
    if s.startswith("{") and s.endswith("}"):
        return s[1:-1], "{"
    if len(s) >= 2 and s.startswith('"') and s.endswith('"'):
        return s[1:-1], '"'
    return s, "no-enclosing"


def _run_property_checks():
    import bibtexparser
    from bibtexparser.library import Library
    from bibtexparser.middlewares.enclosing import AddEnclosingMiddleware
    from bibtexparser.middlewares.enclosing import RemoveEnclosingMiddleware
    from bibtexparser.model import Entry
    from bibtexparser.model import Field
    from bibtexparser.model import String

    n = 0
    pool = _splitter_values() + _value_pool()
    combos = list(itertools.product(["{", '"'], [True, False], [True, False]))
    all_keys = NUMERIC_KEYS + OTHER_KEYS
    remover = RemoveEnclosingMiddleware()  # reused across calls on purpose
    adders = {
        c: AddEnclosingMiddleware(
            default_enclosing=c[0], reuse_previous_enclosing=c[1], enclose_integers=c[2]
        )
        for c in combos
    }

    for idx, v in enumerate(pool):
        key = all_keys[idx % len(all_keys)]
        exp_inner, exp_which = _expected_strip(v)

        # --- (A) removal strips exactly one layer and records which (field + string)
        for inplace in (True, False):
            rm = RemoveEnclosingMiddleware(allow_inplace_modification=inplace) if idx % 2 else remover
            e = Entry("article", "k", [Field(key, v), Field("zz", "{other}")])
            s = String("sk", v)
            lib = rm.transform(Library([e, s]))
            te, ts = lib.entries[0], lib.strings[0]
            assert te.fields[0].value == exp_inner, ("strip-field", v)
            assert te.parser_metadata["removed_enclosing"][key] == exp_which, ("rec-field", v)
            assert te.fields[1].value == "other"
            assert ts.value == exp_inner, ("strip-string", v)
            assert ts.parser_metadata["removed_enclosing"] == exp_which, ("rec-string", v)
            n += 1

        # --- (B) remove -> add with reuse restores the original exactly
        for c in combos:
            if not c[1]:
                continue
            e = Entry("article", "k", [Field(key, v)])
            s = String("sk", v)
            lib = remover.transform(Library([e, s]))
            lib = adders[c].transform(lib)
            assert lib.entries[0].fields[0].value == v.strip(), ("restore-field", v, c)
            assert lib.strings[0].value == v.strip(), ("restore-string", v, c)
            n += 1

        # --- (C) default enclosing + write + re-parse is one field with the same content
        if _balanced(v) and not v.endswith("\\"):
            for c in combos:
                if c[0] == '"' and _bare_quote(v):
                    continue
                e = Entry("article", "k", [Field("title", v)])
                lib = adders[c].transform(Library([e]))
                enclosed = lib.entries[0].fields[0].value
                close = "}" if c[0] == "{" else '"'
                assert enclosed == c[0] + v + close, ("enclose", v, c)
                text = bibtexparser.write_string(lib, unparse_stack=[])
                re = bibtexparser.parse_string(text, parse_stack=[])
                assert not re.failed_blocks, ("reparse-failed", v, c)
                assert len(re.entries) == 1 and len(re.entries[0].fields) == 1, ("one-field", v, c)
                f = re.entries[0].fields[0]
                assert f.key == "title"
                got = remover.transform(Library([re.entries[0]])).entries[0].fields[0].value
                assert got == v, ("same-content", v, c, got)
                n += 1

    # --- (D) integers in numeric / non-numeric fields
    int_values = ["0", "7", "1999", "007", "123456789012345678901234567890", 0, 5, 1999, 10**30]
    for iv, key, c in itertools.product(int_values, all_keys, combos):
        for with_meta in (False, True):
            e = Entry("article", "k", [Field(key, iv)])
            if with_meta:
                # what RemoveEnclosingMiddleware records for an unenclosed value
                e.parser_metadata["removed_enclosing"] = {key: "no-enclosing"}
            lib = adders[c].transform(Library([e]))
            got = lib.entries[0].fields[0].value
            close = "}" if c[0] == "{" else '"'
            if with_meta and c[1]:
                assert got == iv, ("int-reuse", iv, key, c)
            elif key in NUMERIC_KEYS and not c[2]:
                assert got == iv, ("int-unenclosed", iv, key, c, got)
            else:
                assert got == f"{c[0]}{iv}{close}", ("int-enclosed", iv, key, c, got)
            n += 1
    return n


def main():
    try:
        behaviour = _render_behaviour()
    except Exception:  # noqa
        behaviour = "RENDER-ERROR\n" + traceback.format_exc()
    digest = hashlib.sha256(behaviour.encode("utf-8")).hexdigest()
    if "-v" in sys.argv:
        print(behaviour)
    try:
        n = _run_property_checks()
        prop_line = f"PROPERTY-OK {n}"
    except AssertionError as e:
        prop_line = f"PROPERTY-FAIL {e.args!r}"
    except Exception as e:  # noqa
        prop_line = f"PROPERTY-FAIL unexpected {type(e).__name__}: {e}"
    print(f"BEHAVIOUR {digest}")
    print(prop_line)
    return 0


if __name__ == "__main__":
    try:
        main()
    finally:
        sys.exit(0)
