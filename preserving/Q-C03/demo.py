"""Demo for the C03 behaviour-changing (but property-preserving) change.

Prints exactly two final lines:
    BEHAVIOUR <sha256>      rendering of the behaviour the change affects
    PROPERTY-OK <n>         number of direct property checks that passed
"""
import hashlib
import itertools
import logging
import random
import re
import sys

logging.disable(logging.CRITICAL)

try:
    from bibtexparser.model import Entry, ParsingFailedBlock
    from bibtexparser.splitter import Splitter
except Exception as exc:  # pragma: no cover
    print("BEHAVIOUR import-error")
    print(f"PROPERTY-FAIL import: {exc!r}")
    sys.exit(0)


def blocks_of(text):
    return Splitter(text).split().blocks


# --------------------------------------------------------------------------
# Property check (literal reading of C03)
# --------------------------------------------------------------------------
def check_property(text, check_fields=False):
    """Return None if C03 holds for `text`, else a description of the failure."""
    blocks = blocks_of(text)
    pos = 0
    for n, b in enumerate(blocks):
        raw = b.raw
        if not isinstance(raw, str) or raw == "":
            return f"block {n} has no raw ({raw!r}) for {text!r}"
        idx = text.find(raw, pos)
        if idx < 0:
            return f"raw of block {n} not found at/after {pos} in {text!r}"
        gap = text[pos:idx]
        if gap.strip() != "":
            return f"non-whitespace {gap!r} skipped before block {n} in {text!r}"
        true_line = text.count("\n", 0, idx)
        if b.start_line != true_line:
            return f"block {n} start_line {b.start_line} != {true_line} in {text!r}"
        if check_fields:
            entry = b
            if isinstance(b, ParsingFailedBlock) and b.ignore_error_block is not None:
                entry = b.ignore_error_block
            if isinstance(entry, Entry):
                cursor = 0
                for f in entry.fields:
                    m = re.compile(re.escape(f.key) + r"[ \t\r\n]*=").search(raw, cursor)
                    if m is None:
                        return f"field {f.key!r} not locatable in {raw!r}"
                    cursor = m.end()
                    if "\n" not in m.group(0):
                        want = true_line + raw.count("\n", 0, m.start())
                        if f.start_line != want:
                            return (
                                f"field {f.key!r} line {f.start_line} != {want} in {text!r}"
                            )
        pos = idx + len(raw)
    tail = text[pos:]
    if tail.strip() != "":
        return f"non-whitespace tail {tail!r} dropped in {text!r}"
    return None


# --------------------------------------------------------------------------
# Inputs
# --------------------------------------------------------------------------
FIXED = [
    "",
    " ",
    "\n",
    "\n\n\n",
    "\r\n",
    "just a comment",
    "  leading and trailing  \n\n",
    "@article{k, a = {b}}",
    "@article{k}",
    "@article{k,}",
    "@article{k, a = {b}, a = {c}}",
    "@article{k, a = {b}}\n@article{k, a = {c}}",
    "@string{s = \"x\"}\n@string{s = \"y\"}",
    "@comment{hello}@preamble{\"p\"}@string{a = \"b\"}@book{x, t = 1}",
    "@comment{hello} @preamble{\"p\"} trailing @book{x, t = 1} more",
    "@article{k, a = {b}\n@article{j, c = {d}}",
    "@article{k, a = \"b\n@article{j, c = {d}}",
    "@article{k, a = {b\n@article{j, c = {d}}",
    "@article{k a = {b}}\n",
    "@article{k, a {b}}\n",
    "@article{k, a = {b} c = {d}}\n",
    "@string{k {b}}\n",
    "@string{k = {b}\n@string{j = {c}}",
    "@comment{never closed\n@article{j, c = {d}}",
    "@preamble{never closed",
    "@article{k, a = {b}",
    "@article{k, a = {b},",
    "@article{",
    "@{",
    "@",
    "@article",
    "text @article{k, a = 1} text\nmore text",
    "line ends with backslash \\\n@article{k, a = {b}}\n",
    "@article{k,\\\n a = {b\\\n},\\\n c = {d}}\\\n@book{j, e = 1}",
    "@article{k, a = {\\{}}\n@book{j, e = 1}",
    "@article{k, a = \"\\\"\"}\n@book{j, e = 1}",
    "@article{k,\r\n a = {b},\r\n c = {d}\r\n}\r\n\r\ncomment\r\n@book{j, e = 1}\r\n",
    "\r\n\r\n@article{k,\r\n a = \"b\r\n@book{j, e = 1}\r\n",
    "@article{k, t = {" + "{" * 60 + "x" + "}" * 60 + "}}\n@book{j, e = 1}",
    "@article{kä, tïtle = {Ünïcödé 中文 \U0001F600}}\n  \n@book{j, e = 1}",
    " @article{k, a = 1} ",
    "\x0c@article{k, a = 1}\x0b\n\x1c",
    "% comment\n\n\n   indented comment\n\n@article{k,\n\n a\n = {b},\n c =\n {d}}\n\n\n",
    "@ARTICLE {k, a = 1}\n@Comment\t{x}\n@commentary{z, a = 1}",
    "@article{k, a = 1}}}}\n@book{j, e = 1}",
    "@article{k, a = 1} = , \" @book{j, e = \"x\"}",
    "a = b, c = \"d\" } {\n@book{j, e = 1}",
]

TOKENS = ["@a{", "@comment{", "@string{", "k", ",", "=", "{", "}", '"', "\n", "\\\n", "\r\n", " "]


def token_sequences():
    # bounded-exhaustive: all sequences of length <= 3, and length 4 starting with a block start
    for n in range(1, 4):
        for seq in itertools.product(TOKENS, repeat=n):
            yield "".join(seq)
    for head in ("@a{", "@string{", "@comment{"):
        for seq in itertools.product(TOKENS, repeat=3):
            yield head + "".join(seq)


def random_documents(rng, count):
    for d in range(count):
        parts = []
        nl = rng.choice(["\n", "\r\n"])
        for b in range(rng.randint(1, 12)):
            kind = rng.random()
            sep = rng.choice(["", " ", nl, nl * 2, "\\" + nl, " \t" + nl])
            if kind < 0.45:
                nfields = rng.randint(0, 5)
                fields = []
                for i in range(nfields):
                    key = f"f{i}x" if rng.random() > 0.1 else "f0x"
                    eq = rng.choice([" = ", "=", " =" + nl + "  ", "\t= "])
                    val = rng.choice(
                        ["{v}", '"v"', "123", "{a {b} c}", '"a {"} b"', "{multi" + nl + "line}",
                         "{back\\" + nl + "slash}", 'abbr # "x"', "{\\\"o}"]
                    )
                    fields.append(key + eq + val)
                fsep = rng.choice(["," + nl + "  ", ", ", ","])
                body = fsep.join([f"key{d}_{b}"] + fields)
                body += rng.choice(["", ",", nl])
                block = f"@{rng.choice(['article', 'Book', 'misc '])}{{{body}}}"
                # sometimes break it
                r = rng.random()
                if r < 0.12:
                    block = block[:-1]  # unclosed
                elif r < 0.2 and "=" in block:
                    block = block.replace("=", " ", 1)
                elif r < 0.26 and '"' in block:
                    block = block.replace('"', "", 1)
            elif kind < 0.6:
                block = f"@string{{s{d}_{b % 3} = \"val{nl}ue\"}}"
            elif kind < 0.7:
                block = "@preamble{\"pre\" # {amble}}"
            elif kind < 0.8:
                block = "@comment{some {nested} comment" + nl + "}"
            else:
                block = rng.choice(
                    ["free text", "% percent comment" + nl + "second line", "stray } brace",
                     "a = b, c", "mail@example.org", "trailing backslash \\"]
                )
            parts.append(block + sep)
        yield rng.choice(["", nl, "  " + nl * 3]) + "".join(parts)


# --------------------------------------------------------------------------
# Behaviour rendering (what the change affects)
# --------------------------------------------------------------------------
BEHAVIOUR_INPUTS = [
    "@article{k, a = \"b\n@article{j, c = {d}}",
    "@article{k, a = {b}\n\n",
    "intro\n@string{k {b}}\n",
    "@article{k, a = {b},\n a = {c}}\n",
    "@article{k,\n a = {b},\n c = {d}\n}\n@comment{x\ny}",
]


def render_behaviour():
    out = []
    for text in BEHAVIOUR_INPUTS:
        for b in blocks_of(text):
            out.append(type(b).__name__)
            out.append(f"end_line={getattr(b, 'end_line', '<no attribute>')}")
            if isinstance(b, ParsingFailedBlock):
                err = b.error
                out.append(f"str(block)={str(b) if type(b).__str__ is not object.__str__ else '<default>'}")
                out.append(f"repr(block)={repr(b) if type(b).__repr__ is not object.__repr__ else '<default>'}")
                out.append(f"str(error)={str(err)}")
                out.append(f"args={err.args!r}")
                out.append(f"abort_reason={getattr(err, 'abort_reason', None)!r}")
                out.append(f"abort_line={getattr(err, 'abort_line', '<no attribute>')}")
    return "\n".join(out)


def main():
    try:
        behaviour = hashlib.sha256(render_behaviour().encode("utf-8")).hexdigest()
    except Exception as exc:
        behaviour = "error-" + hashlib.sha256(repr(exc).encode("utf-8")).hexdigest()

    ok = 0
    failure = None
    try:
        rng = random.Random(20240303)
        suites = [
            ((t, True) for t in FIXED),
            ((t, False) for t in token_sequences()),
            ((t, True) for t in random_documents(rng, 300)),
        ]
        for suite in suites:
            for text, check_fields in suite:
                res = check_property(text, check_fields)
                if res is not None:
                    failure = res
                    break
                ok += 1
            if failure:
                break
    except Exception as exc:
        failure = f"exception {exc!r}"

    print(f"BEHAVIOUR {behaviour}")
    if failure is None:
        print(f"PROPERTY-OK {ok}")
    else:
        print(f"PROPERTY-FAIL {failure[:300]}")


if __name__ == "__main__":
    try:
        main()
    except Exception as exc:  # pragma: no cover
        print("BEHAVIOUR error")
        print(f"PROPERTY-FAIL {exc!r}")
    sys.exit(0)
