"""Differential demo for the C18 behaviour-preserving refactoring of latex_encoding.py.

Prints a deterministic digest of everything observable through the public API
(block types, keys, entry types, fields, value types, values, raw, start lines, error types).
Exception message texts and private attributes are deliberately NOT part of the digest.
"""
import hashlib
import logging
import random
import sys
import traceback

logging.disable(logging.CRITICAL)

import bibtexparser
from bibtexparser.library import Library
from bibtexparser.middlewares import LatexDecodingMiddleware
from bibtexparser.middlewares import LatexEncodingMiddleware
from bibtexparser.middlewares import SeparateCoAuthors
from bibtexparser.middlewares import SplitNameParts
from bibtexparser.middlewares.names import NameParts
from bibtexparser.model import Entry
from bibtexparser.model import ExplicitComment
from bibtexparser.model import Field
from bibtexparser.model import ImplicitComment
from bibtexparser.model import ParsingFailedBlock
from bibtexparser.model import Preamble
from bibtexparser.model import String

OUT = []


def emit(*parts):
    OUT.append(" | ".join(repr(p) for p in parts))


def render_value(v):
    if isinstance(v, NameParts):
        return ("NameParts", [(a, type(getattr(v, a)).__name__, list(getattr(v, a))) for a in ("first", "von", "last", "jr")])
    if isinstance(v, list):
        return ("list", [render_value(x) for x in v])
    return (type(v).__name__, v)


def render_block(b, depth=0):
    t = type(b).__name__
    if isinstance(b, ParsingFailedBlock):
        inner = b.ignore_error_block
        return (t, b.start_line, b.raw, type(b.error).__name__,
                render_block(inner, depth + 1) if inner is not None and depth < 3 else None)
    if isinstance(b, Entry):
        return (t, b.start_line, b.raw, b.entry_type, b.key,
                [(f.key, f.start_line, render_value(f.value)) for f in b.fields])
    if isinstance(b, String):
        return (t, b.start_line, b.raw, b.key, render_value(b.value))
    if isinstance(b, Preamble):
        return (t, b.start_line, b.raw, b.value)
    if isinstance(b, (ExplicitComment, ImplicitComment)):
        return (t, b.start_line, b.raw, b.comment)
    return (t, getattr(b, "start_line", None), getattr(b, "raw", None))


def render_library(lib):
    return [render_block(b) for b in lib.blocks]


def guarded(label, fn):
    try:
        res = fn()
        emit(label, "ok", res)
    except Exception as e:  # only the type goes into the digest
        emit(label, "raised", type(e).__name__)


# ---------------------------------------------------------------- custom converters
class RaisingEncoder:
    """Raises on strings containing a trigger; optionally with an empty message."""

    def __init__(self, trigger, message):
        self.trigger, self.message = trigger, message

    def unicode_to_latex(self, s):
        if self.trigger in s:
            raise RuntimeError(self.message)
        return s.upper()


class RaisingDecoder:
    def __init__(self, trigger, message):
        self.trigger, self.message = trigger, message

    def latex_to_text(self, s):
        if self.trigger in s:
            raise KeyError(self.message) if self.message else ValueError()
        return s[::-1]


# ---------------------------------------------------------------- inputs
ALPHABETS = [
    "abcXYZ 0129",
    "äöüßéèêñçøåÅØÆæœłŁšžčřďťňğışţ",
    ".,;:!?()[]/-+=*'`",
    "&%$#_{}~\\",
    "αβγΩ→≤∞€£©§°±×÷",
    "\t \n\r\n",
    "日本語 עברית русский",
]
FIXED = [
    "", " ", "plain", "Müller and Søren", "50% of $100 & more_#1", "{Braced} {{Deep {nested {groups}}}} end",
    "$x^2 + \\alpha$ text $y_1$", "cost \\$5 and $a$", "$", "$$", "$unterminated", "a $b$ c $d",
    "http://example.com/a_b?c=d&e=f#g", "see https://ex.org/~user/%20x.", "www.example.org/path", "wwwXfoo.bar",
    "http://nodot", "ftp://x.y/z", "\\url{http://a.b/c}", "\\'e \\\"o \\ss{} \\o \\aa \\v{c} \\c{c} \\~n",
    "{\\'e}cole {\\\"U}ber", "\\textbf{bold} \\emph{it} \\unknownmacro{x}", "line1\r\nline2\nline3", "tab\there",
    "--- -- `` '' !` ?`", "a^b \"q\"", "\\", "\\\\", "{", "}", "{unbalanced", "unbalanced}", "%comment-like",
    "~tilde~", "x" * 300, "{" * 12 + "core" + "}" * 12, "É" * 40, "\u00e9 vs e\u0301", "\u200b\u00a0\ufeff", "𝒜𝔅 😀",
    "Ærøskøbing, Ångström & Łódź", "a_b^c", "1 < 2 > 0 | x", "\\begin{equation}a\\end{equation}", "\\(x\\) \\[y\\]",
]


def random_texts(rng, n):
    res = []
    for _ in range(n):
        k = rng.randint(0, 4)
        s = ""
        for _ in range(k):
            alpha = rng.choice(ALPHABETS)
            s += "".join(rng.choice(alpha) for _ in range(rng.randint(0, 8)))
            if rng.random() < 0.2:
                s += rng.choice(["$a+b$", " http://x.org/p_q ", "{G}", " www.a.b ", "\\'a"])
        res.append(s)
    return res


def make_libraries(texts):
    """Libraries built through constructors: str, NameParts and other value types, all block kinds."""
    libs = []
    rng = random.Random(1234)
    for i in range(0, len(texts), 6):
        chunk = texts[i:i + 6]
        chunk = chunk + [""] * (6 - len(chunk))
        blocks = [
            ImplicitComment(comment="implicit é % " + chunk[0], start_line=0, raw="implicit é % " + chunk[0]),
            String(key="str" + str(i), value=chunk[0], start_line=1, raw="@string{raw é}"),
            Preamble(value="pre é \\'e " + chunk[1], start_line=2, raw="@preamble{...é}"),
            ExplicitComment(comment="expl é & " + chunk[2], start_line=3, raw="@comment{é}"),
            Entry(
                entry_type="artícle&", key="kéy_%d&" % i, start_line=4 + i, raw="@article{raw é & %s}" % chunk[1],
                fields=[
                    Field(key="títle&", value=chunk[1], start_line=5),
                    Field(key="author", value=NameParts(first=[chunk[2], "Jéan"], von=[chunk[3]], last=[chunk[4], "Müller&"], jr=[]), start_line=6),
                    Field(key="editor", value=[NameParts(first=["É"], last=[chunk[5]])], start_line=7),
                    Field(key="year", value=1999 + i, start_line=8),
                    Field(key="none", value=None, start_line=9),
                    Field(key="names", value=[chunk[0], "é&"], start_line=10),
                    Field(key="abstract", value=chunk[5], start_line=11),
                ],
            ),
            String(key="intstr", value=rng.randint(0, 9), start_line=20, raw="@string{i = 3}"),
        ]
        if i % 12 == 0:
            # duplicate key -> DuplicateBlockKeyBlock in the library
            blocks.append(Entry(entry_type="book", key="kéy_%d&" % i, start_line=30, raw="dup é",
                                fields=[Field(key="title", value="dup é & " + chunk[3])]))
            blocks.append(Entry(entry_type="misc", key="emptyfields%d" % i, start_line=31, raw="", fields=[]))
        libs.append(lambda blocks=blocks: Library(blocks=[_clone(b) for b in blocks]))
    return libs


def _clone(b):
    from copy import deepcopy
    return deepcopy(b)


BIBTEX = [
    "",
    "@string{jrnl = \"Journal of Ünicode \\& Co\"}\r\n@article{k1,\r\n author = {M{\\\"u}ller, J{\\'e}an and de la Fontaine, Jr., Pierre},\r\n title = {50\\% of {$x_1$} \\& http://a.b/c_d},\r\n journal = jrnl # { suffix é},\r\n year = 2001\r\n}\r\n",
    "% stray comment é\n@comment{some é comment}\n@preamble{\"\\newcommand{\\x}{é}\"}\n@book{k2, title = {{{Deep {nested} é}}}, editor = {Ångström, Å. and others}}\n@book{k2, title = {duplicate}}\n@misc{broken, title = {unclosed\n@misc{k3, note = \"www.example.org/~u and $\\alpha_{\\beta}$\", url = {https://ex.org/a%20b#c}}\n",
    "@ARTICLE{Upper, Title = \"A \\textbf{bold} move\", AUTHOR = \"Knuth, Donald E. and {Barnes and Noble, Inc.}\", pages = {1--10}}",
]


def configs():
    enc, dec = [], []
    for kw in [dict(), dict(keep_math=True), dict(keep_math=False), dict(enclose_urls=False), dict(keep_math=False, enclose_urls=False),
               dict(keep_math=1, enclose_urls=1), dict(keep_math=0, enclose_urls="yes"), dict(allow_inplace_modification=False),
               dict(encoder=RaisingEncoder("é", "boom")), dict(encoder=RaisingEncoder("é", "")), dict(encoder=RaisingEncoder("\x00never", "x")),
               dict(encoder=RaisingEncoder("a", "boom"), allow_inplace_modification=False),
               dict(encoder=RaisingEncoder("a", "x"), keep_math=True), dict(encoder=RaisingEncoder("a", "x"), enclose_urls=False)]:
        enc.append(("enc", kw))
    for kw in [dict(), dict(keep_braced_groups=True), dict(keep_braced_groups=False), dict(keep_math_mode=False), dict(keep_math_mode=True, keep_braced_groups=True),
               dict(keep_math_mode=1), dict(keep_math_mode=0, keep_braced_groups=2), dict(keep_braced_groups="x"), dict(allow_inplace_modification=False),
               dict(decoder=RaisingDecoder("é", "boom")), dict(decoder=RaisingDecoder("é", "")), dict(decoder=RaisingDecoder("a", "boom"), allow_inplace_modification=False),
               dict(decoder=RaisingDecoder("a", "x"), keep_math_mode=False), dict(decoder=RaisingDecoder("a", "x"), keep_braced_groups=False)]:
        dec.append(("dec", kw))
    return enc, dec


def describe_kw(kw):
    return sorted((k, v if not hasattr(v, "trigger") else (type(v).__name__, v.trigger, v.message)) for k, v in kw.items())


def build(kind, kw):
    cls = LatexEncodingMiddleware if kind == "enc" else LatexDecodingMiddleware
    return cls(**kw)


def main():
    rng = random.Random(20240518)
    texts = FIXED + random_texts(rng, 260)
    emit("n_texts", len(texts))
    lib_factories = make_libraries(texts)
    enc_cfgs, dec_cfgs = configs()

    middlewares = []
    for kind, kw in enc_cfgs + dec_cfgs:
        try:
            m = build(kind, kw)
            emit("ctor", kind, describe_kw(kw), "ok", m.metadata_key(), m.allow_inplace_modification, m.allow_parallel_execution)
            middlewares.append((kind, kw, m))
        except Exception as e:
            emit("ctor", kind, describe_kw(kw), "raised", type(e).__name__)

    # 1. every middleware (object reused across calls) on constructor-built libraries
    for mi, (kind, kw, m) in enumerate(middlewares):
        for li, factory in enumerate(lib_factories):
            if (li + mi) % 4 and li > 3:
                continue  # keep the runtime low; every middleware still sees many libraries
            lib = factory()
            before = render_library(lib)

            def run(lib=lib, m=m, before=before):
                out = m.transform(lib)
                after_in = render_library(lib)
                return (render_library(out), after_in == before, [type(b).__name__ for b in out.failed_blocks])

            guarded(("ctor-lib", kind, describe_kw(kw), li), run)

    # 2. direct per-block API, incl. second application on the result (error blocks pass through)
    for kind, kw, m in middlewares[:3] + middlewares[len(enc_cfgs) - 3:len(enc_cfgs) + 3]:
        lib = lib_factories[0]()
        for b in lib.blocks:
            guarded(("block", kind, describe_kw(kw), type(b).__name__), lambda b=b, m=m, lib=lib: render_block(m.transform_block(b, lib)))
        guarded(("twice", kind, describe_kw(kw)), lambda m=m: render_library(m.transform(m.transform(lib_factories[1]()))))

    # 3. parsed libraries with name splitting, round trips under the option pairs
    for bi, bib in enumerate(BIBTEX):
        for names in (False, True):
            for ekw, dkw in [(dict(), dict()), (dict(keep_math=True, enclose_urls=True), dict(keep_math_mode=True)),
                             (dict(keep_math=False, enclose_urls=False), dict(keep_math_mode=False, keep_braced_groups=True)),
                             (dict(allow_inplace_modification=False), dict(allow_inplace_modification=False))]:
                def run(bib=bib, names=names, ekw=ekw, dkw=dkw):
                    lib = bibtexparser.parse_string(bib)
                    if names:
                        lib = SplitNameParts().transform(SeparateCoAuthors().transform(lib))
                    d = LatexDecodingMiddleware(**dkw).transform(lib)
                    r1 = render_library(d)
                    e = LatexEncodingMiddleware(**ekw).transform(d)
                    r2 = render_library(e)
                    d2 = LatexDecodingMiddleware(**dkw).transform(e)
                    return (r1, r2, render_library(d2))

                guarded(("parsed", bi, names, describe_kw(ekw), describe_kw(dkw)), run)
        guarded(("parse-stack", bi), lambda bib=bib: render_library(
            bibtexparser.parse_string(bib, append_middleware=[LatexDecodingMiddleware(), LatexEncodingMiddleware()])))

    # 4. plain text round trip through single-field entries, @string and NameParts
    for ekw, dkw in [(dict(), dict()), (dict(keep_math=True, enclose_urls=True), dict(keep_math_mode=True)), (dict(enclose_urls=False), dict())]:
        enc, dec = LatexEncodingMiddleware(**ekw), LatexDecodingMiddleware(**dkw)
        for ti, t in enumerate(texts):
            def run(t=t, enc=enc, dec=dec, ti=ti):
                lib = Library(blocks=[
                    Entry("misc", "k%d" % ti, [Field("f", t), Field("n", NameParts(first=[t], last=[t, t], von=(t,)))], start_line=ti, raw=t),
                    String(key="s", value=t, start_line=ti, raw=t),
                ])
                e = enc.transform(lib)
                r = render_library(e)
                d = dec.transform(e)
                return (r, render_library(d))

            guarded(("rt", describe_kw(ekw), describe_kw(dkw), ti), run)

    # 5. odd shapes: NameParts with non-list / broken attributes, str subclass values, write-out
    class MyStr(str):
        pass

    odd_values = [NameParts(first="abé", last=("x&", "y")), NameParts(first=None), NameParts(first=["ok&"], last=[1]),
                  NameParts(first=(s for s in ["gén&"])), MyStr("sub é&"), b"bytes", 3.5, {"a": "é"}, ("t&",)]
    for vi, v in enumerate(odd_values):
        for kind, kw in [("enc", dict()), ("dec", dict()), ("enc", dict(allow_inplace_modification=False)), ("enc", dict(encoder=RaisingEncoder("é", "b")))]:
            def run(v=v, kind=kind, kw=kw):
                from copy import deepcopy
                try:
                    vv = deepcopy(v)
                except Exception:
                    return "uncopyable"
                lib = Library(blocks=[Entry("misc", "odd", [Field("a&", "é&"), Field("v", vv), Field("z", "zé&")], start_line=3, raw="r"),
                                      String("s", vv, start_line=1, raw="sr")])
                return render_library(build(kind, kw).transform(lib))

            guarded(("odd", vi, kind, describe_kw(kw)), run)

    guarded("write", lambda: bibtexparser.write_string(LatexEncodingMiddleware().transform(lib_factories[2]()))
            if False else bibtexparser.write_string(LatexEncodingMiddleware().transform(bibtexparser.parse_string(BIBTEX[1]))))


if __name__ == "__main__":
    try:
        main()
    except BaseException:
        traceback.print_exc()
        emit("FATAL")
    data = "\n".join(OUT).encode("utf-8", "backslashreplace")
    print("records", len(OUT))
    print("DIGEST " + hashlib.sha256(data).hexdigest())
    sys.exit(0)
