"""Differential demo for the names.py / entrypoint.py refactoring (property C14).

Exercises name separation, splitting and merging (function level and through
parse_string / write_string) on generated and hand-picked inputs and prints a
deterministic digest of all observable results as the last line.
"""
import hashlib
import json
import logging
import random
import sys
import warnings

try:
    import bibtexparser
    from bibtexparser.middlewares.names import InvalidNameError
    from bibtexparser.middlewares.names import MergeCoAuthors
    from bibtexparser.middlewares.names import MergeNameParts
    from bibtexparser.middlewares.names import NameParts
    from bibtexparser.middlewares.names import SeparateCoAuthors
    from bibtexparser.middlewares.names import SplitNameParts
    from bibtexparser.middlewares.names import parse_single_name_into_parts
    from bibtexparser.middlewares.names import split_multiple_persons_names
except Exception as e:  # pragma: no cover
    print("IMPORT FAILURE", type(e).__name__)
    print("DIGEST " + hashlib.sha256(b"import-failure").hexdigest())
    sys.exit(0)

logging.disable(logging.CRITICAL)
rng = random.Random(20240914)
results = []

WORDS = [
    "AA", "BB", "CC", "DD", "bb", "dd", "von", "de", "la", "van", "der", "Jr", "III",
    "{AA BB}", "{bb cc}", "{\\'E}douard", "{\\'e}mile", "\\'Aa", "\\'aa", "{\\AA}ngstr", "{\\aa}b",
    "{{AA}}", "{a{B}c}", "1st", "{1}x", "{1}X", "A.", "b.", "Knuth", "Müller", "émile", "Élan",
    "ǅx", "ß", "李", "and", "{and}", "AND", "a~b", "A~B", "x\\\\", "Y\\\\", "\\{", "{\\}}", "-", "O'Neil",
    "{\\relax Ab}", "{\\relax ab}", "{-}a", "\\ae", "\\AE", "{\\ae}x", "{}", "{}a", "{ }", "a{,}b",
]
BAD_WORDS = ["x\\", "{", "}", "{AA", "BB}", "\\", "A\\", ",", "{\\"]
SEPS = [" ", "  ", "~", "\t", "\n", "\r\n", " ~ "]


def parts_tuple(p):
    return [list(p.first), list(p.von), list(p.last), list(p.jr)]


def try_split_name(name, strict=True):
    try:
        p = parse_single_name_into_parts(name, strict=strict)
        return ["ok", type(p).__name__, parts_tuple(p)]
    except InvalidNameError as e:
        return ["err", type(e).__name__, e.name, e.reason, isinstance(e, ValueError)]
    except Exception as e:
        return ["exc", type(e).__name__]


def try_merge(p):
    out = []
    for attr in ("merge_last_name_first", "merge_first_name_first"):
        try:
            out.append(["ok", getattr(p, attr)])
        except Exception as e:
            out.append(["exc", type(e).__name__])
    return out


def gen_name(bad=False):
    pool = WORDS + (BAD_WORDS if bad else [])
    form = rng.randrange(4)
    def words(lo, hi):
        n = rng.randint(lo, hi)
        return rng.choice(SEPS).join(rng.choice(pool) for _ in range(n))
    if form == 0:
        return words(1, 6)
    if form == 1:
        return words(1, 4) + "," + rng.choice(["", " ", "~"]) + words(1, 3)
    if form == 2:
        return words(1, 4) + ", " + words(1, 2) + ", " + words(1, 3)
    return rng.choice(["", " ", "~", "\t"]) + words(0, 5) + rng.choice(["", " ", ",", ", ", "~"])


# 1. Single names: split, merge both ways, re-split (function-level inverse pair).
single_names = [
    "", " ", "~", ",", ", ~\t", "BB,", "AA, BB, CC, DD", "AA {BB CC", "AA BB CC}", "{AA {BB CC}}}",
    "AA bb CC dd", "AA bb CC", "aa bb", "aa", "AA", "aa BB", "AA BB", "aa bb cc", "AA BB CC DD",
    "bb CC, AA", "bb CC dd EE, AA", "bb, AA", "BB,, AA", ", AA", ",, AA", "BB, , AA", "bb cc, jr, AA",
    "Donald E. Knuth", "Ludwig van Beethoven", "Beeblebrox, IV, Zaphod", "Brinch Hansen, Per",
    "de la Vall{\\'e}e~Poussin, Charles Louis Xavier Joseph", "{\\'{E}}douard Masterly",
    "Jean de La Fontaine", "jean de la fontaine", "AA\\ BB", "AA\\", "AA\\\\", "AA\\\\\\", "x\\, y",
    "{" * 30 + "AA" + "}" * 30 + " bb " + "{" * 5 + "cc" + "}" * 5 + " DD",
    "AA\r\nbb\r\nCC", "AA BB", "AA bb CC", "﻿AA bb CC", "ǅa ǆb Ǆc", "a" * 500 + " " + "B" * 500,
]
for _ in range(400):
    single_names.append(gen_name(bad=rng.random() < 0.25))

for name in single_names:
    rec = {"name": name, "strict": try_split_name(name), "lenient": try_split_name(name, strict=False)}
    for mode, strict in (("strict", True), ("lenient", False)):
        try:
            p = parse_single_name_into_parts(name, strict=strict)
        except Exception:
            continue
        merged = try_merge(p)
        rec[mode + "_merged"] = merged
        rec[mode + "_resplit"] = [
            try_split_name(m[1]) if m[0] == "ok" else None for m in merged
        ]
        # repeated call on the same input must give equal, independent objects
        q = parse_single_name_into_parts(name, strict=strict)
        rec[mode + "_again"] = [p == q, p is q, p.last is q.last]
    results.append(rec)

# 2. NameParts built directly (including odd contents).
direct_parts = [
    NameParts(),
    NameParts(last=["AA"]),
    NameParts(first=[""], last=["AA"]),
    NameParts(first=["A"], von=[""], last=[""], jr=[""]),
    NameParts(first=["A\\"], von=["b\\"], last=["C\\"], jr=["D\\\\\\"]),
    NameParts(first=["A\\\\"], last=["C\\\\"]),
    NameParts(first=["A", "B"], von=["c", "d"], last=["E", "F"], jr=["G", "H"]),
    NameParts(first=("A", "B"), last=("C",)),
    NameParts(first=None, von=None, last=["X"], jr=None),
    NameParts(first="AB", last="CD"),
    NameParts(first=[1], last=["X"]),
    NameParts(von=["von"], jr=["jr"]),
    NameParts(jr=["jr"], first=["F"]),
]
for _ in range(150):
    def pick(lo):
        return [rng.choice(WORDS + ["x\\", "Y\\\\\\"]) for _ in range(rng.randint(lo, 3))]
    direct_parts.append(NameParts(first=pick(0), von=pick(0), last=pick(rng.randint(0, 1)), jr=pick(0)))
for p in direct_parts:
    merged = try_merge(p)
    results.append(
        {
            "parts": repr(p),
            "merged": merged,
            "resplit": [try_split_name(m[1]) if m[0] == "ok" else None for m in merged],
        }
    )

# 3. Co-author separation.
multi = [
    "", "   ", "\r\n\t", "and", " and ", "AA and", "and BB", "AA and BB", "AA AND BB", "AA aNd BB",
    "AA  and\tBB", "AA\r\nand\r\nBB", "AA~and~BB", "AA and~BB", "{AA and BB}", "{AA and BB} and CC",
    "AA and {BB} and \\'CC", "AA and and BB", "AA and and and BB", "AA an and BB", "AA a and BB",
    "AA and\\ BB", "AA \\and BB", "AA and BB\\", "AA\\ and BB", "AA} and BB", "}} AA and BB", "AA and {BB",
    "AA andBB", "AAand BB", "AA and BB and CC and DD", "AA, bb and CC, dd, EE", " AA and BB ",
    "AA and BB", "AA and BB" * 50,
]
for _ in range(300):
    n = rng.randint(1, 5)
    sep = rng.choice([" and ", " AND ", "  and  ", "\nand\n", "\tand ", " and\r\n", "~and~", " and and "])
    multi.append(sep.join(gen_name(bad=rng.random() < 0.15) for _ in range(n)))
for s in multi:
    try:
        persons = split_multiple_persons_names(s)
        rec = {"names": s, "persons": persons}
        joined = " and ".join(persons)
        rec["rejoin_stable"] = split_multiple_persons_names(joined) == persons
        rec["split"] = [try_split_name(x) for x in persons]
    except Exception as e:
        rec = {"names": s, "exc": type(e).__name__}
    results.append(rec)


# 4. Through the whole stack.
def render_value(v):
    if isinstance(v, list):
        return [parts_tuple(x) if isinstance(x, NameParts) else x for x in v]
    return v


def render_library(lib):
    out = []
    for b in lib.blocks:
        rec = {"type": type(b).__name__, "start_line": b.start_line, "raw": b.raw}
        err = getattr(b, "error", None)
        if err is not None:
            rec["error_type"] = type(err).__name__
            ign = getattr(b, "ignore_error_block", None)
            if ign is not None:
                rec["inner_type"] = type(ign).__name__
                rec["inner_key"] = getattr(ign, "key", None)
        if hasattr(b, "fields"):
            rec["key"] = b.key
            rec["entry_type"] = b.entry_type
            rec["fields"] = [[f.key, render_value(f.value), f.start_line] for f in b.fields]
        out.append(rec)
    return out


def braces_balanced(s):
    level = 0
    it = iter(s)
    for c in it:
        if c == "\\":
            next(it, None)
        elif c == "{":
            level += 1
        elif c == "}":
            level -= 1
            if level < 0:
                return False
    return level == 0


docs = []
for i in range(120):
    entries = []
    for j in range(rng.randint(1, 4)):
        fields = []
        for fname in rng.sample(["author", "editor", "translator", "Author", "title", "publisher"], rng.randint(1, 4)):
            n = rng.randint(1, 4)
            val = " and ".join(gen_name(bad=rng.random() < 0.1) for _ in range(n))
            if not braces_balanced(val) or val.endswith("\\"):
                val = "AA bb CC dd and {\\'E}mile de la Roche, Jr, Jean~Paul"
            fields.append("  %s = {%s}" % (fname, val))
        nl = rng.choice(["\n", "\r\n"])
        entries.append(("@article{k%d_%d,%s" % (i, j, nl)) + ("," + nl).join(fields) + nl + "}")
    if rng.random() < 0.3:
        entries.insert(rng.randrange(len(entries) + 1), "@string{me = {AA and bb}}")
    if rng.random() < 0.3:
        entries.insert(rng.randrange(len(entries) + 1), "@comment{ AA and BB }")
    if rng.random() < 0.2:
        entries.insert(rng.randrange(len(entries) + 1), "@article{broken, author = {AA and BB")
    if rng.random() < 0.2:
        entries.append(entries[0])  # duplicate key
    docs.append(rng.choice(["\n", "\n\n", "\r\n"]).join(entries))
docs += ["", "\n", "@article{x, author = {}}", "@article{x, author = { }}", "@article{x, author = AA # { and BB}}",
         "@article{x, author = \"AA and BB\"}", "@article{x, author = 2020}", "@article{x,\n author = {BB,},\n editor = {CC}\n}"]

parse_mw = [SeparateCoAuthors(), SplitNameParts()]       # reused across calls on purpose
write_mw = [MergeNameParts(), MergeCoAuthors()]
for doc in docs:
    rec = {"doc": doc}
    try:
        with warnings.catch_warnings(record=True) as w:
            warnings.simplefilter("always")
            lib = bibtexparser.parse_string(doc, append_middleware=parse_mw)
        rec["parsed"] = render_library(lib)
        rec["parse_warnings"] = [x.category.__name__ for x in w]
        # non-inplace write first (the default middlewares below modify `lib` in place)
        out_first = bibtexparser.write_string(
            lib, prepend_middleware=[MergeNameParts(style="first", allow_inplace_modification=False),
                                     MergeCoAuthors(allow_inplace_modification=False)])
        rec["written_first"] = out_first
        rec["lib_after_first"] = render_library(lib)
        with warnings.catch_warnings(record=True) as w:
            warnings.simplefilter("always")
            out = bibtexparser.write_string(lib, prepend_middleware=write_mw)
        rec["written"] = out
        rec["write_warnings"] = [x.category.__name__ for x in w]
        rec["lib_after_write"] = render_library(lib)
        lib2 = bibtexparser.parse_string(out, append_middleware=[SeparateCoAuthors(), SplitNameParts()])
        rec["reparsed"] = render_library(lib2)
    except Exception as e:
        rec["exc"] = type(e).__name__
    results.append(rec)

# 5. Stack-building edge cases in the entrypoint (types only, no message texts).
lib = bibtexparser.parse_string("@article{x, author = {AA bb CC dd and EE, FF}}")
cases = [
    lambda: bibtexparser.write_string(lib, unparse_stack=[], prepend_middleware=[]),
    lambda: bibtexparser.write_string(lib, unparse_stack=[MergeCoAuthors()]),
    lambda: bibtexparser.write_string(lib, prepend_middleware=[]),
    lambda: bibtexparser.write_string(lib, prepend_middleware=(m for m in [MergeCoAuthors()])),
    lambda: bibtexparser.write_string(lib, prepend_middleware=[MergeCoAuthors(), MergeCoAuthors()]),
    lambda: bibtexparser.write_string(lib, unparse_stack=(m for m in [MergeCoAuthors()])),
    lambda: bibtexparser.parse_string("@article{x, author = {AA and BB}}", parse_stack=[], append_middleware=[]),
    lambda: bibtexparser.parse_string("@article{x, author = {AA and BB}}", append_middleware=[SplitNameParts()]),
    lambda: bibtexparser.parse_string("@article{x, author = {AA and BB}}",
                                      append_middleware=[SeparateCoAuthors(), SeparateCoAuthors()]),
    lambda: bibtexparser.parse_string("@article{x, author = {AA and BB}}",
                                      parse_stack=[SeparateCoAuthors(name_fields=("editor",)), MergeCoAuthors()]),
]
for fn in cases:
    try:
        with warnings.catch_warnings(record=True) as w:
            warnings.simplefilter("always")
            r = fn()
        rec = {"ok": r if isinstance(r, str) else render_library(r), "warnings": [x.category.__name__ for x in w]}
    except Exception as e:
        rec = {"exc": type(e).__name__}
    results.append(rec)

# 6. Middleware-level odd inputs.
for mw, value in [
    (SplitNameParts(), "AA and BB"),
    (MergeNameParts(), "AA"),
    (MergeNameParts(style="other"), [NameParts(last=["AA"])]),
    (MergeNameParts(style="first"), [NameParts(first=["AA"], last=["BB"])]),
    (MergeNameParts(), []),
    (MergeCoAuthors(), "AA"),
    (MergeCoAuthors(), []),
    (MergeCoAuthors(), ["AA", "BB"]),
    (SeparateCoAuthors(), ""),
    (SplitNameParts(), []),
    (SplitNameParts(), ["AA", "", "bb CC, dd"]),
]:
    try:
        r = mw._transform_field_value(value)
        rec = {"mw": mw.metadata_key(), "ok": render_value(r), "name_fields": list(mw.name_fields)}
    except Exception as e:
        rec = {"mw": mw.metadata_key(), "exc": type(e).__name__}
    results.append(rec)

canonical = json.dumps(results, sort_keys=True, ensure_ascii=True, default=repr)
print("records", len(results))
print("DIGEST " + hashlib.sha256(canonical.encode("utf-8")).hexdigest())
sys.exit(0)
