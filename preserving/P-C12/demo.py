"""Differential demo for the C12 refactoring of the co-author splitter.

Prints a deterministic digest of the observable results of the name-list
splitting / merging code paths on a few hundred varied inputs.
"""
import hashlib
import itertools
import json
import logging
import random
import sys

try:
    import bibtexparser
    from bibtexparser.middlewares import MergeCoAuthors, SeparateCoAuthors
    from bibtexparser.middlewares.names import split_multiple_persons_names
except Exception as exc:  # pragma: no cover
    print("IMPORT-ERROR", type(exc).__name__)
    print("DIGEST import-error")
    sys.exit(0)

logging.disable(logging.CRITICAL)
records = []


def record(tag, fn):
    try:
        out = fn()
    except Exception as exc:  # only the type, never the message
        out = {"error": type(exc).__name__}
    records.append([tag, out])


HAND = [
    "", " ", "\t\r\n", "and", " and ", "and and and", "A and", "and B", "A and B",
    "A AND B", "A aNd B", "A  and  B", "A\tand\nB", "A\r\nand\r\nB", "A and\\'Etienne B",
    "A and \\'Etienne B", "A and \\", "A and \\ B", "\\", "\\\\ and \\\\", "A\\ and B",
    "A \\and B", "A and\\ B", "{A and B}", "{A} and {B}", "A and {B and C} and D",
    "A and }B", "A and } and B", "}{ and }{", "{{{A and B}}} and C", "{A and B",
    "A and B}", "A~and~B", "A ~and B", "A and~ B", "A~and B and C", "an d", "A an d B",
    "A a and B", "A an and B", "A an  and B", "A a nd B", "A andand B", "A and and B",
    "A and  and  B", "A and and and B", "Anders and Andrea", "Band and Sand",
    "A, B and C, D", "A ,and, B", "A and, B", "A ,and B", "é and ü", "Ünal and Ærø and 李 四",
    "A and B", "A and B", "A\x0band\x0bB", "A\x0cand B", " A and B ",
    "\nA and B\n", "A and B and", "A and B and ", "and A and B", " and A", "A and {",
    "A and {}", "A and \\{ and B", "{\\} and B} and C", "{\\{} and C", "A and\tB\tand\nC",
    "Donald E. Knuth and Leslie Lamport", "{Simon and Schuster}",
    "A " + "and " * 20 + "B", "{" * 50 + "A and B" + "}" * 50 + " and C",
    " and ".join("Name%d Sur%d" % (i, i) for i in range(200)),
]

for s in HAND:
    record(["split", s], lambda s=s: split_multiple_persons_names(s))

TOKENS = ["A", "and", "AND", "an", "d", " ", "\t", "\n", "~", "{", "}", "\\", ",", "\\'E"]
for length in (1, 2, 3):
    for seq in itertools.product(TOKENS, repeat=length):
        s = "".join(seq)
        record(["tok", s], lambda s=s: split_multiple_persons_names(s))

rnd = random.Random(12)
for _ in range(600):
    s = "".join(rnd.choice(TOKENS + ["é", "\r\n", "Bo", "And"]) for _ in range(rnd.randint(4, 40)))

    def run(s=s):
        pieces = split_multiple_persons_names(s)
        again = split_multiple_persons_names(" and ".join(pieces))
        return [pieces, again]

    record(["rnd", s], run)


class MyStr(str):
    pass


record(["subclass"], lambda: [type(p).__name__ for p in split_multiple_persons_names(MyStr("A and B"))])
record(["nonstr-list"], lambda: split_multiple_persons_names(["A and B"]))
record(["nonstr-none"], lambda: split_multiple_persons_names(None))
record(["nonstr-bytes"], lambda: split_multiple_persons_names(b"A and B"))

# Through the middlewares / public entry points (object reuse across calls).
BIB = r"""
@article{k1, author = {A and \'Etienne B and {C and D}}, editor = "E AND F", title = {X and Y}}
@book{k2, author = {}, translator = { and }, editor = {G~and~H and I}}
@comment{ignored and kept}
@string{s = "P and Q"}
@article{k3, author = s # " and R", year = 2000}
@article{k1, author = {dup and key}}
@article{broken, author = {A and B
@misc{k4, author = {A and B}, AUTHOR = {C and D}}
"""
sep = SeparateCoAuthors()
mer = MergeCoAuthors()


def render(lib):
    out = []
    for b in lib.blocks:
        row = {"type": type(b).__name__, "start_line": b.start_line, "raw": b.raw}
        if hasattr(b, "key"):
            row["key"] = b.key
        if hasattr(b, "fields"):
            row["fields"] = [[f.key, f.value if isinstance(f.value, (str, list)) else repr(f.value)] for f in b.fields]
        err = getattr(b, "error", None)
        if err is not None:
            row["error"] = type(err).__name__
        out.append(row)
    return out


for rounds in range(2):
    record(["lib-sep", rounds], lambda: render(bibtexparser.parse_string(BIB, append_middleware=[sep])))
    record(["lib-sep-merge", rounds], lambda: render(bibtexparser.parse_string(BIB, append_middleware=[sep, mer])))
    record(
        ["lib-sep-noinplace", rounds],
        lambda: render(
            bibtexparser.parse_string(
                BIB, append_middleware=[SeparateCoAuthors(allow_inplace_modification=False, name_fields=("title",))]
            )
        ),
    )
record(["merge-plain"], lambda: mer._transform_field_value("already a string"))
record(["merge-list"], lambda: mer._transform_field_value(["A", "B", "C"]))
record(["merge-empty"], lambda: mer._transform_field_value([]))

blob = json.dumps(records, ensure_ascii=True, sort_keys=True).encode()
print("records", len(records))
print("DIGEST", hashlib.sha256(blob).hexdigest())
sys.exit(0)
