"""Demo for the C15 seed: month middleware metadata / logging changes."""
import hashlib
import itertools
import logging
import sys

try:
    sys.set_int_max_str_digits(4300)
except AttributeError:
    pass

from bibtexparser.library import Library
from bibtexparser.middlewares.month import MonthAbbreviationMiddleware
from bibtexparser.middlewares.month import MonthIntMiddleware
from bibtexparser.middlewares.month import MonthLongStringMiddleware
from bibtexparser.model import Entry
from bibtexparser.model import Field

ABBR = ["jan", "feb", "mar", "apr", "may", "jun", "jul", "aug", "sep", "oct", "nov", "dec"]
FULL = ["January", "February", "March", "April", "May", "June", "July", "August",
        "September", "October", "November", "December"]
MWS = [MonthIntMiddleware, MonthAbbreviationMiddleware, MonthLongStringMiddleware]
_NO = object()


class _Capture(logging.Handler):
    def __init__(self):
        super().__init__(level=logging.DEBUG)
        self.records = []

    def emit(self, record):
        try:
            self.records.append((record.name, record.levelname, record.getMessage()))
        except Exception as e:  # pragma: no cover
            self.records.append((record.name, record.levelname, "<unformattable %s>" % type(e).__name__))


CAP = _Capture()
_root = logging.getLogger("bibtexparser")
_root.addHandler(CAP)
_root.setLevel(logging.DEBUG)
_root.propagate = False


def mk(value=_NO):
    fields = [Field("title", "T"), Field("year", "2020")]
    if value is not _NO:
        fields.insert(1, Field("month", value))
    return Entry("article", "k", fields)


def run(mw_classes, value=_NO, inplace=True):
    lib = Library([mk(value)])
    for c in mw_classes:
        lib = c(allow_inplace_modification=inplace).transform(lib)
    e = lib.entries[0]
    return e


def expected(cls, m):
    if cls is MonthIntMiddleware:
        return m
    if cls is MonthAbbreviationMiddleware:
        return ABBR[m - 1]
    return FULL[m - 1]


def same(a, b):
    return type(a) is type(b) and a == b


def case_variants(word):
    for bits in itertools.product((0, 1), repeat=len(word)):
        yield "".join(ch.upper() if b else ch.lower() for ch, b in zip(word, bits))


def property_checks():
    n = 0
    for m in range(1, 13):
        spellings = [m, str(m), "0" + str(m), "000" + str(m)]
        spellings += list(case_variants(ABBR[m - 1]))
        spellings += list(case_variants(FULL[m - 1]))
        for sp in spellings:
            for inplace in (True, False):
                for c in MWS:
                    got = run([c], sp, inplace).fields_dict["month"].value
                    if not same(got, expected(c, m)):
                        return n, "single %s on %r -> %r" % (c.__name__, sp, got)
                    n += 1
        # composition: all ordered pairs, on a subset of spellings (all for short ones)
        for sp in spellings[:4] + list(case_variants(ABBR[m - 1])) + [FULL[m - 1], FULL[m - 1].upper(), FULL[m - 1].lower()]:
            for a in MWS:
                for b in MWS:
                    got = run([a, b], sp).fields_dict["month"].value
                    alone = run([b], sp).fields_dict["month"].value
                    if not (same(got, alone) and same(got, expected(b, m))):
                        return n, "compose %s->%s on %r -> %r" % (a.__name__, b.__name__, sp, got)
                    n += 1
    # non-month values: unchanged, same type
    others = [0, 13, -1, 100, 10 ** 30, "0", "00", "13", "013", "99", "-1", "1.0", "+1", " 1", "1 ",
              "{jan}", '"jan"', '"1"', "{1}", '"November"', "{March}", "", " ", "janu", "ja", "sept",
              "foo", "spring", "Januar", "jan.", "jan feb", "jän", "²", "١٣",
              "1e0", "0x1", "1_0", "\r\n", "may be", "{{may}}", 1.0, 13.5, None, ("jan",), False]
    for v in others:
        for inplace in (True, False):
            for c in MWS:
                e = run([c], v, inplace)
                got = e.fields_dict["month"].value
                if not same(got, v):
                    return n, "non-month %r changed by %s to %r" % (v, c.__name__, got)
                n += 1
        for a in MWS:
            for b in MWS:
                got = run([a, b], v).fields_dict["month"].value
                if not same(got, v):
                    return n, "non-month %r changed by %s->%s" % (v, a.__name__, b.__name__)
                n += 1
    # entries without month: unchanged
    for inplace in (True, False):
        for c in MWS:
            before = mk()
            e = run([c], _NO, inplace)
            if [(f.key, f.value) for f in e.fields] != [(f.key, f.value) for f in before.fields] or \
                    e.key != before.key or e.entry_type != before.entry_type or "month" in e.fields_dict:
                return n, "entry without month changed by %s" % c.__name__
            n += 1
    # no exception on arbitrary unicode / odd values
    odd = ["١", "١٢", "٣", "¹", "²³", "①", "₁", "１",
           "１２", "\U0001d7d0", "१२", "9" * 5000, "0" * 5000 + "7", "١" * 4000,
           "\x00", "\ud800", "JaN", "İan", "ſep", "maı", "\U0001f600", "a" * 10000,
           "৴", "༪", "〇", "十", "Ⅷ"]
    for v in odd:
        for c in MWS:
            try:
                run([c], v)
                run([c, MWS[0]], v, False)
            except Exception as ex:  # noqa
                return n, "raised %s on %r with %s" % (type(ex).__name__, v[:20], c.__name__)
            n += 1
    return n, None


def behaviour():
    CAP.records.clear()
    out = []
    samples = [13, 0, "13", "00", "99", -4, 7, "7", "07", "jan", "JAN", "march", "March", "MAY", "may",
               "{jan}", "foo", "١٣", "٣"]
    for v in samples:
        for c in MWS:
            e = run([c], v)
            out.append("%s|%r|%r|%r" % (c.__name__, v, e.fields_dict["month"].value,
                                        sorted(e.parser_metadata.items())))
    out.append("LOG:" + repr(CAP.records))
    return "\n".join(out)


def main():
    fail = None
    n = 0
    try:
        n, fail = property_checks()
    except Exception as ex:  # noqa
        fail = "checker crashed: %s: %s" % (type(ex).__name__, ex)
    try:
        beh = behaviour()
    except Exception as ex:  # noqa
        beh = "behaviour crashed: %s" % type(ex).__name__
    if "-v" in sys.argv:
        print(beh)
    print("BEHAVIOUR " + hashlib.sha256(beh.encode("utf-8", "backslashreplace")).hexdigest())
    if fail:
        print("PROPERTY-FAIL " + fail)
    else:
        print("PROPERTY-OK %d" % n)


if __name__ == "__main__":
    try:
        main()
    finally:
        sys.stdout.flush()
    sys.exit(0)
