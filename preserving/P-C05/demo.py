"""Differential demo for the C05 seed change (writer dispatch / splitter mark handling).

Parses, writes, re-parses and re-writes a few hundred generated documents
(well-formed and broken) under many BibtexFormat settings and prints a digest
of everything observable (but no exception message texts).
"""
import hashlib
import itertools
import logging
import random
import sys

logging.disable(logging.CRITICAL)

try:
    import bibtexparser
    from bibtexparser import BibtexFormat
    from bibtexparser.library import Library
    from bibtexparser.model import (
        Entry,
        ExplicitComment,
        Field,
        ImplicitComment,
        ParsingFailedBlock,
        Preamble,
        String,
    )
    from bibtexparser.splitter import Splitter
    from bibtexparser import writer as writer_mod
except Exception as exc:  # pragma: no cover
    print("IMPORT-ERROR", type(exc).__name__)
    print("DIGEST import-error")
    sys.exit(0)

H = hashlib.sha256()
COUNT = [0]


def emit(*parts):
    COUNT[0] += 1
    H.update(repr(parts).encode("utf-8", "backslashreplace"))
    H.update(b"\x00")


def render_block(b):
    out = [type(b).__name__, getattr(b, "start_line", None), getattr(b, "raw", None)]
    if isinstance(b, ParsingFailedBlock):
        out.append(type(b.error).__name__)
        ignored = getattr(b, "ignore_error_block", None)
        if ignored is not None:
            out.append(render_block(ignored))
        dk = getattr(b, "duplicate_keys", None)
        if dk is not None:
            out.append(sorted(dk))
    elif isinstance(b, Entry):
        out += [b.entry_type, b.key]
        out.append([(f.key, f.value, f.start_line) for f in b.fields])
    elif isinstance(b, String):
        out += [b.key, b.value]
    elif isinstance(b, Preamble):
        out.append(b.value)
    elif isinstance(b, (ExplicitComment, ImplicitComment)):
        out.append(b.comment)
    return out


def render_lib(lib):
    return [render_block(b) for b in lib.blocks]


def guarded(label, fn):
    try:
        res = fn()
        emit(label, "ok", res)
        return res
    except Exception as exc:
        emit(label, "exc", type(exc).__name__)
        return None


# ----------------------------------------------------------------- generators
rnd = random.Random(50505)

WORDS = ["alpha", "Beta", "gamma-ray", "déjà", "漢字", "x_1", "a.b", "Z", "naïve", "o'neil"]
TYPES = ["article", "book", "InProceedings", "misc", "commentary", "stringent", "preambles", "ARTICLE"]
FIELDKEYS = ["author", "title", "year", "journal", "note", "a", "averyveryverylongfieldkey", "Month", "url"]


def braced_text(depth=0):
    n = rnd.randint(0, 4)
    parts = []
    for _ in range(n):
        r = rnd.random()
        if r < 0.25 and depth < 4:
            parts.append("{" + braced_text(depth + 1) + "}")
        elif r < 0.35:
            parts.append(rnd.choice(['\\"o', "\\{", "\\}", "\\&", "a, b", "x = y", "50\\%"]))
        elif r < 0.42:
            parts.append("\n   ")
        elif r < 0.47 and depth > 0:
            parts.append('"')
        else:
            parts.append(rnd.choice(WORDS))
    return " ".join(parts)


def quoted_text():
    n = rnd.randint(0, 4)
    parts = []
    for _ in range(n):
        r = rnd.random()
        if r < 0.3:
            parts.append("{" + braced_text(1) + "}")
        elif r < 0.4:
            parts.append(rnd.choice(["a, b", "x = y", "\\&", "{\\\"o}"]))
        elif r < 0.45:
            parts.append("\n\t")
        else:
            parts.append(rnd.choice(WORDS))
    return " ".join(parts)


def value(strings):
    r = rnd.random()
    if r < 0.4:
        return "{" + braced_text() + "}"
    if r < 0.65:
        return '"' + quoted_text() + '"'
    if r < 0.75:
        return str(rnd.randint(0, 2500))
    if r < 0.85:
        return rnd.choice(strings + ["jan", "undefinedref"])
    pieces = []
    for _ in range(rnd.randint(2, 3)):
        pieces.append(rnd.choice(['"' + quoted_text() + '"', "{" + braced_text() + "}", rnd.choice(strings + ["mar"])]))
    return " # ".join(pieces)


def entry(strings, dup=False):
    nl = rnd.choice(["\n", "\n", "\n  ", " "])
    keys = rnd.sample(FIELDKEYS, rnd.randint(0, 5))
    if dup and keys:
        keys.append(keys[0])
    key = rnd.choice(WORDS) + str(rnd.randint(0, 99))
    body = ("," + nl).join(
        k + rnd.choice([" = ", "=", "  =  ", " =\n "]) + value(strings) for k in keys
    )
    if not keys:
        return "@" + rnd.choice(TYPES) + "{" + key + rnd.choice(["}", ",}", ",\n}"])
    trailing = rnd.choice(["", ",", " ,"])
    return "@" + rnd.choice(TYPES) + rnd.choice(["", " ", "\t"]) + "{" + key + "," + nl + body + trailing + nl + "}"


def string_block(name):
    return "@string{" + name + rnd.choice([" = ", "="]) + rnd.choice(['"' + quoted_text() + '"', "{" + braced_text() + "}", "1999"]) + "}"


def preamble():
    return "@preamble{" + rnd.choice(['"' + quoted_text() + '"', "{" + braced_text() + "}", ' "\\newcommand{\\x}{y}" # "more" ']) + "}"


def expl_comment():
    return "@comment{" + braced_text() + "}"


def impl_comment():
    return rnd.choice(
        ["% a comment", "free text, with = signs and \"quotes\"", "line one\nline two", "   indented  ", "üñî text", "stray } brace", "mail@ example"]
    )


BROKEN = [
    "@article{key, title = {unclosed",
    "@article{key, title = \"unclosed quote\n}",
    "@article{key title = {x}}",
    "@article{key, title {x}}",
    "@article{key, title = {x} author = {y}}",
    "@string{name {x}}",
    "@string{name = {x}",
    "@comment{never closed",
    "@preamble{ \"x\" ",
    "@article{k1, a = {b},\n  c = {d\n",
    "@article{k1, a = \"b {c\" d} e\",}",
    "@article{k, a = {x}, a = {y}, b = {z}, b = 3}",
    "@article{k, a = \"q\" } trailing } text",
    "@book{k,\n a = {{{{deep}}}},\n",
]


def document(i):
    strings = ["s%d" % j for j in range(rnd.randint(0, 3))]
    blocks = [string_block(s) for s in strings]
    for _ in range(rnd.randint(0, 6)):
        r = rnd.random()
        if r < 0.55:
            blocks.append(entry(strings, dup=(rnd.random() < 0.08)))
        elif r < 0.65:
            blocks.append(preamble())
        elif r < 0.75:
            blocks.append(expl_comment())
        elif r < 0.9:
            blocks.append(impl_comment())
        elif i % 3 == 0:
            blocks.append(rnd.choice(BROKEN))
        else:
            blocks.append(entry(strings))
    rnd.shuffle(blocks)
    sep = rnd.choice(["\n", "\n\n", "\n\n\n", "\n \n"])
    doc = sep.join(blocks)
    if rnd.random() < 0.3:
        doc = "\n\n" + doc + "\n\n"
    if i % 7 == 0:
        doc = doc.replace("\n", "\r\n")
    return doc


def formats():
    res = []
    for indent, col, tc, sep in itertools.product(
        ["\t", "", "    "], [0, 1, 9, 30, "auto"], [False, True], ["\n\n", "\n", "", "\n% sep\n"]
    ):
        f = BibtexFormat()
        f.indent = indent
        f.value_column = col
        f.trailing_comma = tc
        f.block_separator = sep
        res.append(((indent, col, tc, sep), f))
    return res


FORMATS = formats()

EDGE_DOCS = [
    "",
    "\n",
    "   \n\t\n",
    "just text",
    "@",
    "@article",
    "@article{",
    "@article{}",
    "@article{,}",
    "@article{k}",
    "@article{k,}",
    "@comment{}",
    "@preamble{}",
    "@string{}",
    "@string{a=}",
    "@string{a = b # c}",
    "@article{k, a = }",
    "@article{k, = {x}}",
    "@article{k, a = {x},, b = {y}}",
    "@article{k, a = {\\{}, b = \"\\\"\"}",
    "@article{k, a = {x}}@book{j, b = {y}}",
    "text @article{k, a = {x}} text\n@book{j, b = \"y\"} tail",
    "@article{k,\r\n a = {x\r\ny},\r\n}\r\n",
    "@comment{a @article{x} b}",
    "@article{k, a = {x @book{ y}}",
    "@article{k, a = \"x @book{ y\"}",
    "@string{s = {x @book{ y}",
    "@preamble{ {x} @misc{ y }",
    "@article{k, a = " + "{" * 60 + "x" + "}" * 60 + "}",
    "@article{k, a = \"" + "{" * 40 + '"' + "}" * 40 + "\"}",
    "@ARTICLE {Key, Title = {T}, TITLE = {U}}",
    "@article{ключ, автор = {Имя}}",
] + BROKEN


def roundtrip(label, doc):
    lib = guarded((label, "parse"), lambda: render_lib(bibtexparser.parse_string(doc)))
    if lib is None:
        return
    raw = guarded((label, "split"), lambda: render_lib(Splitter(doc).split()))
    parsed = bibtexparser.parse_string(doc)
    for fid, fmt in pick_formats(label):
        out1 = guarded((label, fid, "w1"), lambda: bibtexparser.write_string(parsed, bibtex_format=fmt))
        emit((label, fid, "fmt-untouched"), fmt.indent, fmt.value_column, fmt.trailing_comma, fmt.block_separator)
        if out1 is None:
            continue
        lib2 = bibtexparser.parse_string(out1)
        emit((label, fid, "p2"), render_lib(lib2))
        guarded((label, fid, "w2"), lambda: bibtexparser.write_string(lib2, bibtex_format=fmt))
        # low-level writer on the unprocessed splitter output
        guarded((label, fid, "w-raw"), lambda: writer_mod.write(Splitter(doc).split(), fmt))
    guarded((label, "w-default"), lambda: writer_mod.write(parsed))
    guarded((label, "w-none"), lambda: bibtexparser.write_string(parsed))


_fmt_cursor = [0]


def pick_formats(label):
    # Rotate deterministically through the format grid: 6 formats per document
    res = []
    for _ in range(6):
        res.append(FORMATS[_fmt_cursor[0] % len(FORMATS)])
        _fmt_cursor[0] += 7
    return res


def constructed_libraries():
    """Libraries built with constructors, incl. odd ones."""
    e1 = Entry("article", "k1", [Field("title", "{T}"), Field("averylongkeyindeed", "3"), Field("a", '"q"')])
    e2 = Entry("book", "k2", [])
    e3 = Entry("misc", "ü", [Field("title", "{x}"), Field("title", "{y}")])
    blocks = [
        ImplicitComment("% hello"),
        e1,
        String("s", '"v"'),
        Preamble('"p"'),
        ExplicitComment("c"),
        e2,
        ParsingFailedBlock(error=ValueError("boom"), raw="@x{a\nb\nc"),
        e3,
    ]
    libs = [Library(), Library(blocks[:1]), Library(blocks), Library(list(reversed(blocks)))]
    for li, lib in enumerate(libs):
        for fid, fmt in FORMATS:
            guarded(("constructed", li, fid), lambda: writer_mod.write(lib, fmt))
        guarded(("constructed", li, "default"), lambda: writer_mod.write(lib))
    # unknown block type, and non-string values
    guarded(("constructed", "unknown"), lambda: writer_mod.write(Library([e1]), None) and writer_mod._treat_block(BibtexFormat(), object()))
    bad = Library([Entry("article", "k", [Field("year", 2020)])])
    guarded(("constructed", "nonstr"), lambda: writer_mod.write(bad))
    # same format object reused for auto alignment across differently sized libraries
    fmt = BibtexFormat()
    fmt.value_column = "auto"
    for li, lib in enumerate(libs + libs):
        guarded(("auto-reuse", li), lambda: writer_mod.write(lib, fmt))
        emit(("auto-reuse", li, "col"), fmt.value_column)
    # invalid format values
    for v in (-1, "left", None, 2.5, True):
        def setv(v=v):
            f = BibtexFormat()
            f.value_column = v
            return writer_mod.write(libs[2], f)
        guarded(("badcol", repr(v)), setv)


def existing_library():
    lib = Library()
    for i, doc in enumerate(EDGE_DOCS[:12]):
        guarded(("existing", i), lambda: render_lib(Splitter(doc).split(lib)))
    guarded(("existing", "write"), lambda: writer_mod.write(lib))


def main():
    for i, doc in enumerate(EDGE_DOCS):
        roundtrip(("edge", i), doc)
    for i in range(320):
        roundtrip(("gen", i), document(i))
    constructed_libraries()
    existing_library()
    # splitter object reuse: second split() on the same instance
    for i, doc in enumerate(EDGE_DOCS[:15]):
        s = Splitter(doc)
        guarded(("reuse", i, 1), lambda: render_lib(s.split()))
        guarded(("reuse", i, 2), lambda: render_lib(s.split()))


try:
    main()
except Exception as exc:  # pragma: no cover
    emit("FATAL", type(exc).__name__)
    print("FATAL", type(exc).__name__)

print("records", COUNT[0])
print("DIGEST", H.hexdigest())
sys.exit(0)
