"""Differential demo for the Library add/remove/replace refactoring (property C08).

Drives several hundred random and hand-written call histories against
``bibtexparser.Library`` and prints a digest of everything observable through the
public API (views, block identities, keys, raw, start_line, exception *types*).
Exception message texts and private attributes are deliberately not part of the digest.
"""
import hashlib
import logging
import random
import sys
import traceback

import bibtexparser
from bibtexparser.library import Library
from bibtexparser.model import (
    Block,
    DuplicateBlockKeyBlock,
    Entry,
    ExplicitComment,
    Field,
    ImplicitComment,
    ParsingFailedBlock,
    Preamble,
    String,
)

KEYS = ["a", "b", "A", "", "é", "é", "k y"]


def make_universe():
    """A fresh small universe of blocks with colliding keys (some equal but not identical)."""
    u = []
    for i, k in enumerate(KEYS):
        u.append(Entry("article", k, [Field("title", f"t{i}", i)], start_line=i, raw=f"@article{{{k},}}"))
        u.append(Entry("book", k, [], start_line=100 + i, raw=None))
        u.append(String(k, f"v{i}", start_line=200 + i, raw=f"@string{{{k} = v}}"))
    # equal-but-not-identical copies
    u.append(Entry("article", "a", [Field("title", "t0", 0)], start_line=0, raw="@article{a,}"))
    u.append(String("a", "v0", start_line=200, raw="@string{a = v}"))
    u.append(String("a", "other"))
    u.append(Preamble("p", 300, "@preamble{p}"))
    u.append(Preamble("p", 300, "@preamble{p}"))
    u.append(ExplicitComment("c", 301, "@comment{c}"))
    u.append(ImplicitComment("% c\r\n", 302, "% c\r\n"))
    u.append(ParsingFailedBlock(error=ValueError("x"), start_line=303, raw="@broken{"))
    e = Entry("misc", "a", [])
    u.append(DuplicateBlockKeyBlock(key="a", previous_block=u[0], duplicate_block=e))
    return u


class Ids:
    """Stable small integers for object identities (so the digest can speak about identity)."""

    def __init__(self, universe):
        self.objs = list(universe)

    def of(self, obj):
        for i, o in enumerate(self.objs):
            if o is obj:
                return i
        self.objs.append(obj)
        return len(self.objs) - 1


def render_block(b, ids, depth=0):
    if not isinstance(b, Block):
        return "nonblock|" + repr(b)
    parts = [type(b).__name__, str(ids.of(b)), repr(b.start_line), repr(b.raw)]
    if isinstance(b, (Entry, String, DuplicateBlockKeyBlock)):
        parts.append(repr(b.key))
    if isinstance(b, Entry):
        parts.append(repr(b.entry_type))
        parts.append(repr([(f.key, f.value, f.start_line) for f in b.fields]))
    if isinstance(b, String):
        parts.append(repr(b.value))
    if isinstance(b, (Preamble,)):
        parts.append(repr(b.value))
    if isinstance(b, (ExplicitComment, ImplicitComment)):
        parts.append(repr(b.comment))
    if isinstance(b, ParsingFailedBlock):
        parts.append(type(b.error).__name__)
        ieb = b.ignore_error_block
        parts.append("None" if ieb is None else str(ids.of(ieb)))
    if isinstance(b, DuplicateBlockKeyBlock):
        parts.append(str(ids.of(b.previous_block)))
    return "|".join(parts)


def render_library(lib, ids):
    out = []
    out.append("blocks:" + ";".join(render_block(b, ids) for b in lib.blocks))
    for name in ("entries", "strings", "preambles", "comments", "failed_blocks"):
        out.append(name + ":" + ",".join(str(ids.of(b)) for b in getattr(lib, name)))
    out.append("entries_dict:" + repr([(k, ids.of(v)) for k, v in lib.entries_dict.items()]))
    out.append("strings_dict:" + repr([(k, ids.of(v)) for k, v in lib.strings_dict.items()]))
    out.append("blocks_is_live:" + repr(lib.blocks is lib.blocks))
    out.append("strings_dict_live:" + repr(lib.strings_dict is lib.strings_dict))
    out.append("entries_dict_live:" + repr(lib.entries_dict is lib.entries_dict))
    return "\n".join(out)


def call(log, label, fn):
    try:
        r = fn()
        log.append(f"{label} -> ok {r!r}")
    except Exception as exc:  # noqa: BLE001 - we record the type only
        log.append(f"{label} -> raised {type(exc).__name__}")


def random_history(rng, steps, log):
    universe = make_universe()
    ids = Ids(universe)
    n_init = rng.choice([0, 0, 1, 3, 6])
    init = [rng.choice(universe) for _ in range(n_init)]
    try:
        lib = Library(init) if rng.random() < 0.7 else Library()
    except Exception as exc:  # noqa: BLE001
        log.append(f"init raised {type(exc).__name__}")
        return
    log.append(render_library(lib, ids))
    for _ in range(steps):
        op = rng.choice(["add1", "addl", "addf", "addlf", "rm", "rml", "rmheld", "rep", "repnf", "repheld", "repheldnf"])
        pick = lambda: rng.choice(universe)  # noqa: E731
        held = lambda: rng.choice(lib.blocks) if lib.blocks else rng.choice(universe)  # noqa: E731
        if op == "add1":
            b = pick()
            call(log, f"add({ids.of(b)})", lambda: lib.add(b))
        elif op == "addl":
            bs = [pick() for _ in range(rng.randint(0, 3))]
            call(log, f"add({[ids.of(b) for b in bs]})", lambda: lib.add(bs))
        elif op == "addf":
            b = pick()
            call(log, f"addF({ids.of(b)})", lambda: lib.add(b, fail_on_duplicate_key=True))
        elif op == "addlf":
            bs = [pick() for _ in range(rng.randint(0, 3))]
            call(log, f"addF({[ids.of(b) for b in bs]})", lambda: lib.add(bs, fail_on_duplicate_key=True))
        elif op == "rm":
            b = pick()
            call(log, f"remove({ids.of(b)})", lambda: lib.remove(b))
        elif op == "rml":
            bs = [held() if rng.random() < 0.6 else pick() for _ in range(rng.randint(0, 2))]
            call(log, f"remove({[ids.of(b) for b in bs]})", lambda: lib.remove(bs))
        elif op == "rmheld":
            b = held()
            call(log, f"remove(held {ids.of(b)})", lambda: lib.remove(b))
        elif op in ("rep", "repnf", "repheld", "repheldnf"):
            o = held() if "held" in op else pick()
            n = pick()
            if op.endswith("nf"):
                call(log, f"replaceNF({ids.of(o)},{ids.of(n)})", lambda: lib.replace(o, n, fail_on_duplicate_key=False))
            elif rng.random() < 0.5:
                call(log, f"replace({ids.of(o)},{ids.of(n)})", lambda: lib.replace(o, n))
            else:
                call(log, f"replaceT({ids.of(o)},{ids.of(n)})", lambda: lib.replace(o, n, True))
        log.append(render_library(lib, ids))


def scripted(log):
    # 1. remove-original-then-add-same-key
    u = make_universe(); ids = Ids(u); lib = Library()
    lib.add([u[0], u[1], u[2]]); log.append(render_library(lib, ids))
    call(log, "rm0", lambda: lib.remove(u[0])); log.append(render_library(lib, ids))
    call(log, "add1", lambda: lib.add(u[1], fail_on_duplicate_key=True)); log.append(render_library(lib, ids))
    dup = lib.blocks[0]
    call(log, "rmdup", lambda: lib.remove(dup)); log.append(render_library(lib, ids))
    # 2. replace a String by an Entry and back
    call(log, "repSE", lambda: lib.replace(u[2], u[3])); log.append(render_library(lib, ids))
    call(log, "repES", lambda: lib.replace(u[3], u[5])); log.append(render_library(lib, ids))
    # 3. failing replace in a library that already holds duplicates
    u = make_universe(); ids = Ids(u); lib = Library([u[0], u[1], u[3], u[1]])
    log.append(render_library(lib, ids))
    call(log, "repfail", lambda: lib.replace(u[3], u[1])); log.append(render_library(lib, ids))
    call(log, "repfail2", lambda: lib.replace(u[3], u[21])); log.append(render_library(lib, ids))
    call(log, "repnf", lambda: lib.replace(u[3], u[1], fail_on_duplicate_key=False)); log.append(render_library(lib, ids))
    # 4. replace with itself / equal copy / not held / non-block arguments
    u = make_universe(); ids = Ids(u); lib = Library([u[0], u[2], u[23], u[25]])
    call(log, "repself", lambda: lib.replace(u[0], u[0])); log.append(render_library(lib, ids))
    call(log, "repcopy", lambda: lib.replace(u[21], u[21])); log.append(render_library(lib, ids))
    call(log, "repmissing", lambda: lib.replace(u[4], u[5])); log.append(render_library(lib, ids))
    call(log, "replist", lambda: lib.replace([u[0]], u[5])); log.append(render_library(lib, ids))
    call(log, "repnone", lambda: lib.replace(None, u[5])); log.append(render_library(lib, ids))
    call(log, "rmnone", lambda: lib.remove(None)); log.append(render_library(lib, ids))
    call(log, "rmempty", lambda: lib.remove([])); log.append(render_library(lib, ids))
    call(log, "addempty", lambda: lib.add([], fail_on_duplicate_key=True)); log.append(render_library(lib, ids))
    call(log, "addtuple", lambda: lib.add((u[6], u[0]), fail_on_duplicate_key=True)); log.append(render_library(lib, ids))
    call(log, "additer", lambda: lib.add(iter([u[9], u[0]]), fail_on_duplicate_key=True)); log.append(render_library(lib, ids))
    call(log, "addnone", lambda: lib.add(None)); log.append(render_library(lib, ids))
    call(log, "addstr", lambda: lib.add("ab")); log.append(render_library(lib, ids))
    # 5. remove via the live blocks list, key mutated after adding, unhashable key
    u = make_universe(); ids = Ids(u); lib = Library(u[:9])
    call(log, "rmlive", lambda: lib.remove(lib.blocks)); log.append(render_library(lib, ids))
    u = make_universe(); ids = Ids(u); lib = Library([u[0], u[2]])
    u[0].key = "renamed"
    call(log, "rmrenamed", lambda: lib.remove(u[0])); log.append(render_library(lib, ids))
    u = make_universe(); ids = Ids(u); lib = Library([u[0]])
    bad = Entry("article", ["unhashable"], []); ids.of(bad)
    call(log, "addbad", lambda: lib.add(bad)); log.append(render_library(lib, ids))
    nonekey = Entry("article", None, []); ids.of(nonekey)
    call(log, "addnonekey", lambda: lib.add([nonekey, Entry("book", None, [])], True)); log.append(render_library(lib, ids))
    # 6. subclasses of Entry sharing a key
    class SubEntry(Entry):
        pass
    class OtherSub(Entry):
        pass
    u = make_universe(); ids = Ids(u); lib = Library([u[0]])
    s1 = SubEntry("article", "a", []); s2 = OtherSub("article", "z", []); s3 = SubEntry("article", "z", [])
    for s in (s1, s2, s3):
        ids.of(s)
    call(log, "addsub", lambda: lib.add([s1, s2])); log.append(render_library(lib, ids))
    call(log, "addsibling", lambda: lib.add(s3)); log.append(render_library(lib, ids))
    # 7. equality semantics of blocks and fields
    u = make_universe(); v = make_universe()
    log.append("eq:" + repr([[int(a == b) for b in v] for a in u]))
    log.append("eqother:" + repr([u[0] == 1, u[0] != None, Field("a", 1) == Field("a", 1), Field("a", 1) == Field("a", 2), Field("a", 1) == "a"]))  # noqa: E711
    log.append("hashable:" + repr([Block.__hash__ is None, Entry.__hash__ is None, Field.__hash__ is None]))
    m = {"x": 1}
    blk = Preamble("p"); log.append("meta:" + repr(blk.parser_metadata))
    e = Entry.__new__(Entry); Block.__init__(e, 1, "r", m)
    log.append("meta2:" + repr((e.parser_metadata is m, e.start_line, e.raw)))
    e2 = Entry.__new__(Entry); Block.__init__(e2, parser_metadata={})
    log.append("meta3:" + repr(e2.parser_metadata))


BIBS = [
    "",
    "@article{a, title={x}}\n@article{a, title={y}}\n@string{s = \"v\"}\n@string{s = \"w\"}\n",
    "@article{a, title={x}}\r\n@article{A, title={{deep {nested {braces}}}}}\r\n% comment\r\n@preamble{\"p\"}\r\n",
    "@comment{c}\n@article{é, title={ü}}\n@article{é, title={ü}}\n@article{broken\n@book{b, title={t}, title={u}}\n",
    "@article{a,}\n@article{a,}\n@article{a,}\n@string{a = {x}}\n@string{a = {y}}\n",
]


def parsed(log):
    for bib in BIBS:
        lib = bibtexparser.parse_string(bib)
        ids = Ids([])
        log.append(render_library(lib, ids))
        if lib.entries:
            e = lib.entries[0]
            call(log, "re-add", lambda: lib.add(e, fail_on_duplicate_key=True))
            call(log, "replace-first-by-last", lambda: lib.replace(lib.blocks[0], lib.blocks[-1]))
            log.append(render_library(lib, ids))
        try:
            log.append(repr(bibtexparser.write_string(lib)))
        except Exception as exc:  # noqa: BLE001
            log.append("write raised " + type(exc).__name__)


def main():
    logging.disable(logging.CRITICAL)
    log = []
    try:
        rng = random.Random(8080)
        for i in range(400):
            log.append(f"== history {i}")
            random_history(rng, rng.choice([3, 8, 30]), log)
        scripted(log)
        parsed(log)
    except Exception:  # noqa: BLE001
        log.append("DEMO-ERROR " + type(sys.exc_info()[1]).__name__)
        traceback.print_exc()
    text = "\n".join(log)
    import collections
    outcomes = collections.Counter(l.split(" -> ")[1].split(" ")[0] + " " + l.split(" -> ")[1].split(" ")[1][:12] for l in log if " -> " in l)
    print(f"lines {len(log)} outcomes {sorted(outcomes.items())}")
    print("DIGEST " + hashlib.sha256(text.encode("utf-8", "backslashreplace")).hexdigest())


if __name__ == "__main__":
    main()
    sys.exit(0)
