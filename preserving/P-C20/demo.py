"""Differential demo for the C20 refactoring (entry points / block middleware protocol).

Prints a deterministic digest as last line: DIGEST <sha256>. Always exits 0.
Exception message texts, warning texts and private attributes are NOT part of the digest.
"""
import hashlib
import io
import itertools
import logging
import os
import sys
import tempfile
import traceback
import warnings
from collections import deque

OUT = []


def emit(*parts):
    OUT.append(" | ".join(str(p) for p in parts))


def main():
    import bibtexparser
    from bibtexparser import entrypoint
    from bibtexparser.library import Library
    from bibtexparser.middlewares.middleware import BlockMiddleware, LibraryMiddleware
    from bibtexparser.middlewares import (
        SeparateCoAuthors,
        SplitNameParts,
        MergeNameParts,
        MergeCoAuthors,
        LatexEncodingMiddleware,
        LatexDecodingMiddleware,
        MonthIntMiddleware,
        SortBlocksByTypeAndKeyMiddleware,
        SortFieldsAlphabeticallyMiddleware,
        RemoveEnclosingMiddleware,
        AddEnclosingMiddleware,
        ResolveStringReferencesMiddleware,
    )
    from bibtexparser.model import (
        Block,
        Entry,
        Field,
        String,
        Preamble,
        ExplicitComment,
        ImplicitComment,
        ParsingFailedBlock,
    )

    log_records = []

    class _H(logging.Handler):
        def emit(self, record):
            log_records.append((record.name, record.levelname, record.getMessage()))

    logging.getLogger("bibtexparser").addHandler(_H())
    logging.getLogger("bibtexparser").setLevel(logging.DEBUG)

    # ------------------------------------------------------------------ rendering
    def render_value(v):
        if isinstance(v, (list, tuple)):
            return "[" + ",".join(render_value(x) for x in v) + "]"
        if hasattr(v, "__dict__") and not isinstance(v, str):
            return type(v).__name__ + repr(sorted((k, repr(x)) for k, x in vars(v).items()))
        return repr(v)

    def render_block(b):
        parts = [type(b).__name__, repr(b.start_line), repr(b.raw)]
        if isinstance(b, ParsingFailedBlock):
            parts.append("ERR:" + type(b.error).__name__)
        if isinstance(b, Entry):
            parts += [b.entry_type, repr(b.key)]
            parts += ["%s=%s" % (f.key, render_value(f.value)) for f in b.fields]
        elif isinstance(b, String):
            parts += [repr(b.key), repr(b.value)]
        elif isinstance(b, Preamble):
            parts += [repr(b.value)]
        elif isinstance(b, (ExplicitComment, ImplicitComment)):
            parts += [repr(b.comment)]
        return "<" + ";".join(parts) + ">"

    def render_lib(lib):
        return "LIB(%s)[%s]" % (type(lib).__name__, ",".join(render_block(b) for b in lib.blocks))

    def attempt(label, fn):
        with warnings.catch_warnings(record=True) as w:
            warnings.simplefilter("always")
            n_logs = len(log_records)
            try:
                res = fn()
                status = "OK"
            except Exception as e:  # noqa
                res = None
                status = "EXC:" + type(e).__name__
            cats = sorted(x.category.__name__ for x in w)
            logs = [(n, l) for (n, l, _m) in log_records[n_logs:]]
        if isinstance(res, Library):
            res_r = render_lib(res)
        else:
            res_r = repr(res)
        emit(label, status, res_r, "W=%s" % cats, "L=%s" % logs)
        return res

    # ------------------------------------------------------------------ probes
    TRACE = []

    class TagEntries(BlockMiddleware):
        """Order-sensitive: appends its tag to a 'trace' field of each entry and to comments."""

        def __init__(self, tag, inplace=True):
            super().__init__(allow_inplace_modification=inplace)
            self.tag = tag

        def transform_entry(self, entry, library):
            TRACE.append(("E", self.tag, entry.key))
            old = entry.fields_dict.get("trace")
            if old is None:
                entry.set_field(Field("trace", self.tag))
            else:
                old.value = str(old.value) + ">" + self.tag
            return entry

        def transform_explicit_comment(self, c, library):
            c.comment = c.comment + "#" + self.tag
            return c

        def transform_implicit_comment(self, c, library):
            c.comment = c.comment + "~" + self.tag
            return c

        def transform_string(self, s, library):
            TRACE.append(("S", self.tag, s.key))
            return s

    class TagLibrary(LibraryMiddleware):
        def __init__(self, tag):
            super().__init__(allow_inplace_modification=True)
            self.tag = tag

        def transform(self, library):
            library = super().transform(library)
            TRACE.append(("L", self.tag, len(library.blocks)))
            library.add(ExplicitComment(comment="lib-" + self.tag + "-" + str(len(library.blocks))))
            return library

    class Reverse(LibraryMiddleware):
        def transform(self, library):
            return Library(blocks=list(reversed(library.blocks)))

    def mk_blocks(k, src):
        return [
            ExplicitComment(comment="copy%d of %s" % (i, type(src).__name__), start_line=src.start_line)
            for i in range(k)
        ]

    class Weird:
        pass

    class CustomCollection:
        """A Collection (has __len__, __iter__, __contains__) which is not a list."""

        def __init__(self, items):
            self._items = list(items)
            self.iterations = 0

        def __len__(self):
            return len(self._items)

        def __iter__(self):
            self.iterations += 1
            return iter(self._items)

        def __contains__(self, x):
            return x in self._items

    class IterOnly:
        def __init__(self, items):
            self._items = items

        def __iter__(self):
            return iter(self._items)

    RESULT_KINDS = {
        "none": lambda b: None,
        "emptylist": lambda b: [],
        "emptytuple": lambda b: (),
        "emptystr": lambda b: "",
        "emptydict": lambda b: {},
        "emptyset": lambda b: set(),
        "same": lambda b: b,
        "one_new": lambda b: mk_blocks(1, b)[0],
        "list1": lambda b: [b],
        "list2": lambda b: [b] + mk_blocks(1, b),
        "list3": lambda b: mk_blocks(3, b),
        "tuple2": lambda b: tuple(mk_blocks(1, b) + [b]),
        "deque2": lambda b: deque([b] + mk_blocks(1, b)),
        "dictkeys": lambda b: dict.fromkeys([b] + mk_blocks(2, b)),
        "dictview": lambda b: dict.fromkeys([b] + mk_blocks(1, b)).keys(),
        "frozenset1": lambda b: frozenset([b]),
        "custom_coll": lambda b: CustomCollection([b] + mk_blocks(2, b)),
        "custom_coll_bad": lambda b: CustomCollection([b, 5]),
        "generator": lambda b: (x for x in [b]),
        "iter": lambda b: iter([b]),
        "iteronly": lambda b: IterOnly([b]),
        "map": lambda b: map(lambda x: x, [b]),
        "range": lambda b: range(2),
        "emptyrange": lambda b: range(0),
        "str": lambda b: "abc",
        "bytes": lambda b: b"ab",
        "int": lambda b: 3,
        "zero": lambda b: 0,
        "false": lambda b: False,
        "true": lambda b: True,
        "float": lambda b: 1.5,
        "weird": lambda b: Weird(),
        "type": lambda b: Entry,
        "library": lambda b: Library(blocks=[]),
        "list_none": lambda b: [None],
        "list_mixed": lambda b: [b, None],
        "list_mixed2": lambda b: mk_blocks(1, b) + ["x"],
        "list_nested": lambda b: [[b]],
        "tuple_str": lambda b: (b, "s"),
        "notimplemented": lambda b: NotImplemented,
        "ellipsis": lambda b: Ellipsis,
    }

    BLOCK_TYPES = {
        "entry": Entry,
        "string": String,
        "preamble": Preamble,
        "explicit": ExplicitComment,
        "implicit": ImplicitComment,
        "failed": ParsingFailedBlock,
        "all": Block,
    }

    class Probe(BlockMiddleware):
        def __init__(self, kind, target, inplace=True):
            super().__init__(allow_inplace_modification=inplace)
            self.kind = kind
            self.target = BLOCK_TYPES[target]
            self.seen = []

        def transform_block(self, block, library):
            self.seen.append(type(block).__name__)
            if isinstance(block, self.target):
                return RESULT_KINDS[self.kind](block)
            return block

    class HandlerProbe(BlockMiddleware):
        """Uses the default transform_block dispatch; returns odd things per block type."""

        def __init__(self, kind, inplace):
            super().__init__(allow_inplace_modification=inplace)
            self.kind = kind
            self.calls = []

        def _do(self, name, b):
            self.calls.append((name, type(b).__name__))
            return RESULT_KINDS[self.kind](b)

        def transform_entry(self, entry, library):
            return self._do("entry", entry)

        def transform_string(self, string, library):
            return self._do("string", string)

        def transform_preamble(self, preamble, library):
            return self._do("preamble", preamble)

        def transform_explicit_comment(self, explicit_comment, library):
            return self._do("explicit", explicit_comment)

        def transform_implicit_comment(self, implicit_comment, library):
            return self._do("implicit", implicit_comment)

    # ------------------------------------------------------------------ documents
    DOCS = {
        "empty": "",
        "ws": "  \n\t\n",
        "simple": "@article{k1,\n  author = {Doe, John and Smith, Jane},\n  title = {A {T}itle},\n  year = 2020,\n  month = jan\n}\n",
        "mixed": (
            "% leading implicit comment\n"
            "@string{jan = \"January\"}\n"
            "@string{pub = {Some Publisher}}\n"
            "@preamble{\"\\newcommand{\\noop}[1]{}\"}\n"
            "@comment{an explicit comment}\n"
            "@book{b1,\n  title = \"Book \" # pub,\n  publisher = pub,\n  month = jan,\n  year = {1999}\n}\n"
            "free text between\n"
            "@article{a2, author = {M{\\\"u}ller, Hans and de la Cruz, Maria}, title = {Nested {{deep {braces}}}}}\n"
        ),
        "dups": "@article{d, title={one}}\n@article{d, title={two}}\n@string{s={x}}\n@string{s={y}}\n@misc{e, a={1}, a={2}}\n",
        "failed": "@article{ok1, title={fine}}\n@article{broken, title={unclosed\n@article{ok2, title={also fine}}\n@string{bad}\n@misc{ok3, note = undefinedref}\n",
        "unicode": "@misc{ünï, title = {中文 éè ß}, author = {王, 小明 and Østergaard, Jørgen}}\n% 注释\n",
        "latin": "@misc{café, title = {Crème brûlée}, author = {François, Noël}}\n",
        "crlf": "@article{c1,\r\n  title = {CR LF},\r\n  year = 2001\r\n}\r\n\r\n@comment{x}\r\n",
        "onlycomments": "just text\n\n@comment{c1}\nmore text\n@comment{c2}\n",
        "many": "".join("@misc{m%d, title={T%d}, month=%s}\n" % (i, i, m) for i, m in enumerate(["jan", "feb", "{3}", "12", "dec", "{March}"])),
    }

    # ------------------------------------------------------------------ 1. block-middleware protocol
    base_doc = DOCS["mixed"] + DOCS["failed"]
    for kind in RESULT_KINDS:
        for target in BLOCK_TYPES:
            p = Probe(kind, target)
            attempt("proto/%s/%s" % (kind, target), lambda: bibtexparser.parse_string(base_doc, parse_stack=[p]))
            emit("seen", p.seen)
    for kind in RESULT_KINDS:
        for inplace in (True, False):
            hp = HandlerProbe(kind, inplace)
            attempt("handler/%s/%s" % (kind, inplace), lambda: bibtexparser.parse_string(DOCS["mixed"], parse_stack=[hp]))
            emit("calls", hp.calls)
    # each handler on its own with failing result only for one type
    for kind in ("generator", "list_mixed", "int", "list2", "none", "custom_coll"):
        for target in BLOCK_TYPES:
            for docname in ("empty", "simple", "dups", "onlycomments", "crlf"):
                p = Probe(kind, target)
                attempt("proto2/%s/%s/%s" % (kind, target, docname), lambda: bibtexparser.parse_string(DOCS[docname], parse_stack=[p]))

    # custom collections: how often are they iterated?
    cc_holder = []

    class CCProbe(BlockMiddleware):
        def transform_block(self, block, library):
            c = CustomCollection([block])
            cc_holder.append(c)
            return c

    attempt("cc-iter", lambda: bibtexparser.parse_string(DOCS["mixed"], parse_stack=[CCProbe()]))
    emit("cc-iterations", [c.iterations for c in cc_holder])

    # direct transform on hand-built libraries incl. unknown Block subclasses
    class OddBlock(Block):
        def __init__(self, n):
            super().__init__(start_line=n, raw="odd%d" % n)

    class SubEntry(Entry):
        pass

    class EntryAndString(Entry, String):
        def __init__(self):
            Entry.__init__(self, "misc", "both", [Field("a", "1")])
            self._value = "v"

    class StringAndEntry(String, Entry):
        def __init__(self):
            String.__init__(self, "sk", "sv")
            self._entry_type = "misc"
            self._fields = []

    def handbuilt():
        return [
            SubEntry("article", "sub", [Field("title", "t")], start_line=3, raw="r"),
            OddBlock(1),
            String("k", "v"),
            Preamble("pre"),
            ExplicitComment("ec"),
            ImplicitComment("ic"),
            OddBlock(2),
            Entry("book", "plain", [Field("x", "{y}")]),
        ]

    class Recorder(BlockMiddleware):
        def __init__(self, inplace):
            super().__init__(allow_inplace_modification=inplace)
            self.calls = []

        def transform_entry(self, entry, library):
            self.calls.append("entry:" + type(entry).__name__)
            return entry

        def transform_string(self, string, library):
            self.calls.append("string:" + type(string).__name__)
            return string

        def transform_preamble(self, preamble, library):
            self.calls.append("preamble")
            return [preamble, ExplicitComment("after-preamble")]

        def transform_explicit_comment(self, explicit_comment, library):
            self.calls.append("explicit")
            return None

        def transform_implicit_comment(self, implicit_comment, library):
            self.calls.append("implicit")
            return (implicit_comment, implicit_comment)

    class Plain(BlockMiddleware):
        pass

    for inplace in (True, False):
        for cls in (Recorder, Plain):
            blocks = handbuilt()
            lib = Library(blocks=blocks)
            mw = cls(allow_inplace_modification=inplace) if cls is Plain else cls(inplace)
            out = attempt("hand/%s/%s" % (cls.__name__, inplace), lambda: mw.transform(lib))
            if out is not None:
                emit("identity", [any(o is b for b in blocks) for o in out.blocks], out is lib)
            emit("calls", getattr(mw, "calls", None))
            # transform_block directly
            for b in handbuilt():
                r = mw.transform_block(b, lib)
                emit("tb", type(b).__name__, type(r).__name__, (r is b) if isinstance(r, Block) else None)
    for odd in (EntryAndString, StringAndEntry):
        try:
            b = odd()
            rec = Recorder(True)
            rec.transform_block(b, Library(blocks=[]))
            emit("multi-inherit", odd.__name__, rec.calls)
        except Exception as e:  # noqa
            emit("multi-inherit", odd.__name__, "EXC", type(e).__name__)

    # instance-level handler override
    plain = Plain()
    plain.transform_entry = lambda entry, library: None
    attempt("instance-override", lambda: bibtexparser.parse_string(DOCS["mixed"], parse_stack=[plain]))

    # ------------------------------------------------------------------ 2. stacks via parse_string
    def shipped_parse():
        return {
            "sepco": SeparateCoAuthors(),
            "split": SplitNameParts(),
            "month": MonthIntMiddleware(),
            "latexdec": LatexDecodingMiddleware(),
            "sort": SortBlocksByTypeAndKeyMiddleware(),
            "sortf": SortFieldsAlphabeticallyMiddleware(),
            "rmenc": RemoveEnclosingMiddleware(),
            "resolve": ResolveStringReferencesMiddleware(),
        }

    def probes():
        return {
            "A": TagEntries("A"),
            "B": TagEntries("B", inplace=False),
            "LC": TagLibrary("C"),
            "REV": Reverse(),
            "DROP": Probe("none", "explicit"),
            "DUP": Probe("list2", "entry"),
        }

    names = ["A", "B", "LC", "REV", "DROP", "DUP", "sepco", "split", "month", "sort", "rmenc", "resolve", "latexdec", "sortf"]
    stacks = [()]
    stacks += [(n,) for n in names]
    stacks += list(itertools.permutations(["A", "B", "LC", "REV", "DUP", "sepco", "month"], 2))
    stacks += [
        ("A", "B", "LC"), ("LC", "B", "A"), ("sepco", "split", "A"), ("split", "sepco", "A"),
        ("A", "A", "A"), ("REV", "DUP", "REV"), ("DROP", "LC", "DROP"), ("resolve", "rmenc", "month"),
        ("rmenc", "resolve", "month"), ("month", "A", "sort"), ("sort", "LC", "sortf"),
    ]

    def build(stack):
        pool = dict(shipped_parse())
        pool.update(probes())
        # same name twice -> same instance twice (object reuse within a stack)
        return [pool[n] for n in stack]

    for docname in ("mixed", "failed", "simple", "empty", "unicode", "crlf", "dups", "many"):
        doc = DOCS[docname]
        for stack in stacks:
            if docname not in ("mixed", "failed") and len(stack) == 2 and stacks.index(stack) % 3:
                continue
            del TRACE[:]
            attempt("ps/full/%s/%s" % (docname, "+".join(stack)), lambda: bibtexparser.parse_string(doc, parse_stack=build(stack)))
            emit("trace", TRACE[:])
            del TRACE[:]
            attempt("ps/append/%s/%s" % (docname, "+".join(stack)), lambda: bibtexparser.parse_string(doc, append_middleware=build(stack)))
            emit("trace", TRACE[:])
    # container kinds for the stack arguments
    for docname in ("mixed", "failed"):
        doc = DOCS[docname]
        for stack in [("A", "B"), ("sepco", "A"), ("rmenc",), ()]:
            for cname, conv in [("tuple", tuple), ("gen", lambda l: (m for m in l)), ("iter", iter), ("deque", deque), ("dictkeys", dict.fromkeys)]:
                attempt("ps/full-%s/%s/%s" % (cname, docname, "+".join(stack)), lambda: bibtexparser.parse_string(doc, parse_stack=conv(build(stack))))
                attempt("ps/append-%s/%s/%s" % (cname, docname, "+".join(stack)), lambda: bibtexparser.parse_string(doc, append_middleware=conv(build(stack))))
    # both given -> ValueError (also with empty values); library argument is touched first
    for ps, am in [([], []), ([TagEntries("A")], [TagEntries("B")]), ((), None), (None, ()), ([], None), (None, [])]:
        target = Library()
        attempt("ps/both/%r/%r" % (ps is None, am is None), lambda: bibtexparser.parse_string(DOCS["simple"], parse_stack=ps, append_middleware=am, library=target))
        emit("target-after", render_lib(target))
    # parse into existing library, repeatedly, reusing middleware objects
    reuse = [TagEntries("R"), MonthIntMiddleware()]
    target = Library()
    for i, docname in enumerate(["simple", "many", "simple"]):
        out = attempt("ps/reuse/%d" % i, lambda: bibtexparser.parse_string(DOCS[docname], parse_stack=reuse, library=target))
        emit("same-lib", out is target, render_lib(target))
    # bad inputs
    for bad in (None, 5, b"@a{b,}", ["@a{b,}"]):
        attempt("ps/bad/%s" % type(bad).__name__, lambda: bibtexparser.parse_string(bad))
        attempt("ps/bad-both/%s" % type(bad).__name__, lambda: bibtexparser.parse_string(bad, parse_stack=[], append_middleware=[]))
    for badstack in (5, [5], [None], "ab", [TagEntries], TagEntries("x")):
        attempt("ps/badstack/%r" % type(badstack).__name__, lambda: bibtexparser.parse_string(DOCS["simple"], parse_stack=badstack))
        attempt("ps/badappend/%r" % type(badstack).__name__, lambda: bibtexparser.parse_string(DOCS["simple"], append_middleware=badstack))
        lib0 = bibtexparser.parse_string(DOCS["simple"])
        attempt("ws/badstack/%r" % type(badstack).__name__, lambda: bibtexparser.write_string(lib0, unparse_stack=badstack))
        attempt("ws/badprepend/%r" % type(badstack).__name__, lambda: bibtexparser.write_string(lib0, prepend_middleware=badstack))
    # a middleware that raises in the middle of a stack
    class Boom(BlockMiddleware):
        def transform_entry(self, entry, library):
            raise KeyError("boom")

    del TRACE[:]
    attempt("ps/boom", lambda: bibtexparser.parse_string(DOCS["mixed"], parse_stack=[TagEntries("A"), Boom(), TagEntries("B")]))
    emit("trace", TRACE[:])

    # ------------------------------------------------------------------ 3. write_string / write_file
    def shipped_unparse():
        return {
            "mergeco": MergeCoAuthors(allow_inplace_modification=False),
            "mergen": MergeNameParts(allow_inplace_modification=False),
            "latexenc": LatexEncodingMiddleware(allow_inplace_modification=False),
            "addenc": AddEnclosingMiddleware(allow_inplace_modification=False, default_enclosing='"', reuse_previous_enclosing=True, enclose_integers=False),
            "sort": SortBlocksByTypeAndKeyMiddleware(),
            "sortf": SortFieldsAlphabeticallyMiddleware(allow_inplace_modification=False),
        }

    def buildw(stack):
        pool = dict(shipped_unparse())
        pool.update({
            "A": TagEntries("A", inplace=False),
            "B": TagEntries("B", inplace=False),
            "LC": TagLibrary("C"),
            "REV": Reverse(),
            "DROP": Probe("none", "explicit", inplace=False),
            "DUP": Probe("list2", "string", inplace=False),
            "GEN": Probe("generator", "preamble", inplace=False),
        })
        return [pool[n] for n in stack]

    wstacks = [(), ("A",), ("B", "A"), ("A", "B"), ("LC", "A"), ("A", "LC"), ("REV",), ("REV", "LC", "REV"), ("DROP",), ("DUP", "A"),
               ("GEN",), ("addenc",), ("A", "addenc"), ("addenc", "A"), ("sort", "A"), ("sortf", "A", "B"), ("latexenc",), ("latexenc", "addenc"),
               ("mergeco",), ("A", "A"), ("addenc", "addenc")]
    formats = [None]
    fmt = bibtexparser.BibtexFormat()
    fmt.indent = "    "
    fmt.block_separator = "\n\n\n"
    fmt.trailing_comma = True
    formats.append(fmt)

    tmpdir = tempfile.mkdtemp(prefix="c20demo")
    counter = [0]

    def roundtrip_source(docname, pstack):
        return bibtexparser.parse_string(DOCS[docname], parse_stack=pstack)

    for docname in ("mixed", "failed", "simple", "empty", "unicode", "latin", "crlf", "dups"):
        for wstack in wstacks:
            for fi, f in enumerate(formats):
                if fi and len(wstack) > 1:
                    continue
                lab = "%s/%s/f%d" % (docname, "+".join(wstack), fi)
                lib = roundtrip_source(docname, None)
                before = render_lib(lib)
                s_full = attempt("ws/full/" + lab, lambda: bibtexparser.write_string(lib, unparse_stack=buildw(wstack), bibtex_format=f))
                s_pre = attempt("ws/prepend/" + lab, lambda: bibtexparser.write_string(lib, prepend_middleware=buildw(wstack), bibtex_format=f))
                attempt("ws/both/" + lab, lambda: bibtexparser.write_string(lib, unparse_stack=buildw(wstack), prepend_middleware=buildw(wstack), bibtex_format=f))
                # write_file: path and file object
                counter[0] += 1
                path = os.path.join(tmpdir, "o%d.bib" % counter[0])

                def wf_path(**kw):
                    if os.path.exists(path):
                        os.remove(path)
                    bibtexparser.write_file(path, lib, bibtex_format=f, **kw)
                    with open(path, newline="") as fh:
                        return fh.read()

                def wf_obj(**kw):
                    buf = io.StringIO()
                    r = bibtexparser.write_file(buf, lib, bibtex_format=f, **kw)
                    return (r, buf.getvalue())

                r1 = attempt("wf/path/full/" + lab, lambda: wf_path(parse_stack=buildw(wstack)))
                r2 = attempt("wf/path/append/" + lab, lambda: wf_path(append_middleware=buildw(wstack)))
                r3 = attempt("wf/obj/full/" + lab, lambda: wf_obj(parse_stack=buildw(wstack)))
                r4 = attempt("wf/obj/append/" + lab, lambda: wf_obj(append_middleware=buildw(wstack)))
                attempt("wf/obj/both/" + lab, lambda: wf_obj(parse_stack=buildw(wstack), append_middleware=buildw(wstack)))
                emit("wf-consistency", r1 == s_full, r2 == s_pre, r3 == (None, s_full) if r3 else None, r4 == (None, s_pre) if r4 else None)
                emit("input-untouched", before == render_lib(lib))
    # container kinds for write stacks
    lib = bibtexparser.parse_string(DOCS["mixed"])
    for cname, conv in [("tuple", tuple), ("gen", lambda l: (m for m in l)), ("iter", iter), ("deque", deque)]:
        for wstack in [("A", "B"), ("addenc",), ()]:
            attempt("ws/full-%s/%s" % (cname, "+".join(wstack)), lambda: bibtexparser.write_string(lib, unparse_stack=conv(buildw(wstack))))
            attempt("ws/prepend-%s/%s" % (cname, "+".join(wstack)), lambda: bibtexparser.write_string(lib, prepend_middleware=conv(buildw(wstack))))
    # odd write_file targets
    import pathlib
    attempt("wf/pathlib", lambda: bibtexparser.write_file(pathlib.Path(tmpdir) / "p.bib", lib))
    attempt("wf/none", lambda: bibtexparser.write_file(None, lib))
    attempt("wf/bytesio", lambda: bibtexparser.write_file(io.BytesIO(), lib))
    attempt("wf/missingdir", lambda: bibtexparser.write_file(os.path.join(tmpdir, "no", "x.bib"), lib))
    with open(os.path.join(tmpdir, "appendmode.bib"), "a", encoding="utf-8") as fh:
        fh.write("% existing\n")
        attempt("wf/openfile", lambda: bibtexparser.write_file(fh, lib, append_middleware=[TagEntries("Z", inplace=False)]))
    with open(os.path.join(tmpdir, "appendmode.bib"), encoding="utf-8") as fh:
        emit("wf/openfile-content", repr(fh.read()))

    # ------------------------------------------------------------------ 4. parse_file x encodings
    for enc in ("utf-8", "latin-1", "gbk", "utf-16", "utf-8-sig", "ascii"):
        for docname in ("mixed", "unicode", "latin", "crlf", "empty", "failed"):
            text = DOCS[docname]
            path = os.path.join(tmpdir, "in-%s-%s.bib" % (enc, docname))
            try:
                data = text.encode(enc)
            except UnicodeEncodeError:
                emit("pf/unencodable", enc, docname)
                continue
            with open(path, "wb") as fh:
                fh.write(data)
            for read_enc in (enc, "utf-8", "latin-1"):
                for stack in [None, ("A", "sepco"), ("sepco", "A"), ()]:
                    lab = "%s/%s/%s/%s" % (enc, read_enc, docname, stack)
                    ps = None if stack is None else build(stack)
                    got = attempt("pf/full/" + lab, lambda: bibtexparser.parse_file(path, parse_stack=ps, encoding=read_enc))
                    if stack is not None:
                        attempt("pf/append/" + lab, lambda: bibtexparser.parse_file(path, append_middleware=build(stack), encoding=read_enc))
                        attempt("pf/both/" + lab, lambda: bibtexparser.parse_file(path, parse_stack=build(stack), append_middleware=build(stack), encoding=read_enc))
                    # reference: parse_string of decoded content
                    try:
                        with open(path, encoding=read_enc) as fh:
                            decoded = fh.read()
                        ref = bibtexparser.parse_string(decoded, parse_stack=None if stack is None else build(stack))
                        emit("pf-eq-ps", got is not None and render_lib(got) == render_lib(ref))
                    except Exception as e:  # noqa
                        emit("pf-ref-exc", type(e).__name__)
            if enc == "utf-8":
                attempt("pf/default-enc/" + docname, lambda: bibtexparser.parse_file(path))
                attempt("pf/positional/" + docname, lambda: bibtexparser.parse_file(path, [TagEntries("P")], None, "utf-8"))
    attempt("pf/missing", lambda: bibtexparser.parse_file(os.path.join(tmpdir, "does-not-exist.bib")))
    attempt("pf/badenc", lambda: bibtexparser.parse_file(os.path.join(tmpdir, "in-utf-8-mixed.bib"), encoding="no-such-encoding"))

    # ------------------------------------------------------------------ 5. private stack builders (behaviour only)
    for name in ("_build_parse_stack", "_build_unparse_stack"):
        fn = getattr(entrypoint, name, None)
        if fn is None:
            emit("builder-missing", name)
            continue
        a, b = TagEntries("a"), TagEntries("b")
        dup = RemoveEnclosingMiddleware()
        dupw = AddEnclosingMiddleware(reuse_previous_enclosing=False, enclose_integers=True, default_enclosing="{")
        for full, extra in [(None, None), ([a, b], None), (None, [a, b]), (None, []), ([], None), ((a,), None),
                            (None, [dup]), (None, [dupw]), (None, (m for m in [a, b])), ((m for m in [a, b]), None), ([a], [b])]:
            def run():
                r = fn(full, extra)
                return [type(m).__name__ + ":" + str(getattr(m, "tag", "")) + ":" + str(m.allow_inplace_modification) for m in r], type(r).__name__
            attempt("builder/%s" % name, run)
    # defaults looked up at call time
    orig = entrypoint.default_parse_stack
    try:
        entrypoint.default_parse_stack = lambda allow_inplace_modification=True: [TagEntries("patched-%s" % allow_inplace_modification)]
        attempt("patched-default-parse", lambda: bibtexparser.parse_string(DOCS["simple"], append_middleware=[TagEntries("after")]))
    finally:
        entrypoint.default_parse_stack = orig
    orig = entrypoint.default_unparse_stack
    try:
        entrypoint.default_unparse_stack = lambda allow_inplace_modification=False: [TagEntries("patched-%s" % allow_inplace_modification, inplace=False)]
        libx = bibtexparser.parse_string(DOCS["simple"])
        attempt("patched-default-unparse", lambda: bibtexparser.write_string(libx, prepend_middleware=[TagEntries("before", inplace=False)]))
    finally:
        entrypoint.default_unparse_stack = orig

    # warnings under the *default* filter: once-per-location semantics across repeated calls
    with warnings.catch_warnings(record=True) as w:
        warnings.resetwarnings()
        warnings.simplefilter("always")
        for _ in range(3):
            bibtexparser.parse_string(DOCS["simple"], append_middleware=[RemoveEnclosingMiddleware()])
            bibtexparser.write_string(bibtexparser.parse_string(DOCS["simple"]), prepend_middleware=[AddEnclosingMiddleware(reuse_previous_enclosing=False, enclose_integers=True, default_enclosing="{", allow_inplace_modification=False)])
        emit("warn-always", [x.category.__name__ for x in w], sorted({os.path.basename(x.filename) for x in w}))


if __name__ == "__main__":
    try:
        main()
    except Exception:  # noqa
        OUT.append("FATAL " + traceback.format_exc().splitlines()[-1].split(":")[0])
        traceback.print_exc(file=sys.stderr)
    h = hashlib.sha256()
    for line in OUT:
        h.update(line.encode("utf-8", "backslashreplace"))
        h.update(b"\n")
    if os.environ.get("C20_DEMO_DUMP"):
        with open(os.environ["C20_DEMO_DUMP"], "w", encoding="utf-8", errors="backslashreplace") as fh:
            fh.write("\n".join(OUT))
    print("lines", len(OUT))
    n_exc = sum(1 for l in OUT if "| EXC:" in l)
    print("exceptions recorded", n_exc)
    print("DIGEST " + h.hexdigest())
    sys.exit(0)
