"""Differential demo for the C11 behaviour-preserving change.

Exercises @string resolution (default parse stack, the middleware alone, in-place and
copying mode, after RemoveEnclosing) and the Library key bookkeeping (add / replace /
remove with duplicates) on a few hundred deterministic documents, and prints a digest
of a canonical rendering of everything observable through the public API.
"""
import hashlib
import json
import logging
import random
import sys
import warnings

try:
    import bibtexparser
    from bibtexparser.library import Library
    from bibtexparser.middlewares.enclosing import RemoveEnclosingMiddleware
    from bibtexparser.middlewares.interpolate import ResolveStringReferencesMiddleware
    from bibtexparser.model import DuplicateBlockKeyBlock
    from bibtexparser.model import Entry
    from bibtexparser.model import ExplicitComment
    from bibtexparser.model import Field
    from bibtexparser.model import ImplicitComment
    from bibtexparser.model import ParsingFailedBlock
    from bibtexparser.model import Preamble
    from bibtexparser.model import String
    from bibtexparser.splitter import Splitter
except Exception as e:  # pragma: no cover
    print("IMPORT-FAILED", type(e).__name__)
    print("DIGEST import-failed")
    sys.exit(0)


def render_value(v):
    if isinstance(v, str):
        return ["s", v]
    if isinstance(v, bool):
        return ["b", v]
    if isinstance(v, int):
        return ["i", v]
    return ["o", type(v).__name__, repr(v)]


def render_meta(block):
    meta = block.parser_metadata
    out = {}
    for k in sorted(meta):
        val = meta[k]
        if isinstance(val, (list, tuple)):
            out[k] = [render_value(x) if not isinstance(x, str) else x for x in val]
        elif isinstance(val, (str, int, bool)) or val is None:
            out[k] = val
        else:
            out[k] = type(val).__name__
    return out


def render_block(b, depth=0):
    r = {"type": type(b).__name__, "start_line": b.start_line, "raw": b.raw}
    if isinstance(b, Entry):
        r["entry_type"] = b.entry_type
        r["key"] = b.key
        r["fields"] = [[f.key, render_value(f.value), f.start_line] for f in b.fields]
        r["meta"] = render_meta(b)
    elif isinstance(b, String):
        r["key"] = b.key
        r["value"] = render_value(b.value)
        r["meta"] = render_meta(b)
    elif isinstance(b, Preamble):
        r["value"] = render_value(b.value)
    elif isinstance(b, (ExplicitComment, ImplicitComment)):
        r["comment"] = b.comment
    elif isinstance(b, ParsingFailedBlock):
        r["error_type"] = type(b.error).__name__
        if b.ignore_error_block is not None and depth < 3:
            r["ignore_error_block"] = render_block(b.ignore_error_block, depth + 1)
        if isinstance(b, DuplicateBlockKeyBlock) and depth < 3:
            r["key"] = b.key
            r["previous"] = render_block(b.previous_block, depth + 1)
    return r


def render_library(lib):
    return {
        "blocks": [render_block(b) for b in lib.blocks],
        "strings": [s.key for s in lib.strings],
        "strings_dict": [[k, render_value(v.value), v.start_line] for k, v in lib.strings_dict.items()],
        "entries": [e.key for e in lib.entries],
        "entries_dict": [[k, v.start_line] for k, v in lib.entries_dict.items()],
        "failed": [type(b).__name__ for b in lib.failed_blocks],
        "n_preambles": len(lib.preambles),
        "n_comments": len(lib.comments),
    }


def guarded(fn):
    """Run fn, returning (result, warning category names) or an error type."""
    with warnings.catch_warnings(record=True) as rec:
        warnings.simplefilter("always")
        try:
            res = fn()
        except Exception as e:
            return {"error": type(e).__name__, "warnings": [w.category.__name__ for w in rec]}
    return {"result": res, "warnings": [w.category.__name__ for w in rec]}


# ----------------------------------------------------------------------------------------
# Document generation
# ----------------------------------------------------------------------------------------

STRING_KEYS = ["jan", "acm", "ACM", "Acm", "note_x", "päper", "k1", "a", "x-y", "s:t", "ieee", "IEEE"]
STRING_VALUES = [
    '"January"',
    "{Association for {C}omputing}",
    '"quoted {nested {deep {er}}} value"',
    "1999",
    '"Ünïcödé – 日本語"',
    '""',
    "{}",
    "acm",  # a string defined as a reference to another string
    '"a" # "b"',
    "jan # acm",
    '{"}',
    '"{"}"',
]
FIELD_KEYS = ["author", "title", "journal", "year", "month", "note", "publisher", "Title", "x"]
ENTRY_TYPES = ["article", "book", "Misc", "INPROCEEDINGS"]


def gen_field_value(rng, defined):
    kind = rng.choice([0, 0, 0, 0, 1, 2, 3, 4, 5, 6, 7, 8, 9, 10, 11, 11])
    pool = defined if defined and rng.random() < 0.8 else STRING_KEYS
    key = rng.choice(pool)
    if kind == 0:
        return key
    if kind == 1:
        return rng.choice(["undefinedkey", "nosuch", "jan2", "ac", "acmm"])
    if kind == 2:
        return "{" + key + "}"
    if kind == 3:
        return '"' + key + '"'
    if kind == 4:
        return key.swapcase()
    if kind == 5:
        return key + " # " + rng.choice(pool)
    if kind == 6:
        return str(rng.randrange(0, 3000))
    if kind == 7:
        return '"' + key + '" # ' + rng.choice(pool)
    if kind == 8:
        return "{{" + key + "}}"
    if kind == 9:
        return rng.choice(['"Smith, John"', "{A {B {C}} D}", '"multi\n  line"', "{Ünï}", '""', "{}"])
    if kind == 10:
        return key + ' # "' + key + '"'
    return key


def gen_string_block(rng, key=None):
    key = key or rng.choice(STRING_KEYS)
    val = rng.choice(STRING_VALUES)
    style = rng.randrange(4)
    if style == 0:
        return key, "@string{" + key + " = " + val + "}"
    if style == 1:
        return key, "@STRING{ " + key + "=" + val + " }"
    if style == 2:
        return key, "@String(" + key + " = " + val + ")"
    return key, "@string{" + key + "\n   =\n   " + val + "\n}"


def gen_entry_block(rng, idx, defined, all_keys):
    n = rng.randrange(0, 6)
    fields = []
    for _ in range(n):
        fields.append(rng.choice(FIELD_KEYS) + " = " + gen_field_value(rng, defined))
    key = rng.choice(["e%d" % idx, "dup", "Dup", "ключ%d" % (idx % 3), rng.choice(all_keys)])
    sep = rng.choice([",\n  ", ", ", ",\n\t"])
    body = sep.join([key] + fields)
    if rng.random() < 0.3 and fields:
        body += ","
    return "@" + rng.choice(ENTRY_TYPES) + "{" + body + "\n}"


BROKEN = [
    "@article{broken, title = {unclosed",
    "@string{bad = \"unterminated}",
    "@article{nokeyfields}",
    "@article{dupf, title = {a}, title = {b}, note = jan}",
    "@string{= {novalue}}",
    "@article{x1, title = jan",
]
OTHER = [
    "@comment{jan}",
    "@preamble{\"\\newcommand{\\x}{jan}\"}",
    "free text mentioning jan and acm",
    "% a percent comment",
    "",
]


def gen_document(rng, i):
    n_blocks = rng.randrange(0, 9)
    # Decide up-front which strings are defined somewhere in the document
    defined = rng.sample(STRING_KEYS, rng.randrange(0, 5))
    parts = []
    layout = rng.randrange(4)  # 0: strings first, 1: strings last, 2: mixed, 3: none
    strings = []
    if layout != 3:
        for k in defined:
            strings.append(gen_string_block(rng, k)[1])
            if rng.random() < 0.35:
                strings.append(gen_string_block(rng, k)[1])  # duplicate definition
        if rng.random() < 0.3:
            strings.append(gen_string_block(rng)[1])
    entries = []
    for j in range(n_blocks):
        r = rng.random()
        if r < 0.75:
            entries.append(gen_entry_block(rng, j, defined, STRING_KEYS))
        elif r < 0.87:
            entries.append(rng.choice(OTHER))
        else:
            entries.append(rng.choice(BROKEN))
    if layout == 0:
        parts = strings + entries
    elif layout == 1:
        parts = entries + strings
    else:
        parts = strings + entries
        rng.shuffle(parts)
    nl = rng.choice(["\n\n", "\n", "\r\n\r\n", "\n\n\n"])
    doc = nl.join(parts)
    if nl.startswith("\r"):
        doc = doc.replace("\n", "\r\n").replace("\r\r\n", "\r\n")
    if rng.random() < 0.2:
        doc = "\ufeff" + doc if rng.random() < 0.3 else "\n\n" + doc
    return doc


FIXED_DOCS = [
    "",
    "\n",
    "   \r\n  ",
    "@string{jan = \"January\"}",
    "@article{a, month = jan}",
    "@article{a, month = jan}\n@string{jan = \"January\"}",
    "@string{jan = \"January\"}\n@string{jan = \"Janvier\"}\n@article{a, month = jan, note = {jan}, x = \"jan\"}",
    "@string{jan = \"January\"}\n@article{a, month = JAN, note = Jan, x = jan # jan}",
    "@string{a = b}\n@string{b = \"B\"}\n@article{e, x = a, title = b}",
    "@string{k = {v}}\n@article{e, x = k}\n@article{e, x = k}\n@article{f, x = k, x = k}",
    "@string{k = {{{deep {{nest}}}}}}\n@article{e, x = k, y = {{{k}}}}",
    "@string{\"q\" = {v}}\n@article{e, x = \"q\"}",
    "@string{k = 12}\n@article{e, year = k, n = 12, m = 012}",
    "@article{e, x = {, y = }}",
    "@article{e, x = \", y = \"}",
    "@string{päper = \"Ü\"}\r\n@article{ü, x = päper,\r\n y = PÄPER}\r\n",
]


# ----------------------------------------------------------------------------------------
# Scenarios
# ----------------------------------------------------------------------------------------


def scenario_default_parse(doc):
    def run():
        lib = bibtexparser.parse_string(doc)
        return render_library(lib)

    return guarded(run)


def scenario_middleware_only(doc, inplace):
    def run():
        lib = Splitter(doc).split()
        before = render_library(lib)
        m = ResolveStringReferencesMiddleware(allow_inplace_modification=inplace)
        out = m.transform(lib)
        return {
            "same_object": out is lib,
            "input_after": render_library(lib) == before,
            "out": render_library(out),
        }

    return guarded(run)


def scenario_wrong_order(doc):
    def run():
        lib = Splitter(doc).split()
        lib = RemoveEnclosingMiddleware(allow_inplace_modification=True).transform(lib)
        out = ResolveStringReferencesMiddleware(allow_inplace_modification=True).transform(lib)
        return render_library(out)

    return guarded(run)


def scenario_parse_into_existing(doc, other):
    def run():
        lib = bibtexparser.parse_string(other)
        lib2 = bibtexparser.parse_string(doc, library=lib)
        return {"same": lib2 is lib, "lib": render_library(lib2)}

    return guarded(run)


def scenario_reuse_middleware(docs):
    def run():
        m = ResolveStringReferencesMiddleware()
        outs = []
        for d in docs:
            lib = Splitter(d).split()
            outs.append(render_library(m.transform(lib)))
            # applying twice on the same library must be stable, too
            outs.append(render_library(m.transform(lib)))
        return outs

    return guarded(run)


def scenario_library_ops(rng):
    """Direct Library add / replace / remove bookkeeping with duplicates."""

    def mk_entry(key, val):
        return Entry("article", key, [Field("title", val), Field("month", "jan")])

    def mk_string(key, val):
        return String(key, val)

    log = []
    lib = Library()
    blocks = []
    for i in range(rng.randrange(3, 12)):
        k = rng.choice(["a", "b", "c", "jan", "A"])
        kind = rng.randrange(5)
        if kind < 2:
            b = mk_entry(k, "{t%d}" % i)
        elif kind < 4:
            b = mk_string(k, '"v%d"' % i)
        elif rng.random() < 0.5:
            b = Preamble('"p%d"' % i)
        else:
            b = ExplicitComment("c%d" % i)
        blocks.append(b)
        fail = rng.random() < 0.3
        try:
            if rng.random() < 0.5:
                lib.add(b, fail_on_duplicate_key=fail)
            else:
                lib.add([b], fail_on_duplicate_key=fail)
            log.append("added")
        except Exception as e:
            log.append(type(e).__name__)
    log.append(render_library(lib))
    # replace / remove
    for _ in range(rng.randrange(0, 6)):
        current = list(lib.blocks)
        if not current:
            break
        old = rng.choice(current)
        op = rng.randrange(3)
        try:
            if op == 0:
                lib.remove(old)
                log.append("removed")
            else:
                k = rng.choice(["a", "b", "z", "jan"])
                new = mk_entry(k, "{new}") if rng.random() < 0.5 else mk_string(k, '"new"')
                lib.replace(old, new, fail_on_duplicate_key=(op == 1))
                log.append("replaced")
        except Exception as e:
            log.append(type(e).__name__)
        log.append(render_library(lib))
    # and finally resolve on the hand-built library
    res = guarded(lambda: render_library(ResolveStringReferencesMiddleware(False).transform(lib)))
    log.append(res)
    log.append(render_library(lib))
    return log


def main():
    logging.disable(logging.CRITICAL)
    rng = random.Random(110011)
    docs = list(FIXED_DOCS)
    for i in range(320):
        docs.append(gen_document(rng, i))

    results = []
    n_resolved = 0
    for i, doc in enumerate(docs):
        r1 = scenario_default_parse(doc)
        results.append(["default", r1])
        if "result" in r1:
            for b in r1["result"]["blocks"]:
                n_resolved += len(b.get("meta", {}).get("ResolveStringReferences", []))
        results.append(["mw-inplace", scenario_middleware_only(doc, True)])
        results.append(["mw-copy", scenario_middleware_only(doc, False)])
        if i % 3 == 0:
            results.append(["wrong-order", scenario_wrong_order(doc)])
        if i % 5 == 0:
            results.append(["into-existing", scenario_parse_into_existing(doc, docs[(i * 7 + 3) % len(docs)])])
    results.append(["reuse", scenario_reuse_middleware(docs[:60])])

    rng2 = random.Random(2211)
    for _ in range(150):
        results.append(["libops", guarded(lambda: scenario_library_ops(rng2))])

    n_errors = sum(1 for _, r in results if isinstance(r, dict) and "error" in r)
    blob = json.dumps(results, sort_keys=True, ensure_ascii=True, default=repr)
    print("documents:", len(docs), "scenario results:", len(results))
    print("resolved references (default parse):", n_resolved, "scenario errors:", n_errors)
    print("DIGEST " + hashlib.sha256(blob.encode("utf-8")).hexdigest())


if __name__ == "__main__":
    try:
        main()
    except Exception as e:  # always exit 0
        print("DEMO-FAILED", type(e).__name__, e)
        print("DIGEST demo-failed-" + type(e).__name__)
    sys.exit(0)
