#!/usr/bin/env python
"""Reproducers for _hunt/findings.json. Run: PYTHONPATH=/tmp/wtj-C13 /venv/bin/python _hunt/repro.py"""
import sys
from bibtexparser.middlewares.names import parse_single_name_into_parts as p

violated = False

def report(n, bad):
    global violated
    print("FINDING %d: %s" % (n, "VIOLATED" if bad else "holds"))
    violated = violated or bad

# Finding 1: cased characters that are no letters by general category (Nl, So, Mn) are ignored
# when the case of a word is determined.
a = p("A ⅳ B")      # 'ⅳ'.islower() is True -> lower-case word -> von
b = p("A Ⅳa B")     # first cased character 'Ⅳ' is upper-case -> no von word
bad1 = not (a.first == ["A"] and a.von == ["ⅳ"] and a.last == ["B"])
bad2 = not (b.first == ["A", "Ⅳa"] and b.von == [] and b.last == ["B"])
report(1, bad1 or bad2)

sys.exit(1 if violated else 0)
