#!/usr/bin/env python
"""Reproducers for the C05 hunt (round trip parse -> write -> parse, fixpoint of the written text).

Run as:  PYTHONPATH=/tmp/wtj-C05 /venv/bin/python /tmp/wtj-C05/_hunt/repro.py
"""
import logging
import sys

logging.disable(logging.CRITICAL)

import bibtexparser
from bibtexparser import BibtexFormat
from bibtexparser.model import (
    Entry,
    ExplicitComment,
    ImplicitComment,
    ParsingFailedBlock,
    Preamble,
    String,
)


def sig(lib):
    out = []
    for b in lib.blocks:
        if isinstance(b, ParsingFailedBlock):
            out.append(("failed", type(b).__name__, b.raw))
        elif isinstance(b, Entry):
            out.append(("entry", b.entry_type, b.key, tuple((f.key, f.value) for f in b.fields)))
        elif isinstance(b, String):
            out.append(("string", b.key, b.value))
        elif isinstance(b, Preamble):
            out.append(("preamble", b.value))
        elif isinstance(b, ExplicitComment):
            out.append(("explicit-comment", b.comment))
        elif isinstance(b, ImplicitComment):
            out.append(("implicit-comment", b.comment))
        else:
            out.append(("unknown", repr(b)))
    return out


def round_trip_violated(doc, fmt=None, verbose=True):
    lib1 = bibtexparser.parse_string(doc)
    s1 = bibtexparser.write_string(lib1, bibtex_format=fmt)
    lib2 = bibtexparser.parse_string(s1)
    s2 = bibtexparser.write_string(lib2, bibtex_format=fmt)
    content_differs = sig(lib1) != sig(lib2)
    no_fixpoint = s1 != s2
    if verbose and (content_differs or no_fixpoint):
        print("   doc :", repr(doc))
        print("   lib1:", sig(lib1))
        print("   s1  :", repr(s1))
        print("   lib2:", sig(lib2))
        print("   s2  :", repr(s2))
        print("   content differs:", content_differs, "| written text no fixpoint:", no_fixpoint)
    return content_differs or no_fixpoint


def finding_1():
    # A grammar-derived entry in which a field name occurs twice.
    violated = False
    for fmt in (None, _fmt(indent="  ", value_column="auto", trailing_comma=True, sep="\n")):
        violated |= round_trip_violated("@a{k, t = {x}, t = {y}}", fmt)
    return violated


def _fmt(indent, value_column, trailing_comma, sep):
    f = BibtexFormat()
    f.indent = indent
    f.value_column = value_column
    f.trailing_comma = trailing_comma
    f.block_separator = sep
    return f


if __name__ == "__main__":
    any_violated = False
    for n, fn in enumerate([finding_1], start=1):
        v = fn()
        any_violated |= v
        print(f"FINDING {n}: {'VIOLATED' if v else 'holds'}")
    sys.exit(1 if any_violated else 0)
