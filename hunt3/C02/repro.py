#!/usr/bin/env python
"""Reproducers for the C02 hunt. Run: PYTHONPATH=/tmp/wtj-C02 /venv/bin/python repro.py"""
import logging
import os
import sys
import tempfile

logging.disable(logging.CRITICAL)
import bibtexparser


def finding_1():
    doc = (
        '@article{k,\r\n  title = {line one\r\nline two},\r\n  note = "a\rb"\r\n}\r\n'
        "free\r\ntext\r\n@comment{x\r\ny}"
    )
    d = tempfile.mkdtemp()
    p = os.path.join(d, "x.bib")
    with open(p, "wb") as f:
        f.write(doc.encode("utf-8"))
    lib = bibtexparser.parse_file(p, parse_stack=[])
    os.remove(p)
    os.rmdir(d)
    if lib.failed_blocks or len(lib.blocks) != 3:
        return True
    e = lib.entries[0]
    got = [(f.key, f.value) for f in e.fields] + [c.comment for c in lib.comments]
    want = [
        ("title", "{line one\r\nline two}"),
        ("note", '"a\rb"'),
        "free\r\ntext",
        "x\r\ny",
    ]
    return got != want


def main():
    violated = False
    for n, fn in enumerate([finding_1], start=1):
        try:
            v = fn()
        except Exception as ex:  # a crash is a violation, too
            print(f"  (finding {n} raised {type(ex).__name__}: {ex})")
            v = True
        print(f"FINDING {n}: {'VIOLATED' if v else 'holds'}")
        violated = violated or v
    sys.exit(1 if violated else 0)


if __name__ == "__main__":
    main()
