"""Reproducers for the C15 hunt. Run: PYTHONPATH=/tmp/wtj-C15 /venv/bin/python _hunt/repro.py"""
import sys

from bibtexparser.library import Library
from bibtexparser.model import Entry, Field
from bibtexparser.middlewares.month import (
    MonthAbbreviationMiddleware,
    MonthIntMiddleware,
    MonthLongStringMiddleware,
)

MWS = [(MonthIntMiddleware, 7), (MonthAbbreviationMiddleware, "jul"), (MonthLongStringMiddleware, "July")]


def run(mw, value):
    lib = Library([Entry("article", "k", [Field("month", value)])])
    return mw(allow_inplace_modification=False).transform(lib).entries[0]["month"]


def finding_1():
    """Non-ASCII leading zeros: short numeral converted, long one (same number) not."""
    zero = "٠"  # ARABIC-INDIC DIGIT ZERO, str.isdigit() and int() accept it
    short = zero + "٧"  # == 7
    long_ = zero * 4300 + "7"  # == 7, 4301 digits
    ascii_twin = "0" * 4300 + "7"
    violated = False
    for mw, want in MWS:
        r_short = run(mw, short)
        r_long = run(mw, long_)
        r_ascii = run(mw, ascii_twin)
        consistent = (r_short == want and r_long == want) or (r_short == short and r_long == long_)
        if not consistent or r_ascii != want:
            violated = True
            print(
                f"  {mw.__name__}: short->{r_short!r}, long->"
                f"{'unchanged' if r_long == long_ else repr(r_long)}, ascii twin->{r_ascii!r}"
            )
    return violated


FINDINGS = [finding_1]

if __name__ == "__main__":
    any_violated = False
    for i, f in enumerate(FINDINGS, 1):
        try:
            v = f()
        except Exception as ex:  # a raise is a violation of the no-exception clause
            print(f"  raised {type(ex).__name__}: {ex}")
            v = True
        any_violated |= v
        print(f"FINDING {i}: {'VIOLATED' if v else 'holds'}")
    sys.exit(1 if any_violated else 0)
