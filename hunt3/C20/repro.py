"""No new mechanism was found for C20; there is no reproducer to run.

The script re-checks a few core equalities as a smoke test (not findings) and exits 0.
"""
import io, os, sys, tempfile, warnings
warnings.simplefilter("ignore")
import bibtexparser as bp
from bibtexparser.middlewares.middleware import BlockMiddleware
from bibtexparser.middlewares.parsestack import default_parse_stack, default_unparse_stack
from bibtexparser.splitter import Splitter
from bibtexparser.writer import write

FINDINGS = []  # (number, callable returning True when VIOLATED)

class Tag(BlockMiddleware):
    def __init__(self, t): super().__init__(); self.t = t
    def transform_entry(self, e, lib):
        e.key += self.t; return e

def smoke():
    doc = "@string{s = {v}}\n@article{a, title = s}\n% c\n"
    lib = Splitter(doc).split()
    for m in default_parse_stack() + [Tag("A"), Tag("B")]:
        lib = m.transform(lib)
    got = bp.parse_string(doc, append_middleware=iter([Tag("A"), Tag("B")]))
    assert [b.__dict__ for b in got.blocks] == [b.__dict__ for b in lib.blocks]
    ref = lib
    for m in [Tag("C"), Tag("D")] + default_unparse_stack():
        ref = m.transform(ref)
    text = write(ref)
    assert bp.write_string(got, prepend_middleware=(Tag("C"), Tag("D"))) == text
    td = tempfile.mkdtemp(); p = os.path.join(td, "x.bib")
    for enc in ("utf-8", "latin-1", "gbk", "utf-16"):
        d = "@article{a, title = {é}}\n"
        open(p, "wb").write(d.encode(enc))
        a = bp.parse_file(p, encoding=enc); b = bp.parse_string(d)
        assert [x.__dict__ for x in a.blocks] == [x.__dict__ for x in b.blocks]

if __name__ == "__main__":
    smoke()
    violated = False
    for n, f in FINDINGS:
        v = f(); violated |= v
        print(f"FINDING {n}: {'VIOLATED' if v else 'holds'}")
    if not FINDINGS:
        print("no findings to reproduce (findings.json is empty); smoke checks passed")
    sys.exit(1 if violated else 0)
