#!/usr/bin/env python
"""No new mechanism was found for C10; there is no reproducer to run.

Run as: PYTHONPATH=/tmp/wtj-C10 /venv/bin/python repro.py
The script runs a small sanity pass of the statement (so that it is not vacuous) and exits 0.
"""
import logging
import sys

logging.disable(logging.CRITICAL)
from bibtexparser.library import Library
from bibtexparser.middlewares.enclosing import AddEnclosingMiddleware, RemoveEnclosingMiddleware
from bibtexparser.model import Entry, Field
from bibtexparser.splitter import Splitter
from bibtexparser.writer import write

FINDINGS = []  # (number, callable returning True when violated)

violated = False
for n, fn in FINDINGS:
    v = fn()
    violated |= v
    print(f"FINDING {n}: {'VIOLATED' if v else 'holds'}")

# sanity pass (not a finding)
rm = RemoveEnclosingMiddleware()
for v in ['"', '{}', '""', '{a"b}', '"a{"}b"', '2020', '{{x}}', 'jan', '']:
    lib = rm.transform(Library([Entry("article", "k", [Field("year", v)])]))
    lib = AddEnclosingMiddleware(True, False, "{").transform(lib)
    assert lib.blocks[0].fields[0].value == v
for s in ["", "a", '{"}', "2020", "{x}y"]:
    for d in '{"':
        lib = AddEnclosingMiddleware(False, False, d).transform(
            Library([Entry("article", "k", [Field("year", s)])])
        )
        back = rm.transform(Splitter(write(lib)).split())
        assert back.blocks[0].fields[0].value == s
print("no findings; sanity pass ok")
sys.exit(1 if violated else 0)
