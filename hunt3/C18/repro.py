#!/usr/bin/env python
"""Reproducers for the C18 hunt (run with PYTHONPATH=/tmp/wtj-C18 /venv/bin/python repro.py)."""
import logging
import sys

logging.disable(logging.CRITICAL)

from bibtexparser.library import Library
from bibtexparser.middlewares.latex_encoding import LatexDecodingMiddleware
from bibtexparser.middlewares.latex_encoding import LatexEncodingMiddleware
from bibtexparser.model import Entry
from bibtexparser.model import Field
from bibtexparser.model import MiddlewareErrorBlock


def finding_1() -> bool:
    """Deeply nested (balanced) braces in a math span: decode(encode(text)) != text."""
    depth = 329
    text = "é $" + "{" * depth + "x" + "}" * depth + "$"
    lib = Library([Entry("article", "k", [Field("title", text)])])
    enc = LatexEncodingMiddleware().transform(lib)
    dec = LatexDecodingMiddleware().transform(enc)
    block = dec.blocks[0]
    if isinstance(block, MiddlewareErrorBlock):
        block = block.ignore_error_block
    return block["title"] != text  # True = violated


FINDINGS = [finding_1]

if __name__ == "__main__":
    violated = False
    for n, f in enumerate(FINDINGS, start=1):
        try:
            v = f()
        except Exception as e:  # an escaping exception is a violation, too
            print(f"FINDING {n}: VIOLATED (exception {e!r})")
            violated = True
            continue
        print(f"FINDING {n}: {'VIOLATED' if v else 'holds'}")
        violated = violated or v
    sys.exit(1 if violated else 0)
