#!/usr/bin/env python
"""Reproducers for the C01 hunt. Run as: PYTHONPATH=/tmp/wtj-C01 /venv/bin/python repro.py"""
import subprocess
import sys

CHILD = r'''
import logging, resource, sys
logging.disable(logging.CRITICAL)
resource.setrlimit(resource.RLIMIT_AS, (1 << 30, 1 << 30))  # 1 GiB
import bibtexparser
n = 15_000_000
which = sys.argv[1]
text = {"control_x": "x" * n,
        "control_blanks_elsewhere": "@a{k," + " " * n + "}",
        "target": "@a" + " " * n}[which]
try:
    lib = bibtexparser.parse_string(text)
    out = bibtexparser.write_string(lib)
    print("OK", len(lib.blocks), resource.getrusage(resource.RUSAGE_SELF).ru_maxrss // 1024, "MB")
except BaseException as e:
    print("RAISED", type(e).__name__)
'''


def run(which):
    p = subprocess.run([sys.executable, "-c", CHILD, which], capture_output=True, text=True)
    return (p.stdout.strip().splitlines() or ["NOOUTPUT rc=%s %s" % (p.returncode, p.stderr[-200:])])[-1]


def finding1():
    c1, c2, t = run("control_x"), run("control_blanks_elsewhere"), run("target")
    print("   controls:", c1, "|", c2, "  target:", t)
    # violated only if same-size controls are fine and the target raises
    return c1.startswith("OK") and c2.startswith("OK") and not t.startswith("OK")


def main():
    import bibtexparser
    print("library:", bibtexparser.__file__)
    violated = False
    for n, f in enumerate([finding1], 1):
        v = f()
        violated |= v
        print("FINDING %d: %s" % (n, "VIOLATED" if v else "holds"))
    return 1 if violated else 0


if __name__ == "__main__":
    sys.exit(main())
