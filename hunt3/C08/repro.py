#!/usr/bin/env python
"""C08 hunt (agent j): no new violation found -> there are no reproducers.

As a sanity run this script replays a short random campaign of the model-based
fuzzer in fuzz.py (known/excluded mechanisms are filtered there) and reports a
pseudo finding 0 if anything turns up.  Run with PYTHONPATH=/tmp/wtj-C08.
"""
import os, sys, random
sys.path.insert(0, os.path.dirname(os.path.abspath(__file__)))
import fuzz

FINDINGS = []  # (number, callable returning True when VIOLATED)

violated = False
for n, fn in FINDINGS:
    v = fn()
    print(f"FINDING {n}: {'VIOLATED' if v else 'holds'}")
    violated |= v

for seed in range(2000):
    fuzz.run_history(fuzz.rand_gen(random.Random(seed)), 30, fuzz.report)
if fuzz.found:
    for k, v in fuzz.found.items():
        print("FINDING 0: VIOLATED", k, v)
    violated = True
else:
    print("no findings; sanity campaign (2000 histories x 30 calls): holds")
sys.exit(1 if violated else 0)
