#!/usr/bin/env python
"""Reproducers for hunt J / property C14.

No violation inside the quantifier was found, so there are no FINDING lines.
As a smoke check the script re-runs a small part of the search (bounded-exhaustive
round trip through the function pair and a few documents through the whole stack)
and exits 1 if that unexpectedly finds a violation.
"""
import copy
import itertools
import logging
import sys

import bibtexparser
from bibtexparser.middlewares.names import (
    InvalidNameError,
    MergeCoAuthors,
    MergeNameParts,
    SeparateCoAuthors,
    SplitNameParts,
    parse_single_name_into_parts as parse,
    split_multiple_persons_names as split,
)

logging.disable(logging.CRITICAL)


def in_quantifier(value):
    persons = split(value)
    if not persons:
        return None
    try:
        parts = [parse(p) for p in persons]
    except InvalidNameError:
        return None
    for p in parts:
        if not p.last:
            return None
        for w in p.first + p.von + p.last + p.jr:
            if (len(w) - len(w.rstrip("\\"))) % 2:
                return None
    return parts


def pair_holds(value):
    parts = in_quantifier(value)
    if parts is None:
        return True
    merged = " and ".join(p.merge_last_name_first for p in parts)
    try:
        return [parse(p) for p in split(merged)] == parts
    except InvalidNameError:
        return False


def stack_holds(value):
    if in_quantifier(value) is None:
        return True
    doc = "@article{k,\n author = {%s},\n editor = {%s}\n}\n" % (value, value)
    mw = lambda: [SeparateCoAuthors(), SplitNameParts()]
    lib = bibtexparser.parse_string(doc, append_middleware=mw())
    if len(lib.entries) != 1:
        return True  # the document is not read as intended (dialect), not this property
    before = {f.key: copy.deepcopy(f.value) for f in lib.entries[0].fields}
    out = bibtexparser.write_string(lib, prepend_middleware=[MergeNameParts(), MergeCoAuthors()])
    lib2 = bibtexparser.parse_string(out, append_middleware=mw())
    if len(lib2.entries) != 1:
        return False
    return before == {f.key: f.value for f in lib2.entries[0].fields}


violated = 0
tokens = ["A", "b", "and", " ", "~", ",", "{", "}", "\\", "AND"]
for k in range(1, 6):
    for t in itertools.product(tokens, repeat=k):
        v = "".join(t)
        if not pair_holds(v):
            violated += 1
            print("UNEXPECTED violation (function pair):", repr(v))
for v in [
    "AA bb CC dd",
    "Procter~and~Gamble, Inc. and others",
    "Jones,~and and and~B, and",
    "{\\v{C}}apek, Karel and M{\\\"u}ller, Hans and {Barnes and Noble, Inc.} and Ford, Jr., Henry",
    "x\\\\~and y and A\\, B",
]:
    if not (pair_holds(v) and stack_holds(v)):
        violated += 1
        print("UNEXPECTED violation (stack):", repr(v))

print("no findings to reproduce; smoke check violations: %d" % violated)
sys.exit(1 if violated else 0)
