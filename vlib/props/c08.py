"""C08 - Library views stay consistent under any sequence of add / remove / replace.

Monitors: (i) icontract class invariant on the real Library (view equations + partition) evaluated
after every public call; (ii) executable list model stepped in lock-step with the real object;
(iii) atomicity of calls that raise ValueError (observable state before == after).
"""
import itertools

from ..core import Violation, rng_for, tier_pick
from ..monitors import contracts
from .. import sp

ID = "C08"
META = {
    "technique": "runtime monitoring: icontract class invariant on Library + lock-step executable list model + atomicity monitor on ValueError, over bounded-exhaustive and random call histories",
    "level_text": "All histories of add/remove/replace calls (47 call shapes over a 14-block universe (incl. equal-but-distinct copies of one entry and of one comment, and instances of user-defined Entry/String subclasses) with colliding keys) to depth k and random histories of depth 30 are executed on the real Library; after every call the icontract invariant checks the view equations and the partition, the list model checks identity/order/position/wrappers, and every call that raised ValueError must leave the observable state (incl. the order of `strings`) unchanged. The random histories also run in libraries pre-filled with 15 ... 300 filler blocks (both sides of 16, 64, 128, 256). A call shape add([..., X]) in which registering X raises something other than ValueError (unhashable key) is part of the alphabet: any prefix of the list may be taken, the views must describe exactly the held blocks afterwards.",
    "level_note": "the model is identity-based (the block passed in is the one removed / replaced, at its position); remove([..]) removes all or nothing; when a call names a block that is not held itself while an equal copy is, either outcome (ValueError, or acting on the copy) is accepted; known finding K1",
}
RULE = ("case = history (list of calls) over the universe {e(a), e'(a), e(b), field-less e(c), e'(c), s(a), s'(a), s(b), preamble, comment}; all histories to depth k plus "
        "random depth-30 histories; non-trivial = the history reaches a state with a duplicate wrapper or contains a raising call; "
        "distinct = distinct history")
ASSUMPTIONS = ["block keys are not mutated while held", "K1 (add(..., fail_on_duplicate_key=True) raises after inserting) is a listed known finding"]
MIN = {"library_invariant": (200000, 2000000), "model_step": (100000, 1000000), "atomicity_on_ValueError": (20000, 200000), "big_library_history": (500, 20000), "raising_call_other_than_ValueError": (5000, 50000)}

NAMES = ["ea", "eac", "e2a", "exa", "eb", "e0c", "e2c", "sa", "s2a", "sxa", "sb", "p", "c", "cc"]
REPLACE_PAIRS = [("ea", "e2a"), ("ea", "eb"), ("eb", "e2a"), ("sa", "s2a"), ("sa", "ea"), ("e2a", "ea"), ("p", "c"), ("c", "eb"), ("eb", "sa"), ("sa", "sb"), ("sb", "s2a"), ("eb", "e2c"), ("p", "e0c"), ("eb", "exa"), ("sb", "sxa"), ("eac", "eb"), ("eb", "eac"), ("cc", "eb"), ("cc", "e2a"), ("c", "cc"), ("p", "cc")]


def all_ops():
    ops = [["add", n] for n in NAMES]
    ops += [["addf", n] for n in ("e2a", "s2a", "eb", "exa")]
    ops += [["addl", ["ea", "e2a"]], ["addl", ["sa", "p"]]]
    ops += [["rm", n] for n in NAMES]
    ops += [["rp", a, b, f] for a, b in REPLACE_PAIRS for f in (True, False)]
    ops += [["rmw"], ["rpw", "eb", False], ["rpw", "e2a", True]]
    ops += [["rml", ["ea", "p"]], ["rml", ["c", "cc"]]]
    # add([... , X]) where registering X raises something other than ValueError (an entry with an unhashable key; seed C08-n: the
    # list was registered as a whole before it was appended as a whole): "including calls that raise" - whatever part of the list
    # the library took, the views must describe exactly the blocks it holds
    ops += [["addlx", ["eb"]], ["addlx", ["e0c", "sb"]]]
    return ops


OPS = all_ops()


def _K(tier):
    return tier_pick(tier, 3, 4)


def exhaustive(tier):
    return f"all histories of 1..{_K(tier)} calls over {len(OPS)} call shapes"


def cases(tier, seed, shard, nshards):
    idx = 0
    for k in range(1, _K(tier) + 1):
        for h in itertools.product(range(len(OPS)), repeat=k):
            if idx % nshards == shard:
                yield {"h": [OPS[i] for i in h]}
            idx += 1
    r = rng_for(seed, shard, "c08")
    for _ in range(tier_pick(tier, 16000, 600000) // nshards):
        yield {"h": [r.choice(OPS) for _ in range(30)]}
    # the same histories in a library that already holds many blocks (seed C08-m: an id -> position map used from 64 blocks on)
    for j in range(tier_pick(tier, 1600, 60000) // nshards):
        n = r.choice([15, 16, 17, 63, 64, 65, 65, 70, 127, 128, 129]) if j % 20 else r.choice([255, 256, 257, 300])
        yield {"fill": n, "at": r.choice([0, 0, 3, 10]), "h": [r.choice(OPS) for _ in range(r.choice([6, 12, 30]))]}


_SUB = []


def _subclasses():
    """User-defined block classes (the documented way to extend the model): they are Entry / String blocks."""
    if not _SUB:
        from bibtexparser import model as M

        class AnnotatedEntry(M.Entry):
            pass

        class MacroString(M.String):
            pass

        _SUB.extend([AnnotatedEntry, MacroString])
    return _SUB


def universe():
    from bibtexparser import model as M
    return {
        "ea": M.Entry("article", "a", [M.Field("t", "{1}")], raw="@article{a, t = {1}}", start_line=0),
        "eac": M.Entry("article", "a", [M.Field("t", "{1}")], raw="@article{a, t = {1}}", start_line=0),     # equal to ea, another object
        "e2a": M.Entry("book", "a", [M.Field("t", "{2}")], raw="@book{a, t = {2}}", start_line=1),
        "exa": _subclasses()[0]("online", "a", [M.Field("t", "{5}")], raw="@online{a, t = {5}}", start_line=10),
        "sxa": _subclasses()[1]("a", "{w}", raw="@string{a = {w}}", start_line=11),
        "eb": M.Entry("article", "b", [M.Field("t", "{3}")], raw="@article{b, t = {3}}", start_line=2),
        "e0c": M.Entry("misc", "c", [], raw="@misc{c}", start_line=8),
        "e2c": M.Entry("book", "c", [M.Field("t", "{4}")], raw="@book{c, t = {4}}", start_line=9),
        "sa": M.String("a", "{x}", raw="@string{a = {x}}", start_line=3),
        "s2a": M.String("a", "{y}", raw="@string{a = {y}}", start_line=4),
        "sb": M.String("b", "{z}", raw="@string{b = {z}}", start_line=7),
        "p": M.Preamble("p", raw="@preamble{p}", start_line=5),
        "c": M.ExplicitComment("c", raw="@comment{c}", start_line=6),
        "cc": M.ExplicitComment("c", raw="@comment{c}", start_line=6),       # equal to c, another object: both can be held at once
    }


EQUAL = {"ea": {"ea", "eac"}, "eac": {"ea", "eac"}, "c": {"c", "cc"}, "cc": {"c", "cc"}}


def kind_of(name):
    return "E" if name[0] == "e" else "S" if name[0] == "s" else "O"


def key_of(name):
    return "b" if name in ("eb", "sb") else "c" if name in ("e0c", "e2c") else "a"


class Model:
    """slots: list of dicts(name, wrapped, prev).  A wrapper slot stands for a DuplicateBlockKeyBlock."""

    def __init__(self):
        self.slots = []

    def live(self, kind, key):
        for s in self.slots:
            if not s["wrapped"] and kind_of(s["name"]) == kind and kind != "O" and key_of(s["name"]) == key:
                return s
        return None

    def make(self, name):
        k = kind_of(name)
        lv = self.live(k, key_of(name)) if k != "O" else None
        if lv is not None:
            return dict(name=name, wrapped=True, prev=lv["name"])
        return dict(name=name, wrapped=False, prev=None)

    def index_unwrapped(self, name):
        """The slot that holds the block ITSELF (statement: 'every held block exactly once ... replace keeping the position'
        speaks about the block passed in).  Returns (index, exact): when the block itself is not held but an equal
        copy is, index is that copy's slot and exact is False - the statement says nothing about that case, the library
        may raise ValueError or act on the equal copy, the model follows what it did."""
        for i, s in enumerate(self.slots):
            if not s["wrapped"] and s["name"] == name:
                return i, True
        for i, s in enumerate(self.slots):
            if not s["wrapped"] and s["name"] in EQUAL.get(name, ()):
                return i, False
        return -1, True

    def first_wrapper(self):
        for i, s in enumerate(self.slots):
            if s["wrapped"]:
                return i
        return -1

    def copy(self):
        m = Model()
        m.slots = [dict(s) for s in self.slots]
        return m


CANON = {"eac": "ea", "cc": "c"}      # equal-content blocks count as the same block ("leaves the library EQUAL to what it was")


def observe(lib, U=None):
    names = {id(v): CANON.get(k, k) for k, v in (U or {}).items()}

    def n(b):
        return names.get(id(b), id(b))

    return dict(
        blocks=[n(b) for b in lib.blocks], entries=[n(b) for b in lib.entries], strings=[n(b) for b in lib.strings],
        entries_dict=sorted((k, str(n(v))) for k, v in lib.entries_dict.items()),
        strings_dict=sorted((k, str(n(v))) for k, v in lib.strings_dict.items()),
        preambles=[n(b) for b in lib.preambles], comments=[n(b) for b in lib.comments], failed=[n(b) for b in lib.failed_blocks],
    )


def compare_model(lib, model, U, wrappers):
    from bibtexparser import model as M
    blocks = lib.blocks
    if len(blocks) != len(model.slots):
        return f"blocks has {len(blocks)} elements, model {len(model.slots)}"
    for i, (b, s) in enumerate(zip(blocks, model.slots)):
        if not s["wrapped"]:
            if b is not U[s["name"]]:
                return f"blocks[{i}] is not {s['name']}" + (" but its equal copy" if any(b is U[n] for n in EQUAL.get(s["name"], ())) else "")
        else:
            if not isinstance(b, M.DuplicateBlockKeyBlock):
                return f"blocks[{i}] should be a duplicate wrapper of {s['name']}, is {type(b).__name__}"
            if b.ignore_error_block is not U[s["name"]] or b.key != U[s["name"]].key:
                return f"wrapper at {i} does not expose the duplicate {s['name']} / its key"
            if b.previous_block is not U[s["prev"]]:
                return f"wrapper at {i}: previous_block is not the first block {s['prev']}"
    return None


def check(case, ctx):
    from bibtexparser.library import Library
    contracts.install_library_invariant()
    U = universe()
    if case.get("fill"):
        from bibtexparser import model as M
        for i in range(case["fill"]):
            U["f%d" % i] = M.ImplicitComment("filler %d" % i, start_line=100 + i, raw="filler %d" % i)
        at = min(case.get("at", 0), len(case["h"]))
        case = dict(case, h=case["h"][:at] + [["add", "f%d" % i] for i in range(case["fill"])] + case["h"][at:])
        ctx.mon("big_library_history")
    out = []
    c0 = contracts.COUNT["library_invariant"]
    lib = Library()
    model = Model()
    saw_wrapper = saw_raise = False
    shape_trace = []
    for step, op in enumerate(case["h"]):
        before = observe(lib, U)
        pre_model = model.copy()
        kind = op[0]
        # ---- model: expected outcome per the statement
        exp_raise = False
        tolerant = False      # the call names a block that is not held itself while an equal copy is: either outcome accepted
        if kind == "addlx":
            pass          # decided after the call: some prefix of the list was taken
        elif kind in ("add", "addf", "addl"):
            names = op[1] if kind == "addl" else [op[1]]
            new_slots = []
            for n in names:
                s = model.make(n)
                model.slots.append(s)
                new_slots.append(s)
            if kind == "addf" and any(s["wrapped"] for s in new_slots):
                exp_raise = True          # statement: a raising call leaves the library as it was
                model = pre_model
        elif kind == "rm":
            i, exact = model.index_unwrapped(op[1])
            tolerant = not exact
            if i < 0:
                exp_raise = True
            else:
                del model.slots[i]
        elif kind == "rml":
            # remove([..]): every listed block removed, or - if one of them is not held - ValueError and nothing removed
            idxs = []
            tmp = model.copy()
            for n in op[1]:
                i, exact = tmp.index_unwrapped(n)
                tolerant = tolerant or not exact
                if i < 0:
                    exp_raise = True
                    break
                del tmp.slots[i]
            if not exp_raise:
                model = tmp
        elif kind == "rmw":
            i = model.first_wrapper()
            if i < 0:
                continue
            del model.slots[i]
        elif kind in ("rp", "rpw"):
            if kind == "rp":
                i, exact = model.index_unwrapped(op[1])
                tolerant = not exact
                new, fail = op[2], op[3]
            else:
                i = model.first_wrapper()
                if i < 0:
                    continue
                new, fail = op[1], op[2]
            if i < 0:
                exp_raise = True
            else:
                del model.slots[i]
                s = model.make(new)
                if s["wrapped"] and fail:
                    exp_raise = True
                    model = pre_model
                else:
                    model.slots.insert(i, s)
        # ---- real call
        def call():
            if kind == "add":
                lib.add(U[op[1]])
            elif kind == "addf":
                lib.add(U[op[1]], fail_on_duplicate_key=True)
            elif kind == "addl":
                lib.add([U[n] for n in op[1]])
            elif kind == "rm":
                lib.remove(U[op[1]])
            elif kind == "rml":
                lib.remove([U[n] for n in op[1]])
            elif kind == "rmw":
                lib.remove(lib.failed_blocks[0])
            elif kind == "rp":
                lib.replace(U[op[1]], U[op[2]], fail_on_duplicate_key=op[3])
            elif kind == "rpw":
                lib.replace(lib.failed_blocks[0], U[op[1]], fail_on_duplicate_key=op[2])
        raised = None
        if kind == "addlx":
            from bibtexparser import model as M
            bad = M.Entry("misc", ["unhashable"], [])
            try:
                lib.add([U[n] for n in op[1]] + [bad])
                threw = None
            except BaseException as e:  # noqa
                if isinstance(e, (KeyboardInterrupt, SystemExit)):
                    raise
                threw = type(e).__name__
            ctx.ran()
            ctx.mon("raising_call_other_than_ValueError")
            ok = False
            for j in range(len(op[1]), -1, -1):
                m2 = pre_model.copy()
                for n in op[1][:j]:
                    m2.slots.append(m2.make(n))
                if compare_model(lib, m2, U, None) is None:
                    model, ok = m2, True
                    break
            why = None
            if ok:
                try:
                    contracts.library_views_consistent(lib)
                    why = contracts.LAST.get("library_invariant")
                except contracts.InvariantBroken as e:
                    why = str(e)
                except TypeError:
                    why = "a view raises TypeError: the block with the unhashable key is held"
            if not ok or why or threw is None:
                out.append(Violation("invariant", f"C08:after-raising-add-of-a-list:{'views-inconsistent' if ok else 'blocks-are-no-prefix' if threw else 'no-exception'}",
                                     dict(step=step, op=op, threw=threw, why=why, history=case["h"][:step + 1], blocks=[sp.block_kind(b) for b in lib.blocks])))
                break
            continue
        try:
            call()
        except ValueError as e:
            raised = "ValueError"
        except contracts.InvariantBroken as e:
            out.append(Violation("invariant", f"C08:invariant:{kind}:{str(e)[:60]}", dict(step=step, op=op, why=str(e), history=case["h"][:step + 1])))
            break
        except BaseException as e:  # noqa
            if isinstance(e, (KeyboardInterrupt, SystemExit)):
                raise
            out.append(Violation("unexpected-exception", f"C08:exception:{kind}:{type(e).__name__}", dict(step=step, op=op, error=repr(e)[:200], history=case["h"][:step + 1])))
            break
        ctx.ran()
        opsig = kind + (":fail" if (kind == "addf" or (kind in ("rp", "rpw") and op[-1] is True)) else "")
        if raised:
            saw_raise = True
            ctx.mon("atomicity_on_ValueError")
            after = observe(lib, U)
            if after != before:
                diffkeys = [k for k in before if before[k] != after[k]]
                only_order = all(sorted(map(str, before[k])) == sorted(map(str, after[k])) for k in diffkeys)
                out.append(Violation("raise-not-atomic", f"C08:raise-not-atomic:{opsig}:{'order-of-' if only_order else ''}{'+'.join(diffkeys)}",
                                     dict(step=step, op=op, changed=diffkeys, history=case["h"][:step + 1])))
                if kind == "addf":
                    # K1: follow the real behaviour (wrapper inserted) so the run can go on in lock-step
                    model = pre_model
                    for n in [op[1]]:
                        model.slots.append(model.make(n))
                else:
                    break
        if tolerant and raised and not exp_raise:
            model, exp_raise = pre_model, True          # the library refused the equal copy: fine as well
            ctx.note("equal_copy_refused")
        elif tolerant and not raised:
            ctx.note("equal_copy_accepted")
        if bool(raised) != exp_raise:
            out.append(Violation("raise-mismatch", f"C08:raise-mismatch:{opsig}:{'unexpected' if raised else 'missing'}-ValueError",
                                 dict(step=step, op=op, raised=raised, expected=exp_raise, history=case["h"][:step + 1])))
            break
        ctx.mon("model_step")
        if tolerant and not raised and len(lib.blocks) == len(model.slots):
            # the call named a block that was not held itself: where the library put that equal copy in place of the held
            # one (a rolled-back replace re-inserts the block it was given), follow it - equal by value, as the statement asks
            rev = {id(v): k for k, v in U.items()}
            for b, sl in zip(lib.blocks, model.slots):
                nm = rev.get(id(b))
                if not sl["wrapped"] and nm != sl["name"] and nm in EQUAL.get(sl["name"], ()):
                    sl["name"] = nm
        why = compare_model(lib, model, U, None)
        if why:
            out.append(Violation("model-mismatch", f"C08:model:{opsig}:{why.split(' ')[0]}", dict(step=step, op=op, why=why, history=case["h"][:step + 1],
                                                                                                 blocks=[sp.block_kind(b) for b in lib.blocks])))
            break
        if any(s["wrapped"] for s in model.slots):
            saw_wrapper = True
        shape_trace.append("".join((kind_of(s["name"]) + key_of(s["name"])).lower() if s["wrapped"] else kind_of(s["name"]) + key_of(s["name"]) for s in model.slots))
    ctx.mon("library_invariant", contracts.COUNT["library_invariant"] - c0)
    for s in shape_trace[-2:]:
        ctx.state(s[:16])
    if saw_wrapper or saw_raise:
        ctx.nontriv(case["h"])
        if ctx.cases % 997 == 0:
            ctx.sample(case["h"])
    return out


def shrink(case, still):
    from ..shrink import ddmin_list
    return {"h": ddmin_list(case["h"], lambda h: still({"h": h}), max_tests=200)}
