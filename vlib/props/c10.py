"""C10 - enclosing removal strips exactly one layer; adding back restores or re-encloses.

Postconditions on RemoveEnclosingMiddleware / AddEnclosingMiddleware.transform computed from the
statement (positional one-pair rule, restore law, integer rule) + a re-parse monitor through the
real Splitter and the independent recogniser.
"""
import itertools

from ..core import Violation, rng_for, srepr, tier_pick
from ..gen import grammar
from ..ref import recogniser
from .. import build, sp

ID = "C10"
META = {
    "technique": "runtime monitoring: rule/restore-law/integer-rule postconditions on the real enclosing middlewares + re-parse monitor through Splitter, over an exhaustive small-value space x all option sets",
    "level_text": "Every string of length <= 4 over {{,},\",a,space,#,\\} plus grammar-generated values, digit strings and Python ints is run through RemoveEnclosing and AddEnclosing under all 8 option sets, both in-place modes, numeric and non-numeric field keys and @string blocks; results are compared with the one-positional-pair rule, the restore law, the integer rule, and default-enclosed values are written into an entry and re-parsed by the real splitter. The re-parse libraries also hold an @string block and an entry NAMED like the field's content. Between removal and re-adding with reuse one of ten shipped middlewares runs on an entry with title/month/year/author/Month fields and a @string: every value that step left alone must be restored exactly; 25 contents other middlewares care about (numbers in and out of the month range, month names, macro names, name lists, URLs, LaTeX) in six enclosings are each run against twenty rotations.",
    "level_note": "'one outer pair' is positional (first and last character of the trimmed value, length >= 2); re-parse claim only for brace-balanced values not ending in a backslash (and without a bare quote for the quote default)",
}
RULE = ("case = one value (string over the small alphabet, grammar value, digit string, int); each is checked under 8 AddEnclosing option sets x 2 modes x "
        "numeric/non-numeric keys x @string; non-trivial = the trimmed value starts or ends with a delimiter, or is an integer value in a numeric field; "
        "distinct = distinct value")
ASSUMPTIONS = ["numeric field keys are the lower-case names listed by the middleware (year, month, volume, number, pages, edition, chapter, issue)"]
MIN = {"restore_law_through_middle_step": (20000, 200000), "second_removal_pass": (5000, 50000), "mixed_records": (1000, 20000), "remove_rule": (10000, 100000), "restore_law": (50000, 500000), "reparse": (5000, 50000), "integer_rule": (500, 2000), "no_raise": (50000, 500000)}

ALPHA = ["{", "}", '"', "a", " ", "#", "\\"]
OPTS = [(d, reuse, ei) for d in ("{", '"') for reuse in (False, True) for ei in (False, True)]


def exhaustive(tier):
    return f"all strings of length 0..{tier_pick(tier, 4, 5)} over {ALPHA!r} x 8 option sets x 2 modes x {{title, year}} fields and @string"


def cases(tier, seed, shard, nshards):
    idx = 0
    for n in range(0, tier_pick(tier, 4, 5) + 1):
        for t in itertools.product(ALPHA, repeat=n):
            if idx % nshards == shard:
                yield {"k": "str", "v": "".join(t)}
            idx += 1
    ints = [0, 7, 12, 2024, 10 ** 12, -1, -2020]
    digs = ["0", "7", "007", "2024", "12", "1" * 30, "١٢", "²", "1 2", "12a", "-3", "+3", "3.5", "", "2019\n", "2019 ", "\n2019", "2019\r\n", "20\n19", "2019\t", " 7", "7\n\n", "1_000"]
    for v in ints:
        if idx % nshards == shard:
            yield {"k": "int", "v": v}
        idx += 1
    for v in digs:
        if idx % nshards == shard:
            yield {"k": "digits", "v": v}
        idx += 1
    # contents that OTHER shipped middlewares care about (months, numbers in and out of the month range, macro names, names,
    # URLs, LaTeX), in every enclosing: what matters for the restore law with a step in between (seed C10-l)
    semantic = ["13", "0", "2019", "1", "12", "007", "jan", "January", "JANUARY", "dec", "s", "k", "Doe, John and Roe, Jane", "a and b", "http://x.y/z", "\\'e", "caf\u00e9", "$x$", "a & b",
                "13 ", "may", "May", "sept", "1.0", "²"]
    for c in semantic:
        for enc in ("{%s}", '"%s"', "%s", "{{%s}}", '"{%s}"', "{ %s }"):
            if idx % nshards == shard:
                yield {"k": "str", "v": enc % c, "sem": True}
            idx += 1
    r = rng_for(seed, shard, "c10")
    for _ in range(tier_pick(tier, 16000, 1000000) // nshards):
        o = grammar.Opts(nest=r.choice([1, 3]))
        v = grammar.value(r, o)
        if r.random() < .3:
            v = r.choice([" ", "\n", "\t"]) + v + r.choice([" ", "\n", ""])
        yield {"k": "str", "v": v}
    for _ in range(tier_pick(tier, 8000, 500000) // nshards):
        o = grammar.Opts(nest=r.choice([1, 3]))
        yield {"k": "content", "v": grammar._no_trailing_backslash(grammar._defuse(grammar.body(r, o, 1)))}
    # entries where only some fields carry a removed-enclosing record (fields added after parsing)
    recorded = ["{x}", '"x"', "12", "ident", "{a} # {b}", '""', "{}"]
    contents = ["see Smith, Jones and others", 'he said "hi", twice', "plain", "a {b} c", "x = y", "2019", ""]
    idx = 0
    for v1 in recorded:
        for c in contents:
            for pos in (0, 1, 2):
                if idx % nshards == shard:
                    yield {"k": "mixed", "v1": v1, "c": c, "pos": pos}
                idx += 1
    for _ in range(tier_pick(tier, 2000, 100000) // nshards):
        o = grammar.Opts(nest=1, multiline=False)
        yield {"k": "mixed", "v1": grammar.value(r, o), "c": grammar._no_trailing_backslash(grammar._defuse(grammar.body(r, o, 1))), "pos": r.randrange(3)}


def partners(t):
    """Are the first and the last character of t a matching pair of delimiters (escapes read pairwise)?  '{a} # {b}' and
    '"a" # "b"' start and end with delimiters that are NOT partners."""
    if len(t) < 2 or (t[0], t[-1]) not in (("{", "}"), ('"', '"')):
        return False
    depth, run = 0, 0
    for i, ch in enumerate(t):
        if ch == "\\":
            run += 1
            continue
        escaped, run = run % 2 == 1, 0
        if escaped:
            continue
        if ch == "{":
            depth += 1
        elif ch == "}":
            depth -= 1
            if depth == 0 and t[0] == "{" and i < len(t) - 1:
                return False
        elif ch == '"' and depth == 0 and t[0] == '"' and 0 < i < len(t) - 1:
            return False
    return True


def rule(v):
    t = v.strip()
    if len(t) >= 2 and t[0] == "{" and t[-1] == "}":
        return t[1:-1], "{"
    if len(t) >= 2 and t[0] == '"' and t[-1] == '"':
        return t[1:-1], '"'
    return t, "no-enclosing"


def balanced(c):
    """brace-balanced in the dialect (a brace or quote after an odd run of backslashes is a literal); also reports bare top-level quotes."""
    depth = 0
    bare_quote = False
    run = 0                      # length of the backslash run directly in front of ch (escapes are read pairwise)
    for i, ch in enumerate(c):
        if ch == "\\":
            run += 1
            continue
        escaped, run = run % 2 == 1, 0
        if escaped:
            continue
        if ch == "{":
            depth += 1
        elif ch == "}":
            depth -= 1
            if depth < 0:
                return False, bare_quote
        elif ch == '"' and depth == 0:
            bare_quote = True
    return depth == 0, bare_quote


def vclass(v):
    if not isinstance(v, str):
        return type(v).__name__
    t = v.strip()
    if t == '"':
        return "lone-quote"
    if t in ("{", "}"):
        return "lone-brace"
    if len(t) >= 2 and t[0] in '{"' and t[-1] in '}"':
        return "enclosed" if rule(v)[1] != "no-enclosing" else "mixed-delims"
    if t[:1] in '{"' or t[-1:] in '}"':
        return "half-enclosed"
    if t.isdigit():
        return "digits"
    return "plain"


OTHER = ['"Quoted other"', "{Braced other}", "bareOther", "17"]


def mk(value, with_string=True):
    # a case-variant key with a (usually) different enclosing sits in the same entry: records are per field key
    other = OTHER[len(str(value)) % len(OTHER)]
    specs = [["entry", "article", "k", [["title", value], ["Title", other], ["year", value], ["YEAR", other]], "raw", 0]]
    if with_string and isinstance(value, str):
        specs.append(["string", "s", value])
    specs.append(["icomment", "c"])
    return build.library(specs)


def run(mw, lib):
    return sp.escape(lambda: mw.transform(lib))


def _middles(inplace):
    from bibtexparser import middlewares as M
    return [lambda: M.MonthIntMiddleware(allow_inplace_modification=inplace), lambda: M.MonthAbbreviationMiddleware(allow_inplace_modification=inplace),
            lambda: M.MonthLongStringMiddleware(allow_inplace_modification=inplace), lambda: M.SortFieldsAlphabeticallyMiddleware(allow_inplace_modification=inplace),
            lambda: M.SortFieldsCustomMiddleware(order=("year", "month"), allow_inplace_modification=inplace), lambda: M.ResolveStringReferencesMiddleware(allow_inplace_modification=inplace),
            lambda: M.LatexDecodingMiddleware(allow_inplace_modification=inplace), lambda: M.SeparateCoAuthors(allow_inplace_modification=inplace),
            lambda: M.SortBlocksByTypeAndKeyMiddleware(), lambda: M.LatexEncodingMiddleware(allow_inplace_modification=inplace)]


def through_middle(v, n, ctx):
    """Restore law with another shipped middleware between removal and re-adding (seed C10-l: a month middleware overwrote the
    record of a value it left alone): whenever the middle step leaves a field's value as it is, adding back with reuse must
    still give the original value."""
    from bibtexparser.middlewares import AddEnclosingMiddleware, RemoveEnclosingMiddleware
    inplace = bool(n & 1)
    out = []
    keys = ["title", "month", "year", "author", "Month"]
    lib = build.library([["entry", "article", "k", [[k, v] for k in keys], "raw", 0], ["string", "s", v], ["icomment", "c"]])
    st, a = run(RemoveEnclosingMiddleware(allow_inplace_modification=inplace), lib)
    if st == "raise" or not a.entries:
        return out
    stripped = {f.key: f.value for f in a.entries[0].fields}
    sval = a.strings[0].value if a.strings else None
    mids = _middles(inplace)
    mid = mids[(n >> 1) % len(mids)]()
    st, m = run(mid, a)
    ctx.ran(2)
    if st == "raise" or not m.entries:
        ctx.note("middle_step_unusable")
        return out
    same = [f.key for f in m.entries[0].fields if f.key in stripped and type(f.value) is type(stripped[f.key]) and f.value == stripped[f.key]]
    (d, _, ei) = OPTS[(n >> 5) % len(OPTS)]
    st, b = run(AddEnclosingMiddleware(reuse_previous_enclosing=True, enclose_integers=ei, default_enclosing=d, allow_inplace_modification=inplace), m)
    ctx.ran()
    if st == "raise":
        return [Violation("raised", f"C10:add-raised-after-middle-step:{type(mid).__name__}:{b.split(':')[0]}", dict(value=v, middle=type(mid).__name__, error=b))]
    ctx.mon("restore_law_through_middle_step", len(same))
    got = {f.key: f.value for f in b.entries[0].fields} if b.entries else {}
    bad = [k for k in same if got.get(k) != v.strip()]
    if bad:
        out.append(Violation("restore-law", f"C10:restore-law:after-value-preserving-{type(mid).__name__}:{vclass(v)}",
                             dict(value=v, middle=type(mid).__name__, fields=bad, got={k: got.get(k) for k in bad}, want=v.strip(), opts=[d, True, ei])))
    if sval is not None and m.strings and m.strings[0].value == sval and b.strings and b.strings[0].value != v.strip():
        out.append(Violation("restore-law", f"C10:restore-law:string:after-value-preserving-{type(mid).__name__}", dict(value=v, got=b.strings[0].value)))
    return out


def check(case, ctx):
    from bibtexparser.middlewares import AddEnclosingMiddleware, RemoveEnclosingMiddleware
    from bibtexparser.splitter import Splitter
    v = case.get("v", case.get("v1"))
    out = []
    cls = vclass(v)
    ctx.state(f"{case['k']}:{cls}")
    nontriv = False
    literal_reading = []      # reported in addition; must not cut the other monitors short
    if case["k"] in ("str", "digits"):
        want_val, want_kind = rule(v)
        nontriv = cls in ("enclosed", "lone-quote", "lone-brace", "mixed-delims", "half-enclosed") or (cls == "digits")
        for inplace in (False, True):
            lib = mk(v)
            st, r1 = run(RemoveEnclosingMiddleware(allow_inplace_modification=inplace), lib)
            ctx.ran()
            ctx.mon("no_raise")
            if st == "raise":
                return [Violation("raised", f"C10:remove-raised:{cls}:{r1.split(':')[0]}", dict(value=v, error=r1))]
            e = r1.entries[0]
            s = r1.strings[0]
            ctx.mon("remove_rule")
            got = [(f.key, f.value) for f in e.fields if f.key in ("title", "year")] + [("@string", s.value)]
            other = OTHER[len(str(v)) % len(OTHER)]
            if any(f.value != rule(other)[0] for f in e.fields if f.key in ("Title", "YEAR")):
                out.append(Violation("remove-rule", f"C10:remove-rule:case-variant-key:{cls}", dict(value=v, other=other, got=[(f.key, f.value) for f in e.fields])))
                break
            if any(val != want_val for _, val in got):
                out.append(Violation("remove-rule", f"C10:remove-rule:{cls}", dict(value=v, got=got, want=want_val)))
                break
            if want_kind != "no-enclosing" and not partners(v.strip()) and not inplace:
                # literal reading of "strips exactly one outer pair (nothing if there is none)": first and last delimiter are not
                # partners, there is no outer pair - the library strips them all the same (known finding K5; everything else in
                # this check follows the positional reading, on which the restore law and the default round trip rely)
                literal_reading.append(Violation("remove-rule", "C10:remove-rule:first-and-last-delimiter-are-no-pair", dict(value=v, got=got)))
            md = e.parser_metadata.get("removed_enclosing")
            okind = rule(OTHER[len(str(v)) % len(OTHER)])[1]
            if md != {"title": want_kind, "Title": okind, "year": want_kind, "YEAR": okind} or s.parser_metadata.get("removed_enclosing") != want_kind:
                out.append(Violation("remove-metadata", f"C10:remove-metadata:{cls}", dict(value=v, got=srepr(md), string=srepr(s.parser_metadata), want=want_kind)))
                break
            # a second removal pass over the same block: strips the next layer (if any) and records THAT
            st, r1b = run(RemoveEnclosingMiddleware(allow_inplace_modification=inplace), r1)
            ctx.ran()
            ctx.mon("second_removal_pass")
            if st == "raise":
                out.append(Violation("raised", f"C10:remove-raised-second-pass:{cls}:{r1b.split(':')[0]}", dict(value=v, error=r1b)))
                break
            want2, kind2 = rule(want_val)
            e2, s2 = r1b.entries[0], r1b.strings[0]
            if any(f.value != want2 for f in e2.fields if f.key in ("title", "year")) or s2.value != want2:
                out.append(Violation("remove-rule", f"C10:remove-rule:second-pass:{cls}", dict(value=v, got=[f.value for f in e2.fields], want=want2)))
                break
            md2 = e2.parser_metadata.get("removed_enclosing") or {}
            if (md2.get("title"), md2.get("year")) != (kind2, kind2) or s2.parser_metadata.get("removed_enclosing") != kind2:
                out.append(Violation("remove-metadata", f"C10:remove-metadata:second-pass:{vclass(want_val)}",
                                     dict(value=v, got=srepr(e2.parser_metadata.get("removed_enclosing")), string=srepr(s2.parser_metadata), want=kind2)))
                break
            st, back = run(AddEnclosingMiddleware(reuse_previous_enclosing=True, enclose_integers=True, default_enclosing="{", allow_inplace_modification=inplace), r1b)
            ctx.ran()
            if st == "raise" or any(f.value != want_val.strip() for f in back.entries[0].fields if f.key in ("title", "year")) or back.strings[0].value != want_val.strip():
                out.append(Violation("restore-law", f"C10:restore-law:second-pass:{vclass(want_val)}", dict(value=v, got=srepr(back), want=want_val.strip())))
                break
            # restore law under every option set with reuse=True
            for (d, reuse, ei) in OPTS:
                if not reuse:
                    continue
                lib2 = mk(v)
                st, a = run(RemoveEnclosingMiddleware(allow_inplace_modification=inplace), lib2)
                st, b = run(AddEnclosingMiddleware(reuse_previous_enclosing=True, enclose_integers=ei, default_enclosing=d,
                                                   allow_inplace_modification=inplace), a)
                ctx.ran(2)
                ctx.mon("no_raise")
                ctx.mon("restore_law")
                if st == "raise":
                    out.append(Violation("raised", f"C10:add-raised:{cls}:{b.split(':')[0]}", dict(value=v, opts=[d, reuse, ei], error=b)))
                    break
                got = [f.value for f in b.entries[0].fields if f.key in ("title", "year")] + [b.strings[0].value]
                oth = [f.value for f in b.entries[0].fields if f.key in ("Title", "YEAR")]
                if any(x != OTHER[len(str(v)) % len(OTHER)] for x in oth):
                    out.append(Violation("restore-law", f"C10:restore-law:case-variant-key", dict(value=v, opts=[d, reuse, ei], got=oth, want=OTHER[len(str(v)) % len(OTHER)])))
                    break
                if any(x != v.strip() for x in got):
                    out.append(Violation("restore-law", f"C10:restore-law:{cls}", dict(value=v, opts=[d, reuse, ei], got=got, want=v.strip())))
                    break
            if out:
                break
        if not out and isinstance(v, str):
            h = sum(map(ord, v)) * 7 + len(v) + ctx.cases
            for j in range(20 if case.get("sem") else 2):
                out += through_middle(v, h * 2 + j + 13 * j, ctx)
        # integer rule (fresh value, no metadata): digit strings stay bare iff configured; digit look-alikes
        # (whitespace inside/around, signs, separators) are not integer values and must be enclosed
        if isinstance(v, str) and (case["k"] == "digits" or (v.isascii() and v.isdigit())):
            out += int_rule(v, ctx)
    elif case["k"] == "int":
        nontriv = True
        out += int_rule(v, ctx)
    elif case["k"] == "content":
        c = v
        ok, bare_quote = balanced(c)
        if not ok or c.endswith("\\"):
            ctx.note("content_outside_quantifier")
            return []
        nontriv = True
        for d in ("{", '"'):
            if d == '"' and bare_quote:
                continue
            for inplace in (False, True):
                # what else is in the library must not matter: a @string and an entry NAMED like the content (seed C10-g)
                lib = build.library([["entry", "article", "k", [["f", c]], "raw", 0], ["string", "s", c], ["string", c, "{other}"],
                                     ["entry", "book", c, [["f", "{other}"]], "raw2", 1], ["string", c.lower() or "x", '"o"']])
                st, r = run(AddEnclosingMiddleware(reuse_previous_enclosing=False, enclose_integers=True, default_enclosing=d,
                                                   allow_inplace_modification=inplace), lib)
                ctx.ran()
                ctx.mon("no_raise")
                if st == "raise":
                    return [Violation("raised", f"C10:add-raised:content:{r.split(':')[0]}", dict(value=c, error=r))]
                enclosed = r.entries[0].fields[0].value
                senclosed = r.strings[0].value
                text = "@a{k, f = " + enclosed + "}\n@string{s = " + senclosed + "}"
                ctx.mon("reparse")
                st, lib2 = sp.escape(lambda: Splitter(text).split())
                ctx.ran()
                good = st == "ok" and len(lib2.blocks) == 2 and sp.block_kind(lib2.blocks[0]) == "entry" and len(lib2.blocks[0].fields) == 1
                if good:
                    f = lib2.blocks[0].fields[0]
                    good = f.key == "f" and rule(f.value)[0] == c and rule(f.value)[1] == d
                    sb = lib2.blocks[1]
                    good = good and sp.block_kind(sb) == "string" and rule(sb.value)[0] == c
                items = recogniser.recognise(text)
                if items is None:
                    ctx.note("recogniser_rejects_enclosed_text")
                if not good:
                    out.append(Violation("reparse", f"C10:reparse:default={d}", dict(content=c, text=text, got=sp.project_lib(lib2) if st == "ok" else lib2)))
                    break
            if out:
                break
    elif case["k"] == "mixed":
        out += mixed(case, ctx)
        nontriv = True
    if nontriv:
        ctx.nontriv([case["k"], v])
        if ctx.cases % 499 == 0:
            ctx.sample(case)
    return out + literal_reading


def mixed(case, ctx):
    """A parsed entry (records for its fields) that got new fields afterwards: with reuse on, recorded
    fields are restored, fields WITHOUT a record get the default enclosing / the integer rule."""
    from bibtexparser.middlewares import AddEnclosingMiddleware, RemoveEnclosingMiddleware
    from bibtexparser.model import Field
    from bibtexparser.splitter import Splitter
    v1, c, pos = case["v1"], case["c"], case["pos"]
    ok, bare_quote = balanced(c)
    if not ok or c.endswith("\\"):
        ctx.note("content_outside_quantifier")
        return []
    out = []
    for (d, reuse, ei) in OPTS:
        if not reuse or (d == '"' and bare_quote):
            continue
        for inplace in (False, True):
            lib = build.library([["entry", "article", "k", [["title", v1], ["year", v1]], "raw", 0]])
            st, lib = run(RemoveEnclosingMiddleware(allow_inplace_modification=True), lib)
            if st == "raise":
                return [Violation("raised", f"C10:remove-raised:mixed:{lib.split(':')[0]}", dict(case=case, error=lib))]
            e = lib.entries[0]
            e.fields.insert(pos, Field("note", c))
            e.fields.insert(pos, Field("volume", "7"))
            st, r = run(AddEnclosingMiddleware(reuse_previous_enclosing=True, enclose_integers=ei, default_enclosing=d,
                                               allow_inplace_modification=inplace), lib)
            ctx.ran()
            ctx.mon("no_raise")
            ctx.mon("mixed_records")
            if st == "raise":
                return [Violation("raised", f"C10:add-raised:mixed:{r.split(':')[0]}", dict(case=case, error=r))]
            vals = {f.key: f.value for f in r.entries[0].fields}
            want_note = (d + c + ("}" if d == "{" else '"'))
            want_vol = "7" if not ei else (d + "7" + ("}" if d == "{" else '"'))
            if vals["title"] != v1.strip() or vals["year"] != v1.strip():
                out.append(Violation("restore-law", "C10:restore-law:mixed-records", dict(case=case, opts=[d, reuse, ei], got=vals)))
                return out
            if vals["note"] != want_note or vals["volume"] != want_vol:
                which = "note" if vals["note"] != want_note else "volume"
                out.append(Violation("unrecorded-field", f"C10:mixed-records:unrecorded-{which}-not-default-enclosed",
                                     dict(case=case, opts=[d, reuse, ei], got=vals, want_note=want_note, want_volume=want_vol)))
                return out
            text = "@a{k, f = " + vals["note"] + "}"
            st, lib2 = sp.escape(lambda: Splitter(text).split())
            ctx.ran()
            good = st == "ok" and len(lib2.blocks) == 1 and sp.block_kind(lib2.blocks[0]) == "entry" and len(lib2.blocks[0].fields) == 1 \
                and rule(lib2.blocks[0].fields[0].value)[0] == c
            if not good:
                out.append(Violation("reparse", f"C10:reparse:mixed-records:default={d}", dict(case=case, text=text)))
                return out
    return out


def int_rule(v, ctx):
    """digit strings / ints in numeric and non-numeric fields, no metadata present."""
    from bibtexparser.middlewares import AddEnclosingMiddleware, RemoveEnclosingMiddleware
    out = []
    if type(v) is int:
        # removal on an int: there is no enclosing - value untouched, 'no-enclosing' recorded, adding back with reuse restores it
        for inplace in (False, True):
            lib = build.library([["entry", "article", "k", [["year", v], ["title", "{T}"]], "raw", 0]])
            st, r = run(RemoveEnclosingMiddleware(allow_inplace_modification=inplace), lib)
            ctx.ran()
            ctx.mon("no_raise")
            if st == "raise":
                return [Violation("raised", f"C10:remove-raised:int:{r.split(':')[0]}", dict(value=v, error=r))]
            e = r.entries[0]
            md = e.parser_metadata.get("removed_enclosing") or {}
            if type(e["year"]) is not int or e["year"] != v or e["title"] != "T" or md.get("year") != "no-enclosing" or md.get("title") != "{":
                return [Violation("remove-rule", "C10:remove-rule:int", dict(value=v, got=srepr(e.fields), metadata=srepr(md)))]
    for (d, reuse, ei) in OPTS:
        for inplace in (False, True):
            lib = build.library([["entry", "article", "k", [["year", v], ["title", v], ["volume", v]], "raw", 0]])
            st, r = run(AddEnclosingMiddleware(reuse_previous_enclosing=reuse, enclose_integers=ei, default_enclosing=d,
                                               allow_inplace_modification=inplace), lib)
            ctx.ran()
            ctx.mon("no_raise")
            ctx.mon("integer_rule")
            if st == "raise":
                out.append(Violation("raised", f"C10:int-rule-raised:{type(v).__name__}:{r.split(':')[0]}", dict(value=v, opts=[d, reuse, ei], error=r)))
                return out
            vals = {f.key: f.value for f in r.entries[0].fields}
            enc = (d + str(v) + ("}" if d == "{" else '"'))
            is_nonneg = str(v).isdigit()
            ambiguous = isinstance(v, str) and v.isdigit() and not v.isascii()    # e.g. superscript two: either outcome accepted
            for key in ("year", "volume", "title"):
                numeric = key != "title"
                if numeric and not ei and ambiguous:
                    ok = vals[key] in (v, enc)
                elif numeric and not ei and is_nonneg:
                    ok = vals[key] == v or vals[key] == str(v)
                else:
                    ok = vals[key] == enc
                if not ok:
                    out.append(Violation("integer-rule", f"C10:integer-rule:{type(v).__name__}:{'numeric' if numeric else 'text'}-field:enclose_integers={ei}",
                                         dict(value=v, key=key, opts=[d, reuse, ei], got=srepr(vals[key]), want="unenclosed" if (numeric and not ei and is_nonneg) else enc)))
                    return out
    return out


def shrink(case, still):
    if not isinstance(case["v"], str):
        return case
    from ..shrink import ddmin_str
    return dict(case, v=ddmin_str(case["v"], lambda s: still(dict(case, v=s)), max_tests=200))
