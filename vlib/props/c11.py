"""C11 - @string references resolve exactly: bare matching identifiers only.

Differential monitor against a ten-line resolution model evaluated on the recogniser's ground
truth, observed on parse_string (default stack).
"""
import itertools

from ..core import Violation, rng_for, tier_pick
from ..ref import recogniser
from .. import sp

ID = "C11"
META = {
    "technique": "runtime monitoring: differential monitor of parse_string's resolved field values, @string blocks and resolution metadata against a 10-line reference model over enumerated value shapes x definition placements",
    "level_text": "Every document of one entry with 1-2 fields over the 17 stated value shapes x every list of 0-2 definitions x every before/after placement is parsed by the real entry point and compared with the model (first definition wins, bare case-sensitive identifiers only, enclosed/concatenated/undefined values keep their own content, strings unchanged, metadata lists exactly the resolved keys in order); random larger documents add duplicated and interleaved definitions. Field names include the reserved-looking ID / ENTRYTYPE (entries whose key and type are macro names). Thirteen definitions whose content is itself enclosed, numeric or padded ({{2019}}, \"{12}\", { 7 }, {{jan}}, ...) are referenced from twelve field names that other middlewares treat specially (year, month, volume, pages, author, url, ...).",
    "level_note": "content = value with one positional enclosing layer removed (the reading of C10)",
}
RULE = ("case = document built from value shapes {bare defined key, bare undefined key, '{key}', '\"key\"', other case, 'key # key', number} "
        "and @string definitions placed before/after/between/duplicated; non-trivial = at least one field resolved AND at least one look-alike "
        "not resolved; distinct = distinct text")
ASSUMPTIONS = ["unique entry keys and unique field keys per entry (collisions are C09's subject)"]
MIN = {"field_value_model": (30000, 300000), "metadata_model": (10000, 100000), "strings_unchanged": (10000, 100000)}

DEFS = [("s", "{X}"), ("s", '"Y y"'), ("S", "{Z}"), ("t", "s"), ("t", "{a} # {b}"), ("s", "12"), ("s", "t"), ("u", "u"), ("st", "{W}"), ("k-2", "{P}"), ("a:b.c+d", "{Q}"), ("jan", '"Januar"')]
DEFS_X = [("s", "{{2019}}"), ("s", '"{12}"'), ("t", "{ 7 }"), ("s", "{{Nature}}"), ("s", '{"3"}'), ("t", "{{{1}}}"), ("s", '" 2020"'), ("s", "{jan}"), ("t", "{{jan}}"), ("s", "{12--15}"),
          ("s", "{{Doe, J. and Roe, K.}}"), ("s", "{http://a.b/c_d}"), ("s", "{{\\'e}}")]
NAMES = ["s", "S", "t", "u", "st", "k-2", "a:b.c+d", "jan"]


def values():
    vs = ["12"]
    for n in NAMES:
        vs += [n, "{%s}" % n, '"%s"' % n, "%s # %s" % (n, n)]
    return vs


def exhaustive(tier):
    return ("one entry with 1-2 fields over 29 value shapes x ordered lists of 0-2 definitions from 11 (incl. punctuation in macro names, chains, a 2-cycle and a self-reference) x each definition placed "
            "before or after the entry")


FIELD_NAMES = ["f0", "f1", "month", "Month", "author"]      # distinct within one entry for up to 4 fields
ENTRY_KEYS = ["s", "e1", "t", "S"]      # entry keys that are also macro names (separate key spaces)


def render(defs_before, entries, defs_after):
    parts = ["@string{%s = %s}" % d for d in defs_before]
    for i, fields in enumerate(entries):
        parts.append("@misc{%s, %s}" % (ENTRY_KEYS[i % len(ENTRY_KEYS)], ", ".join("%s = %s" % (FIELD_NAMES[(i + j) % len(FIELD_NAMES)] if j else FIELD_NAMES[i % 2 * 2], v) for j, v in enumerate(fields))))
    parts += ["@string{%s = %s}" % d for d in defs_after]
    return "\n".join(parts) + "\n"


def cases(tier, seed, shard, nshards):
    vs = values()
    fieldsets = [(v,) for v in vs] + list(itertools.product(vs, vs))
    deflists = [()] + [(d,) for d in DEFS] + list(itertools.product(DEFS, DEFS))
    idx = 0
    for dl in deflists:
        for mask in range(1 << len(dl)):
            before = [d for i, d in enumerate(dl) if not (mask >> i) & 1]
            after = [d for i, d in enumerate(dl) if (mask >> i) & 1]
            for fs in fieldsets:
                if idx % nshards == shard:
                    yield {"k": "enum", "text": render(before, [fs], after)}
                idx += 1
    # fields NAMED like the entry's reserved read-only items, in entries whose key / type are macro names
    for d in DEFS:
        for v in vs:
            for fname in ("ID", "ENTRYTYPE"):
                for ek, et in (("s", "misc"), ("e1", "s"), (d[0], d[0])):
                    if idx % nshards == shard:
                        yield {"k": "enum", "text": "@string{%s = %s}\n@%s{%s, %s = %s, f0 = %s}\n" % (d[0], d[1], et, ek, fname, v, v)}
                    idx += 1
    # definitions whose content is itself enclosed / numeric / padded, referenced from fields that other middlewares treat
    # specially by NAME (seed C11-n: the enclosing removal stripped every layer around digits in year, volume, ... but one layer
    # in the @string): the field must hold exactly what the @string block holds
    for d in DEFS_X:
        for fname in ("year", "month", "volume", "number", "pages", "edition", "chapter", "issue", "note", "author", "url", "Year"):
            for v in (d[0], "{%s}" % d[0], "%s # %s" % (d[0], d[0])):
                for order in (0, 1):
                    if idx % nshards == shard:
                        de, en = "@string{%s = %s}" % d, "@misc{e1, %s = %s, f0 = %s}" % (fname, v, d[0])
                        yield {"k": "enum", "text": (de + "\n" + en if order else en + "\n" + de) + "\n"}
                    idx += 1
    r = rng_for(seed, shard, "c11")
    n = tier_pick(tier, 32000, 2500000) // nshards
    ws = ["", " ", "\n ", "  "]
    for i in range(n):
        nd = r.randint(0, 3)
        ne = r.randint(1, 4)
        blocks = []
        for _ in range(nd):
            k, v = r.choice(DEFS + DEFS_X)
            blocks.append("@%s{%s%s%s=%s%s%s}" % (r.choice(["string", "String", "STRING"]), r.choice(ws), k, r.choice(ws), r.choice(ws), v, r.choice(ws)))
        for e in range(ne):
            nf = r.randint(1, 4)
            # (reserved-looking field names too: the v1-compatibility accessor entry[key] special-cases them; seed C11-k)
            fn = r.sample(["f0", "f1", "f2", "month", "Month", "year", "volume", "pages", "number", "author", "crossref", "ID", "ENTRYTYPE", "key", "type", "id"], nf)
            fs = ",".join("%s%s%s=%s%s%s" % (r.choice(ws), fn[j], r.choice(ws), r.choice(ws), r.choice(vs), r.choice(ws)) for j in range(nf))
            blocks.append("@article{%s,%s%s}" % (["s", "k1", "t", "st"][e], fs, r.choice(["", ",", " , "])))
        if r.random() < .3:
            blocks.append("% free text s t S")
        if r.random() < .3:
            blocks.append("@comment{s}")
        r.shuffle(blocks)
        yield {"k": "rand", "text": r.choice(["\n", "\n\n", " "]).join(blocks)}


def strip_layer(v):
    v = v.strip()
    if len(v) >= 2 and ((v[0] == "{" and v[-1] == "}") or (v[0] == '"' and v[-1] == '"')):
        return v[1:-1]
    return v


def is_bare_identifier(v):
    return not (v[:1] in '{"' and v[-1:] in '}"') and "#" not in v and not any(c.isspace() for c in v)


def model(items):
    defs = {}
    for it in items:
        if it["kind"] == "string" and it["key"] not in defs:
            defs[it["key"]] = it["value"]
    exp_entries = []
    for it in items:
        if it["kind"] != "entry":
            continue
        fields, resolved = [], []
        for f in it["fields"]:
            v = f[1].strip()
            if is_bare_identifier(v) and v in defs:
                fields.append([f[0], strip_layer(defs[v])])
                resolved.append(f[0])
            else:
                fields.append([f[0], strip_layer(v)])
        exp_entries.append((it["key"], fields, resolved))
    return defs, exp_entries


def check(case, ctx):
    text = case["text"]
    items = recogniser.recognise(text)
    if items is None:
        ctx.note("oracle_disagreement")
        ctx.sample({"not_in_dialect": text, "why": recogniser.why_not(text)})
        return []
    st, lib = sp.parse_default(text)
    ctx.ran()
    if st == "raise":
        return [Violation("raised", f"C11:raise:{lib.split(':')[0]}", dict(error=lib, text=text))]
    defs, exp_entries = model(items)
    out = []
    got_entries = lib.entries
    if [e.key for e in got_entries] != [k for k, _, _ in exp_entries]:
        return [Violation("entries-differ", "C11:entries-differ", dict(text=text, got=[e.key for e in got_entries]))]
    n_res = n_look = 0
    for e, (key, fields, resolved) in zip(got_entries, exp_entries):
        got = [[f.key, f.value] for f in e.fields]
        ctx.mon("field_value_model", len(fields))
        if got != fields:
            j = next((i for i, (a, b) in enumerate(zip(got, fields)) if a != b), 0)
            src = next(f[1] for it in items if it["kind"] == "entry" and it["key"] == key for f in it["fields"] if f[0] == fields[j][0])
            shape = ("enclosed" if src[:1] in '{"' else "concat" if "#" in src else "defined" if src in defs else
                     "case-variant" if src.lower() in {d.lower() for d in defs} else "undefined")
            out.append(Violation("field-value", f"C11:field-value:{shape}", dict(text=text, entry=key, got=got, want=fields)))
            break
        ctx.mon("metadata_model")
        meta = e.parser_metadata.get("ResolveStringReferences")
        if (meta or []) != resolved or (meta is not None and not resolved):
            out.append(Violation("metadata", "C11:metadata", dict(text=text, entry=key, got=meta, want=resolved)))
            break
        n_res += len(resolved)
        n_look += len(fields) - len(resolved)
    # @string blocks stay, in order, unchanged (first live, later ones flagged as duplicates)
    ctx.mon("strings_unchanged")
    src_strings = [it for it in items if it["kind"] == "string"]
    live = []
    seen = set()
    for it in src_strings:
        if it["key"] not in seen:
            seen.add(it["key"])
            live.append([it["key"], strip_layer(it["value"])])
    got_strings = [[s.key, s.value] for s in lib.blocks if sp.block_kind(s) == "string"]
    if got_strings != live:
        out.append(Violation("strings-changed", "C11:strings-changed", dict(text=text, got=got_strings, want=live)))
    if len(lib.blocks) != len(items):
        out.append(Violation("block-count", "C11:block-count", dict(text=text, got=len(lib.blocks), want=len(items))))
    ctx.state(f"defs={len(defs)} res={min(n_res, 3)} look={min(n_look, 3)}")
    if n_res and n_look:
        ctx.nontriv(text)
        if ctx.cases % 499 == 0:
            ctx.sample(text)
    return out


def shrink(case, still):
    from ..shrink import ddmin_str
    return {"k": "enum", "text": ddmin_str(case["text"], lambda s: still({"k": "enum", "text": s}), max_tests=300)}
