"""C01 - parsing and re-writing never raise: bad input becomes failed blocks.

Monitors: escape monitor on parse_string / write_string; containment pairing (abort origins seen
by the tracer == syntax-level failed blocks); failed-block shape; bounded progress as a logical
step budget enforced from the sys.monitoring callback; write determinism.
"""
import sys
from ..core import Violation, rng_for, tier_pick
from ..gen import grammar, tokens, garbage
from ..monitors.tracer import TRACER, StepBudgetExceeded
from .. import sp

ID = "C01"
META = {
    "technique": "runtime monitoring: escape monitor + abort/failed-block pairing via sys.monitoring RAISE events + logical step budget (PY_START) + CPU-time budget (ITIMER_VIRTUAL) + growth monitor (all function entries at doubled size, second sys.monitoring tool) + 'syntax error must surface' monitor, over bounded-exhaustive token sequences, Unicode garbage, a source-derived literal dictionary and size-scaled families",
    "level_text": "parse_string and write_string are executed on every token sequence up to the bound, on Unicode garbage, on truncations/corruptions of valid documents and on size-scaled families (10^3..10^5 lines, deep nesting, unterminated blocks); also @string reference chains/cycles and one family per string literal found in the repository source (magic-value branches); any escaping exception, a non-Library/str result, a failed block without error/raw, or a blown step/CPU budget is a violation (abort origins vs. failed blocks are recorded as evidence). A growth monitor runs every family at sizes 400 and 800 and compares the work (all Python function entries) of parsing and of writing: more than a factor 3 when the size doubles is a violation (superlinear, i.e. a practical hang at the sizes the statement names). A names family puts 90 hostile texts (format/regex metacharacters, escaped delimiters, odd white space, very long names) into every name position, once and repeated. Digit-like texts (on which isdigit() and int() disagree, 700/4400-digit numbers) go into all potentially numeric fields. Pairs of names in a relation (case variants, casefold, NFD/NFKC, prefix, extension, trailing ZWSP, reversal) go into every pair of name positions, both orders. Every third text is also written under one of six non-default BibtexFormats (value columns 0/1/10/40/'auto', indents, separators, custom warning line).",
    "level_note": "'never hangs' is decided as a bounded number of repository function entries per parse plus a CPU-time budget of the worker process (20 s + 1 s per 2000 characters); the wall-clock watchdog only yields inconclusive; known finding K4: the family 'one big entry + many duplicates of its key' grows quadratically in write_string",
}
RULE = ("cases = all token sequences <= L over the splitter alphabet, random Unicode garbage, prefixes/corruptions of grammar "
        "derivations, size-scaled families; non-trivial = the parse produced >= 1 failed block, or the text has >= 1000 lines, "
        "or brace nesting >= 100; distinct = distinct text (families: name and size)")
ASSUMPTIONS = ["CPU budget = 20 CPU-seconds + 1 s per 2000 characters per parse (process CPU time, ITIMER_VIRTUAL)", "step budget = 400 repository function entries per input character + 20000", "sys.monitoring RAISE events attribute BlockAbortedException to its origin frame"]
MIN = {"escape_write_with_format": (50000, 500000), "growth_monitor": (30, 30), "escape_parse": (100000, 1000000), "escape_write": (100000, 1000000), 
       "failed_block_shape": (10000, 100000), "size_family": (40, 80)}

ALPHA = ["@a", "@comment", "@string", "@preamble", "{", "}", '"', ",", "=", "\n", " ", "\\", "x", "#"]


HOSTILE_NAMES = ["x\\{y", "x\\}y", "\\{", "\\}", "x\\{\\}y", "\\}\\{", "{0}", "{}", "%s", "%(k)s", "%d", "%", "x%", "{x", "x}", "{x}", "a{b}c", "\\", "x\\", "\\\\", "$1",
                 "\\1", "\\g<0>", "(", ")", "[", "]", "a(b", "a[b", "*", "+", "?", "a|b", "^", "$", ".", "\\d", "\\N{X}", "\\x", "\\u12", "'", "\\'", "`", "a'b", "é", "İ", "ß", "\u00a0", "\ufeff",
                 "\u2028", "\x0b", "\x0c", "\x1c", "\x85", "\u3000", "#", "x#y", "a=b", "=", "a b", "key with blanks", "\"", "a\"b", "\"x\"", "@", "x@y", "@x", ",", "None", "True", "0", "-1", "__class__",
                 "__dict__", "ID", "ENTRYTYPE", "\\\"", "\\,", "\\=", "\\@", "\\#", "x\\ y", "\t", "x\ty", "\r", "x" * 300, "é" * 70, "\\{" * 40, "\\\\" * 40 + "\\}",
                 # digit-like texts: str.isdigit()/isdecimal()/isnumeric() and int() disagree on them (seed C01-k)
                 "\u00b2", "\u2460", "\u0661\u0662", "\uff11\uff12", "\u00bd", "\u2082", "\u216b", "\u4e09", "007", "-1", "+1", "1_000", "1e5", "0x10", " 12 ", "12\n", "9" * 4400, "9" * 700]
# RELATED names (seed C01-l: two entry keys that differ only in letter case reach an assertion in the duplicate handling):
# pairs that are "the same" under some normalisation a maintainer might apply to names, in every pair of name positions
import unicodedata as _ud
_REL_BASE = ["Knuth1984", "a", "Straße", "été", "İx", "ﬁle", "key-1", "a.b", "ǅz", "Σσς", "K1", "K1", "x y"]


def _related(n):
    out = [n.lower(), n.upper(), n.swapcase(), n.casefold(), n.title(), _ud.normalize("NFD", n), _ud.normalize("NFKC", n), _ud.normalize("NFKD", n),
           n + " ", " " + n, n + "\u200b", n[:-1], n + n[-1], n[::-1], n.replace("-", "_").replace(".", "_"), n.strip("1"), n.encode("ascii", "ignore").decode() or "e"]
    return [m for m in dict.fromkeys(out) if m != n and m.strip() == m and m]


RELATED_PAIRS = [(n, m) for n in _REL_BASE for m in _related(n)]
PAIR_SHAPES = ["@a{%1, t = 1}\n@b{%2, t = 2}", "@a{%1, t = 1}\n@a{%2, t = 2}\n@a{%1, t = 3}\n@a{%2, t = 4}", "@string{%1 = {v}}\n@string{%2 = {w}}\n@a{k, t = %1, u = %2}",
               "@a{k, %1 = 1, %2 = 2}", "@a{k, %1 = 1, %2 = 2, %1 = 3}", "@%1{k, t = 1}\n@%2{k, t = 2}", "@string{%1 = {v}}\n@a{%2, t = %2 # %1}", "@a{%1, %2 = {x}}\n@a{%2, %1 = {y}}",
               "@a{%1, t = {x}\n@a{%2, t = {y}}\n@a{%1, t = {z}}", "@a{%2, t = 1, t = 2}\n@a{%1, t = 3}\n@a{%2, t = 4}"]
NAME_SHAPES = ["@a{%s, t = 1}", "@a{%s, t = 1}\n@a{%s, t = 2}", "@a{%s}\n@b{%s}\n@a{%s,}", "@string{%s = {v}}", "@string{%s = {v}}\n@string{%s = \"w\"}\n@a{k, t = %s}",
               "@a{k, %s = 1}", "@a{k, %s = 1, %s = {2}}", "@a{k, t = 1, %s = 1, u = 2, %s = 3, %s = 4}", "@%s{k, t = 1}", "@%s{k, t = 1}\n@%s{k, t = 2}", "@a{k, t = %s}",
               "@a{k, t = %s # %s}", "@a{%s, %s = %s}\n@a{%s, %s = %s}", "@string{%s = %s}\n@string{%s = %s}", "@a{k, year = {%s}, volume = %s, pages = \"%s\", month = %s, number = {%s}, edition = {%s}, chapter = %s, issue = \"%s\"}",
               "@string{year = {%s}}\n@a{k, year = year, volume = {%s} # year}", "@a{%s, t = {x}\n@a{%s, t = {y}}\n@a{%s, t = {z}}"]


def _L(tier):
    return tier_pick(tier, 5, 6)


def exhaustive(tier):
    return f"all token sequences of length <= {_L(tier)} over {ALPHA!r}"


def fam_text(name, n):
    ent = "@article{k%d, title = {T%d}, year = 20%02d}\n"
    if name == "blank_lines":
        return "\n" * n
    if name == "blank_lines_then_entry":
        return "\n" * n + "@a{k, t = {x}}\n"
    if name == "crlf_blank_lines":
        return "\r\n" * n
    if name == "comment_lines":
        return "% a comment line\n" * n
    if name == "comment_lines_between_entries":
        return "@a{k1}\n" + "% c\n" * n + "@a{k2}\n"
    if name == "value_lines":
        return "@a{k, t = {" + "line of text\n" * n + "}, u = 1}\n"
    if name == "quoted_value_lines":
        return '@a{k, t = "' + "line of text\n" * n + '"}\n'
    if name == "explicit_comment_lines":
        return "@comment{" + "line\n" * n + "}\n@a{k}"
    if name == "preamble_lines":
        return "@preamble{" + "line\n" * n + "}\n@a{k}"
    if name == "string_lines":
        return "@string{s = {" + "line\n" * n + "}}\n@a{k}"
    if name == "entries":
        return "".join(ent % (i, i, i % 100) for i in range(n))
    if name == "entries_one_line":
        return "".join("@a{k%d,t={x}}" % i for i in range(n))
    if name == "duplicate_entries":
        return "@a{k, t = {x}}\n" * n
    if name == "fields":
        return "@a{k,\n" + "".join(" f%d = {v%d},\n" % (i, i) for i in range(n)) + "}\n"
    if name == "dup_fields":
        return "@a{k,\n" + " f = {v},\n" * n + "}\n"
    if name == "nest_value":
        return "@a{k, t = " + "{" * n + "x" + "}" * n + "}\n@b{j}"
    if name == "nest_value_open":
        return "@a{k, t = " + "{" * n + "x\n@b{j}"
    if name == "nest_comment":
        return "@comment" + "{" * n + "x" + "}" * n + "\n@b{j}"
    if name == "nest_preamble":
        return "@preamble" + "{" * n + "x" + "}" * n
    if name == "nest_quote":
        return '@a{k, t = "' + "{" * n + 'x"' + "}" * n + '"}'
    if name == "close_braces":
        return "}" * n + "@a{k}"
    if name == "long_line":
        return "@a{k, t = {" + "x" * (n * 10) + "}}"
    if name == "long_free_line":
        return "x" * (n * 10)
    if name == "unterminated_openers":
        return "@a{k%d, t = {x\n" * n
    if name == "unterminated_openers_sameline":
        return "@a{" * n
    if name == "unterminated_strings":
        return "@string{s = \n" * n
    if name == "unterminated_comments":
        return "@comment{ c\n" * n
    if name == "quotes":
        return "@a{k, t = " + '"' * n + "}"
    if name == "commas":
        return "@a{k" + "," * n + "}"
    if name == "equals":
        return "@a{k, " + "=" * n + "}"
    if name == "ats":
        return "@" * n + "{"
    if name == "backslash_lines":
        return "\\\n" * n + "@a{k}"
    if name == "backslash_runs":
        # long runs of backslashes in front of delimiters (the escape test counts the run)
        return "@a{k, t = {" + ("\\" * 40 + "}" + "\\" * 41 + "{") * (n // 40) + "}}\n@a{j}"
    if name == "backslash_run_long":
        return "@a{k, t = {" + "\\" * (n * 10) + "}}\n@comment{" + "\\" * (n * 10 + 1) + "}}\n@a{j}"
    if name == "dup_big_first":
        # one entry with n/2 fields followed by n/2 entries re-using its key (every duplicate wrapper refers to the big first entry)
        return "@a{k,\n" + "".join("f%d=1,\n" % i for i in range(n // 2)) + "}\n" + "@a{k}\n" * (n // 2)
    if name == "string_refs":
        return "".join("@string{s%d = {v%d}}\n" % (i, i) for i in range(n)) + "".join("@a{k%d, t = s%d}\n" % (i, i) for i in range(n))
    if name == "at_word_runs":
        return "% contact: admin@" + "w" * min(n // 20, 400) + ".example.org\n@a{k, t = {x}}\n" + "@" + "x_" * 30 + " \n"
    if name == "at_dotted_words":
        return ("see user@" + "sub-domain." * 8 + "org and @" + "ab:" * 12 + "z\n") * max(1, min(n // 1000, 5)) + "@a{k}"
    if name == "string_chain":
        return "".join("@string{s%d = s%d}\n" % (i, i + 1) for i in range(n)) + "@string{s%d = {end}}\n@a{k, t = s0, u = s%d}\n" % (n, n // 2)
    if name == "string_cycle":
        m = max(2, n // 500)
        return "".join("@string{c%d = c%d}\n" % (i, (i + 1) % m) for i in range(m)) + "@a{k, t = c0, u = c1}\n" + "@a{k%d, t = c0}\n" * 3
    if name == "eof_in_constructs":
        doc = ent % (1, 1, 1) * 3
        return doc + doc[: (n % len(doc))]
    raise KeyError(name)


FAMILIES = ["blank_lines", "blank_lines_then_entry", "crlf_blank_lines", "comment_lines", "comment_lines_between_entries",
            "value_lines", "quoted_value_lines", "explicit_comment_lines", "preamble_lines", "string_lines", "entries",
            "entries_one_line", "duplicate_entries", "fields", "dup_fields", "nest_value", "nest_value_open", "nest_comment",
            "nest_preamble", "nest_quote", "close_braces", "long_line", "long_free_line", "unterminated_openers",
            "unterminated_openers_sameline", "unterminated_strings", "unterminated_comments", "quotes", "commas", "equals",
            "ats", "backslash_lines", "backslash_runs", "backslash_run_long", "string_refs", "string_chain", "string_cycle", "at_word_runs", "at_dotted_words", "eof_in_constructs", "dup_big_first"]
SUPERLINEAR = {"dup_big_first"}   # reported by the growth monitor (known finding K4); sizes capped so that the size runs stay affordable


def sizes(tier, name):
    s = [1000, 3000, 10000] if tier == "quick" else [1000, 3000, 10000, 30000, 100000]
    if name in SUPERLINEAR:
        s = [x for x in s if x <= 3000]
    return s


def cases(tier, seed, shard, nshards):
    jobs = [(f, n) for f in FAMILIES for n in sizes(tier, f)]
    # largest first so that the long ones are spread over the shards
    jobs.sort(key=lambda j: -j[1])
    for i, (f, n) in enumerate(jobs):
        if i % nshards == shard:
            yield {"k": "fam", "name": f, "n": n}
    for i, f in enumerate(FAMILIES):
        if i % nshards == shard:
            yield {"k": "growth", "name": f}
    j = 0
    for shape in ("@a{k, %s}", "@a{k, t = {x}, %s}", "@article{k,\n  title = {x},\n  %s\n}", '@a{k, t = "x" , %s }\n@b{j}', "@a{k, t = 1, u = 2, %s}"):
        for junk in ("junk", "junk Jane Doe", "% a remark", "t", "title {x}", "é", "x y z"):
            j += 1
            if j % nshards == shard:
                yield {"k": "junk", "text": shape % junk, "junk": junk}
    for seq in tokens.sequences(ALPHA, _L(tier), shard, nshards):
        yield {"k": "tok", "text": "".join(seq)}
    from ..gen import dictionary
    shapes = ["@comment{%s}", "@Comment{%s x}", "@comment{%s", "@a{k, t = {%s}}", "@a{k, %s = {v}}", "%s\n@a{k}", "@string{s = {%s}}\n@a{k, t = s}",
              "@preamble{%s}", "@a{%s, t = 1}", "@%s{k, t = 1}", "@a{k, month = %s, author = {%s}}"]
    j = 0
    for lit in dictionary.literals():
        for sh in shapes:
            j += 1
            if j % nshards == shard:
                yield {"k": "dict", "text": sh.replace("%s", lit)}
    # hostile texts in every NAME position (block type, entry key, @string key, field key), once and repeated: names
    # reach error messages, dict keys, format templates and regexes that ordinary values never reach (seed C01-g)
    j = 0
    for name in HOSTILE_NAMES:
        for sh in NAME_SHAPES:
            j += 1
            if j % nshards == shard:
                yield {"k": "names", "text": sh.replace("%s", name)}
    for n1, n2 in RELATED_PAIRS:
        for sh in PAIR_SHAPES:
            for a, b in ((n1, n2), (n2, n1)):
                j += 1
                if j % nshards == shard:
                    yield {"k": "names", "text": sh.replace("%1", a).replace("%2", b), "related": True}
    r = rng_for(seed, shard, "c01")
    n = tier_pick(tier, 40000, 1000000) // nshards
    for i in range(n):
        yield {"k": "garbage", "text": garbage.text(r)}
    for i in range(tier_pick(tier, 8000, 200000) // nshards):
        yield {"k": "refgraph", "text": refgraph(r)}
    n = tier_pick(tier, 16000, 300000) // nshards
    for i in range(n):
        text, _ = grammar.document(r, grammar.Opts(max_items=r.choice([2, 4, 8])))
        if i % 2:
            yield {"k": "prefix", "text": text[:r.randint(0, len(text))]}
        else:
            yield {"k": "corrupt", "text": garbage.corrupt(r, text)}


def setup(ctx):
    sp.scan_states_on()


def finish(ctx):
    sp.scan_states_flush(ctx)


def refgraph(r):
    """@string definitions over a tiny key pool whose values reference each other (chains, cycles,
    self-references, duplicates) and entries referencing them."""
    keys = ["a", "b", "c", "A"]
    blocks = []
    for _ in range(r.randint(1, 5)):
        v = r.choice(keys + keys + ["{x}", '"y"', "a # b", "12"])
        blocks.append("@%s{%s = %s}" % (r.choice(["string", "STRING"]), r.choice(keys), v))
    for i in range(r.randint(1, 3)):
        blocks.append("@misc{e%d, f = %s, g = %s}" % (i, r.choice(keys), r.choice(keys + ["{a}", "a # a"])))
    r.shuffle(blocks)
    return "\n".join(blocks) + "\n"


class CpuBudgetExceeded(BaseException):
    pass


def _on_vtalrm(signum, frame):
    raise CpuBudgetExceeded("CPU-time budget of this process exceeded inside one call")


def cpu_budget(nchars):
    """20 CPU-seconds + 1 s per 2000 characters: about 100x the normal cost; CPU time of this process,
    not wall-clock, so machine load cannot trip it (C-level loops such as regex backtracking make no
    Python calls, so the step budget cannot see them; the re engine does poll for signals)."""
    return 20.0 + nchars / 2000.0


_G = {"tool": None, "n": 0}


def _count_all(code, off):
    _G["n"] += 1


def work(fn):
    """Number of Python function entries (library, standard library, everything) during fn(): a deterministic measure
    of work, unlike time."""
    mon = sys.monitoring
    if _G["tool"] is None:
        mon.use_tool_id(4, "verif-growth")
        mon.register_callback(4, mon.events.PY_START, _count_all)
        _G["tool"] = 4
    _G["n"] = 0
    mon.set_events(4, mon.events.PY_START)
    try:
        res = fn()
    finally:
        mon.set_events(4, 0)
    return _G["n"], res


def check_growth(case, ctx):
    """'whatever the size': doubling the size of a family member must about double the work of parsing and of writing.
    A ratio above 3 (quadratic growth gives 4) means the family turns into a practical hang at the sizes the
    statement names (10^5 lines), long before a budget per call could show it."""
    import bibtexparser
    name = case["name"]
    out = []
    meas = {}
    for n in (400, 800):
        text = fam_text(name, n)
        st, r = sp.escape(lambda: work(lambda: bibtexparser.parse_string(text)))
        if st == "raise":
            return []          # the size runs report raising
        p, lib = r
        st, r = sp.escape(lambda: work(lambda: bibtexparser.write_string(lib)))
        if st == "raise":
            return []
        meas[n] = (p, r[0])
        ctx.ran(2)
    ctx.mon("growth_monitor")
    for i, phase in enumerate(("parse", "write")):
        a, b = meas[400][i], meas[800][i]
        ratio = b / max(a, 1)
        ctx.notes[f"work_ratio_x100:{phase}:{name}"] = int(100 * ratio)
        if a > 2000 and ratio > 3.0:
            out.append(Violation("superlinear", f"C01:superlinear:{phase}:{name}", dict(family=name, work_at_400=a, work_at_800=b, ratio=round(ratio, 2))))
    ctx.state(f"growth:{name}")
    return out


def check(case, ctx):
    import signal
    import bibtexparser
    if case["k"] == "growth":
        return check_growth(case, ctx)
    from bibtexparser.library import Library
    from bibtexparser.exceptions import BlockAbortedException
    fam = case["k"] == "fam"
    text = fam_text(case["name"], case["n"]) if fam else case["text"]
    tag = case["name"] if fam else case["k"]
    out = []
    if fam:
        ctx.mon("size_family")
    # -- parse under the escape monitor and the step budget
    TRACER.reset_scan()
    TRACER.budget = 400 * len(text) + 20000 if TRACER.on else None
    signal.signal(signal.SIGVTALRM, _on_vtalrm)
    signal.setitimer(signal.ITIMER_VIRTUAL, cpu_budget(len(text)))
    try:
        st, lib = sp.escape(lambda: bibtexparser.parse_string(text))
    finally:
        signal.setitimer(signal.ITIMER_VIRTUAL, 0)
        TRACER.budget = None
    ctx.ran()
    ctx.mon("escape_parse")
    aborts, steps, depth = TRACER.aborts, TRACER.steps, TRACER.next_mark_maxdepth
    if st == "raise":
        et = lib.split(":")[0]
        kind = "no-progress" if et in ("StepBudgetExceeded", "CpuBudgetExceeded") else "parse-raised"
        return [Violation(kind, f"C01:{kind}:{et}:{tag}", dict(error=lib, text=text[:300], chars=len(text), case=case if fam else None))]
    if not isinstance(lib, Library):
        return [Violation("not-a-library", f"C01:not-a-library:{tag}", dict(got=type(lib).__name__, text=text[:300]))]
    # -- failed blocks carry an error and their raw text; every abort became exactly one failed block
    synt = 0
    for b in lib.failed_blocks:
        ctx.mon("failed_block_shape")
        if not isinstance(b.error, Exception) or not isinstance(b.raw, str):
            out.append(Violation("failed-block-shape", f"C01:failed-block-shape:{sp.block_kind(b)}",
                                 dict(error=repr(b.error)[:80], raw=repr(b.raw)[:80], text=text[:300])))
            break
        if isinstance(b.error, BlockAbortedException):
            synt += 1
    if TRACER.on:
        # evidence only: how many abort origins the tracer saw vs. syntax-level failed blocks.  (Not a verdict: it
        # depends on how the splitter uses exceptions internally; a swallowed abort shows up as lost text in C03.)
        ctx.mon("abort_pairing_observed")
        if aborts != synt:
            ctx.note("abort_origins_differ_from_failed_blocks")
    # -- write (default stack) never raises, returns str, is deterministic
    TRACER.reset_scan()
    TRACER.budget = 400 * len(text) + 20000 if TRACER.on else None
    try:
        st, w1 = sp.escape(lambda: bibtexparser.write_string(lib))
    finally:
        TRACER.budget = None
    ctx.ran()
    ctx.mon("escape_write")
    if st == "raise":
        et = w1.split(":")[0]
        out.append(Violation("write-raised", f"C01:write-raised:{et}:{tag}", dict(error=w1, text=text[:300], chars=len(text))))
    elif not isinstance(w1, str):
        out.append(Violation("write-not-str", f"C01:write-not-str:{tag}", dict(got=type(w1).__name__)))
    elif len(text) < 5000:
        st, w2 = sp.escape(lambda: bibtexparser.write_string(lib))
        ctx.ran()
        if st != "ok" or w2 != w1:
            out.append(Violation("write-unstable", f"C01:write-unstable:{tag}", dict(text=text[:300])))
    if len(text) < 5000 and ctx.cases % 3 == 0:
        # write_string under a non-default BibtexFormat (seed C01-m: aligning the continuation lines of a multi-line value to
        # the value column raised when there were none with text): no option value may make the writer raise
        from .. import build
        fs = [["", "auto", False, "\n\n", None], ["\t", 10, True, "\n", None], ["  ", 40, True, "", None], ["", 1, False, "\n\n\n", "% {n} lines failed"],
              ["    ", 0, True, "\n", None], [" ", "auto", True, "\r\n", None]][(ctx.cases // 3) % 6]
        st, w3 = sp.escape(lambda: bibtexparser.write_string(lib, bibtex_format=build.fmt(fs)))
        ctx.ran()
        ctx.mon("escape_write_with_format")
        if st == "raise":
            out.append(Violation("write-raised", f"C01:write-raised:{w3.split(':')[0]}:{tag}:with-format", dict(error=w3, text=text[:300], fmt=fs)))
        elif not isinstance(w3, str):
            out.append(Violation("write-not-str", f"C01:write-not-str:{tag}:with-format", dict(got=type(w3).__name__)))
    nfail = len(lib.failed_blocks)
    lines = text.count("\n") + 1
    ctx.state(f"{tag}:failed={min(nfail, 3)}:depth={min(depth, 4)}")
    ctx.notes["max_scanner_reentrancy"] = max(ctx.notes.get("max_scanner_reentrancy", 0), depth)
    if fam:
        ctx.notes[f"steps_per_char_x100:{case['name']}"] = max(ctx.notes.get(f"steps_per_char_x100:{case['name']}", 0), int(100 * steps / max(1, len(text))))
    if case["k"] == "junk":
        # 'syntax errors surface only as failed blocks': text in front of the closing brace that is no field (no '=') is a
        # syntax error; it must not be accepted silently and dropped
        ctx.mon("syntax_error_surfaces")
        kept = any(case["junk"] in (f.key + " " + str(f.value)) for b in lib.entries for f in b.fields)
        if not lib.failed_blocks and not kept:
            out.append(Violation("silently-accepted", "C01:syntax-error-silently-dropped:text-without-equals-before-closing-brace",
                                 dict(text=text, blocks=[sp.block_kind(b) for b in lib.blocks], written=w1 if isinstance(w1, str) else None)))
    if nfail or lines >= 1000 or (fam and case["name"].startswith("nest") and case["n"] >= 100):
        ctx.nontriv(case if fam else text)
        if fam or ctx.cases % 1999 == 0:
            ctx.sample(case if fam else text)
    return out


def shrink(case, still):
    if case["k"] == "fam":
        n = case["n"]
        while n > 1 and still(dict(case, n=n // 2)):
            n //= 2
        return dict(case, n=n)
    from ..shrink import ddmin_str
    t = ddmin_str(case["text"], lambda s: still({"k": "tok", "text": s}))
    return {"k": "tok", "text": t}
