"""C05 - parse -> write -> parse preserves content; written text is a fixpoint.

Round-trip monitor on the real entry points under the default stacks, over grammar derivations
(with resolved/unresolved @string references) x a grid of BibtexFormat settings.
"""
import re
import itertools

from ..core import Violation, rng_for, tier_pick
from ..gen import grammar
from ..ref import recogniser
from .. import sp

ID = "C05"
META = {
    "technique": "runtime monitoring: round-trip monitor (content equality of two parses, byte equality of two writes) on parse_string/write_string under default stacks x BibtexFormat grid",
    "level_text": "Each generated well-formed document is parsed, written with a format from the 288-format grid, re-parsed and re-written by the real entry points; the two libraries must project to the same blocks (types, keys, field order, values, comment/preamble/string content) and the two outputs must be byte-identical. Values are compared exactly (white space inside an enclosing is content); 5 % of the braced/quoted values are number-like texts padded with blanks, tabs and line breaks. Every thirteenth document begins or ends with free text that reads like the writer's own 'parsing failed' warning lines.",
    "level_note": "formats with whitespace-only indent/separator (others change the document by construction); documents satisfy S1-S3 of the dialect (escapes read pairwise; comments may end in an escaped blank); known finding K3: entry types containing U+0130",
}
RULE = ("case = (grammar-derived document incl. @string references, BibtexFormat from the grid indent x value_column x trailing_comma x separator); "
        "non-trivial = the document has an entry with >= 2 fields or a resolved string reference; distinct = distinct (text, format)")
ASSUMPTIONS = ["indent and block_separator range over whitespace-only strings", "documents are collision-free (duplicates are C09/C06's subject)"]
MIN = {"roundtrip_content": (30000, 1500000), "fixpoint_bytes": (30000, 1500000), "resolved_reference_docs": (1000, 50000)}

INDENTS = ["", " ", "\t", "    "]
COLUMNS = [0, 1, 5, 12, 40, "auto"]
SEPS = ["\n\n", "\n", "", " ", "\n\n\n", "\r\n"]
FORMATS = list(itertools.product(INDENTS, COLUMNS, [False, True], SEPS))


def mkformat(spec):
    from bibtexparser import BibtexFormat
    f = BibtexFormat()
    f.indent, f.value_column, f.trailing_comma, f.block_separator = spec
    return f


def with_refs(r, text, truth):
    """Append/prepend @string definitions and entries whose fields reference them (bare identifiers),
    some defined, some not."""
    defs = []
    names = ["sA", "sB", "sC"]
    for nm in names[:r.randint(1, 3)]:
        # incl. macros defined through another macro (bare reference), a chain the parser resolves one level deep
        defs.append("@string{%s = %s}" % (nm, r.choice(['"Jan"', "{Some {Nested} text}", "12", '"a" # "b"', "{x, y = z}", "sA", "sB", "sC", "undefinedRef", "sA # sB"])))
    uses = []
    for i in range(r.randint(1, 3)):
        fs = ", ".join("f%d = %s" % (j, r.choice(names + ["undefinedRef", "sa", "{sA}", '"sB"', "sA # sB", "42"])) for j in range(r.randint(1, 3)))
        uses.append("@misc{refuser%d, %s}" % (i, fs))
    parts = [text.rstrip()]
    where = r.random()
    if where < .4:
        parts = defs + parts + uses
    elif where < .7:
        parts = uses + parts + defs
    else:
        parts = defs[:1] + uses + parts + defs[1:]
    return "\n".join(p for p in parts if p) + "\n"


def cases(tier, seed, shard, nshards):
    r = rng_for(seed, shard, "c05")
    n = tier_pick(tier, 48000, 2400000) // nshards
    for i in range(n):
        opts = grammar.Opts(max_items=r.choice([1, 3, 6]), nest=r.choice([1, 3]), big=0.01)
        text, truth = grammar.document(r, opts)
        if i % 3 == 0:
            text = with_refs(r, text, truth)
        if i % 13 == 0:
            # free text that reads like what the writer itself emits (seed C05-m: trailing "parsing failed" warning lines of
            # an implicit comment were dropped on writing): the leftovers of an earlier write/repair cycle are content
            w = "%% WARNING Parsing failed for the following %d lines." % r.choice([1, 2, 3, 10])
            text = r.choice([w + "\n" + text, text.rstrip() + "\n" + w + "\n", "some text\n" + w + "\n" + text, w + "\n" + w + "\n" + text, text.rstrip() + "\n\n" + w])
        yield {"text": text, "fmt": list(FORMATS[r.randrange(len(FORMATS))])}


def check(case, ctx):
    import bibtexparser
    text = case["text"]
    items = recogniser.recognise(text)
    if items is None:
        ctx.note("oracle_disagreement")
        ctx.sample({"not_in_dialect": text, "why": recogniser.why_not(text)})
        return []
    fmt = tuple(case["fmt"])
    out = []

    def step(name, fn):
        st, res = sp.escape(fn)
        ctx.ran()
        if st == "raise":
            out.append(Violation("raised", f"C05:raise:{name}:{res.split(':')[0]}", dict(step=name, error=res, text=text, fmt=fmt)))
            return None
        return res

    l1 = step("parse1", lambda: bibtexparser.parse_string(text))
    if l1 is None:
        return out
    w1 = step("write1", lambda: bibtexparser.write_string(l1, bibtex_format=mkformat(fmt)))
    if w1 is None:
        return out
    l2 = step("parse2", lambda: bibtexparser.parse_string(w1))
    if l2 is None:
        return out
    w2 = step("write2", lambda: bibtexparser.write_string(l2, bibtex_format=mkformat(fmt)))
    if w2 is None:
        return out
    # exact comparison: white space inside an enclosing is content ("the same ... values"), seed C05-l
    p1, p2 = sp.project_lib(l1, exact=True), sp.project_lib(l2, exact=True)
    ctx.mon("roundtrip_content")
    # mechanism tag: an entry type whose lower-cased form is no longer a word (U+0130 'İ' -> 'i' + combining dot)
    odd_type = any(sp.block_kind(b) == "entry" and not re.fullmatch(r"\w+", b.entry_type or "x") for b in l1.blocks)
    tag = ":entry-type-lowercases-out-of-word-class" if odd_type else ""
    if p1 != p2:
        i = next((j for j, (a, b) in enumerate(zip(p1, p2)) if a != b), min(len(p1), len(p2)))
        k1 = p1[i][0] if i < len(p1) else "none"
        k2 = p2[i][0] if i < len(p2) else "none"
        out.append(Violation("content-differs", f"C05:content-differs:{k1}>{k2}{tag}",
                             dict(text=text, fmt=fmt, written=w1, first=p1[i:i + 1], second=p2[i:i + 1])))
    ctx.mon("fixpoint_bytes")
    if w1 != w2:
        out.append(Violation("not-a-fixpoint", "C05:not-a-fixpoint" + tag, dict(text=text, fmt=fmt, w1=w1, w2=w2)))
    resolved = any(b.parser_metadata.get("ResolveStringReferences") for b in l1.entries)
    if resolved:
        ctx.mon("resolved_reference_docs")
    ctx.state(f"indent={fmt[0]!r} col={fmt[1]} tc={fmt[2]} sep={fmt[3]!r}")
    if resolved or any(len(e.fields) >= 2 for e in l1.entries):
        ctx.nontriv([text, fmt])
        if ctx.cases % 199 == 0:
            ctx.sample({"text": text, "fmt": fmt})
    return out


def shrink(case, still):
    from ..shrink import ddmin_str
    t = ddmin_str(case["text"], lambda s: still(dict(case, text=s)), max_tests=300)
    return dict(case, text=t)
