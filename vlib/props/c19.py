"""C19 - an entry behaves like an insertion-ordered mapping of its fields; equality is structural.

Monitors: icontract postcondition on Entry's mutators (the three views agree) + lock-step dict
model after every operation (all read operations for all keys are re-checked after each
mutation); single-attribute perturbation monitor for ==.
"""
import copy
import itertools

from ..core import Violation, rng_for, srepr, tier_pick
from ..gen import grammar
from ..monitors import contracts
from .. import sp

ID = "C19"
META = {
    "technique": "runtime monitoring: icontract postcondition on Entry mutators + lock-step insertion-ordered dict model + single-attribute perturbation monitor on __eq__ of parsed blocks and fields",
    "level_text": "All sequences of mutating operations (set_field, item assignment, pop, item deletion x 4 keys incl. case variants) to depth k from three start entries, and random sequences of depth 30, are executed on the real Entry; after each step every read operation (get, in, [], fields, fields_dict, items, ENTRYTYPE/ID) is compared with a Python dict subjected to the same operations. Every block and field of parsed documents is compared with its copy/deepcopy (must be equal) and with every single-attribute perturbation (must be unequal both ways). A third of the operation sequences start from an entry that comes out of the real parser (every source form of a field-less entry; default and empty stack) next to a witness entry of the same form that is never operated on and must stay unchanged, unshared and re-parsable. Perturbations include moving raw text and start line to None / '' / 0 / -1. Four further operations use arguments related to the entry's own state (pop with the stored Field / an equal copy / another key's Field as default, set_field of the object already stored): exhaustive to depth 2 (thorough 3) with the others and in every random sequence. A copy.copy twin of the entry (every third case; half of them looked at only once, after the last operation) must stay one consistent mapping whatever it shares with the original.",
    "level_note": "`del entry[absent]`: KeyError or a no-op are both accepted (statement and documented contract disagree), fields must stay unchanged",
}
RULE = ("mapping cases = operation sequences over keys {a, A, ab, b}: exhaustive to depth k from 3 start entries + random depth 30; non-trivial = "
        "the sequence replaces an existing key and removes a key; equality cases = parsed documents, every block/field x every perturbation "
        "kind; non-trivial = document with >= 1 entry with >= 2 fields; distinct = distinct sequence / document")
ASSUMPTIONS = ["field keys distinct and not ENTRYTYPE/ID", "perturbed objects are rebuilt through the public constructors"]
MIN = {"model_step": (100000, 1000000), "entry_invariant": (100000, 1000000), "eq_copy": (5000, 100000), "eq_perturbation": (20000, 400000), "start_entry_with_middleware_metadata": (5000, 50000), "state_related_argument": (20000, 200000), "shallow_copy_self_consistent": (20000, 200000)}

KEYS = ["a", "A", "ab", "b"]      # case variants and keys that are substrings of another key
MUT = [(op, k) for op in ("set_field", "setitem", "pop", "pop_default", "delitem") for k in KEYS]
# arguments RELATED to the entry's own state (seed C19-l: `pop(key, default)` with the stored field itself as default):
# the stored Field object / an equal copy of it / the field stored under another key as `default`, and set_field
# with the very object that is already stored
MUT_REL = [(op, k) for op in ("pop_same", "pop_equal", "pop_other", "set_same") for k in KEYS]
MUT2 = MUT + MUT_REL
STARTS = [[], ["a", "b"], ["A", "a", "ab"], ["k%d" % i for i in range(12)] + ["ab", "a"] + ["j%d" % i for i in range(12)]]


# "starting from arbitrary parsed entries": the start entry first passes (in place) through a shipped middleware
# that leaves metadata behind, as entries parsed with a non-default stack do
PRES = [None, None, "alpha", "custom", "enclosing", "resolve"]


def pre_apply(lib, pre):
    from bibtexparser import middlewares as mws
    mw = {"alpha": lambda: mws.SortFieldsAlphabeticallyMiddleware(), "custom": lambda: mws.SortFieldsCustomMiddleware(order=("b", "a")),
          "enclosing": lambda: mws.RemoveEnclosingMiddleware(), "resolve": lambda: mws.ResolveStringReferencesMiddleware()}[pre]()
    return mw.transform(lib)


def _K(tier):
    return tier_pick(tier, 3, 4)


def exhaustive(tier):
    return f"all sequences of 1..{_K(tier)} mutating operations ({len(MUT)} shapes) from each of {len(STARTS)} start entries"


def cases(tier, seed, shard, nshards):
    idx = 0
    for k in range(1, _K(tier) + 1):
        for si in range(len(STARTS)):
            for seq in itertools.product(range(len(MUT)), repeat=k):
                if idx % nshards == shard:
                    c = {"k": "map", "start": si, "ops": [list(MUT[i]) for i in seq], "pre": PRES[(idx // nshards) % len(PRES)]}
                    if (idx // nshards) % 3 == 0 and si < 3:
                        c["parsed"] = (idx // nshards // 3) % 8
                    yield c
                idx += 1
    # state-related arguments: exhaustive to depth 2 (thorough: 3) over the wider operation set, and in every random sequence
    for k in range(1, tier_pick(tier, 2, 3) + 1):
        for si in range(len(STARTS)):
            for seq in itertools.product(range(len(MUT2)), repeat=k):
                if not any(i >= len(MUT) for i in seq):
                    continue
                if idx % nshards == shard:
                    yield {"k": "map", "start": si, "ops": [list(MUT2[i]) for i in seq], "pre": PRES[(idx // nshards) % len(PRES)]}
                idx += 1
    r = rng_for(seed, shard, "c19")
    for _ in range(tier_pick(tier, 8000, 60000) // nshards):
        c = {"k": "map", "start": r.randrange(len(STARTS)), "ops": [list(r.choice(MUT2)) for _ in range(30)], "pre": r.choice(PRES)}
        if r.random() < 0.4:
            c["parsed"] = r.randrange(8)
        yield c
    for _ in range(tier_pick(tier, 6000, 400000) // nshards):
        text, _ = grammar.document(r, grammar.Opts(max_items=5, min_items=1))
        yield {"k": "eq", "text": text}


_SENTINEL = object()


def read_checks(e, d, typ, key):
    """Every read operation for every key against the dict model."""
    fields = e.fields
    if [f.key for f in fields] != list(d.keys()):
        return "field-order", f"{[f.key for f in fields]} != {list(d.keys())}"
    if any(f is not d[f.key] for f in fields):
        return "field-identity", "a field object differs from the one the model holds"
    fd = e.fields_dict
    if list(fd.keys()) != list(d.keys()) or any(fd[k] is not d[k] for k in d):
        return "fields_dict", srepr(fd)
    if e.items() != [("ENTRYTYPE", typ), ("ID", key)] + [(k, f.value) for k, f in d.items()]:
        return "items", srepr(e.items())
    try:
        if e["ENTRYTYPE"] != typ or e["ID"] != key:
            return "reserved-lookup", f"{e['ENTRYTYPE']!r} {e['ID']!r}"
    except Exception as ex:  # noqa
        return "reserved-lookup", f"raised {type(ex).__name__} for type={typ!r} key={key!r}"
    for k in KEYS + ["zz"]:
        if (k in e) != (k in d):
            return "contains", k
        if e.get(k) is not d.get(k):
            return "get", k
        if e.get(k, _SENTINEL) is not d.get(k, _SENTINEL):
            return "get-default", k
        other = next((f for kk, f in d.items() if kk != k), None)
        if e.get(k, other) is not d.get(k, other):
            return "get-default-stored-field", k
        try:
            v = e[k]
            if k not in d or v is not d[k].value:
                return "getitem", k
        except KeyError:
            if k in d:
                return "getitem-keyerror", k
    return None


def check_map(case, ctx):
    from bibtexparser.model import Entry, Field
    contracts.install_entry_invariant()
    c0 = contracts.COUNT["entry_invariant"]
    start = STARTS[case["start"]]
    fields = [Field(k, "v0_" + k, i) for i, k in enumerate(start)]
    typ, ekey = [("article", "Key1"), ("article", ""), ("", "0"), ("misc", "Key1")][(case["start"] + len(case["ops"])) % 4]
    e = Entry(typ, ekey, list(fields), start_line=0, raw="raw")
    sib = None
    if case.get("parsed") is not None and len(start) <= 3:
        # the start entry really comes out of the parser (every source form of a field-less entry), next to a WITNESS
        # entry of the same form that is never operated on: entries are separate mappings (seed C19-g)
        typ, ekey = "article", "Key1"
        body = lambda key: ("@article{%s, " % key + ", ".join("%s = {v0_%s}" % (k, k) for k in start) + "}") if start else \
            ["@article{%s}", "@article{%s,}", "@article{%s ,\n}", "@article{ %s }"][case["parsed"] % 4] % key
        text = body("Key1") + "\n" + body("Key2") + "\n"
        st, plib = sp.parse_default(text) if case["parsed"] & 4 else sp.parse_raw(text)
        if st != "ok" or len(plib.entries) != 2:
            ctx.note("parsed_start_unavailable")
        else:
            ctx.mon("parsed_start_entry_with_witness")
            e, sib = plib.entries
            sib_init = [(f.key, f.value) for f in sib.fields]
    if case.get("pre"):
        from bibtexparser.library import Library
        lib = pre_apply(Library([e]), case["pre"])
        e = lib.entries[0]
        ctx.mon("start_entry_with_middleware_metadata")
    d = {f.key: f for f in e.fields}
    out = []
    replaced = removed = False
    # a shallow copy of the entry taken now (or, for every other case, after the second operation): whatever the two share,
    # EACH of them must stay one consistent mapping - fields, fields_dict, items(), get, in, [] describe the same fields (seed C19-m)
    twin_at = (0 if ctx.cases % 2 else 2) if ctx.cases % 3 == 0 else -1
    twin = copy.copy(e) if twin_at == 0 else None
    why = read_checks(e, d, typ, ekey)
    if why:
        return [Violation("model-mismatch", f"C19:map:init:{why[0]}", dict(case=case, why=why))]
    for step, (op, k) in enumerate(case["ops"]):
        val = f"v{step + 1}_{k}"
        before = list(e.fields)
        res = exp = None
        try:
            if op == "set_field":
                f = Field(k, val, 100 + step)
                replaced = replaced or k in d
                d[k] = f
                res = e.set_field(f)
            elif op == "setitem":
                replaced = replaced or k in d
                e[k] = val
                # the new field object is created by the entry: adopt it, after checking key/value
                nf = next((x for x in e.fields if x.key == k), None)
                if nf is None or nf.value != val:
                    out.append(Violation("model-mismatch", "C19:map:setitem:value-not-stored", dict(case=case, step=step)))
                    break
                d[k] = nf
            elif op == "pop":
                removed = removed or k in d
                exp = d.pop(k, None)
                res = e.pop(k)
            elif op == "pop_default":
                removed = removed or k in d
                exp = d.pop(k, _SENTINEL)
                res = e.pop(k, _SENTINEL)
            elif op in ("pop_same", "pop_equal", "pop_other"):
                # the default is the stored field itself / an equal copy / the field of another key (None if there is none)
                cur = d.get(k)
                if op == "pop_same":
                    dflt = cur if cur is not None else next(iter(d.values()), None)
                elif op == "pop_equal":
                    src = cur if cur is not None else next(iter(d.values()), None)
                    dflt = copy.deepcopy(src) if src is not None else None
                else:
                    dflt = next((f for kk, f in d.items() if kk != k), None)
                removed = removed or k in d
                exp = d.pop(k, dflt)
                res = e.pop(k, dflt)
                ctx.mon("state_related_argument")
            elif op == "set_same":
                cur = d.get(k)
                f = cur if cur is not None else Field(k, val, 100 + step)
                replaced = replaced or k in d
                d[k] = f
                res = e.set_field(f)
                ctx.mon("state_related_argument")
            elif op == "delitem":
                present = k in d
                removed = removed or present
                if present:
                    del d[k]
                try:
                    del e[k]
                except KeyError:
                    if present:
                        out.append(Violation("model-mismatch", "C19:map:delitem:KeyError-on-present-key", dict(case=case, step=step)))
                        break
                    ctx.note("del_absent_raises_KeyError")
                else:
                    if not present:
                        ctx.note("del_absent_is_noop")
        except contracts.InvariantBroken as ex:
            out.append(Violation("invariant", f"C19:invariant:{op}:{str(ex)[:40]}", dict(case=case, step=step, why=str(ex))))
            break
        except BaseException as ex:  # noqa
            if isinstance(ex, (KeyboardInterrupt, SystemExit)):
                raise
            out.append(Violation("unexpected-exception", f"C19:map:{op}:{type(ex).__name__}", dict(case=case, step=step, error=srepr(ex))))
            break
        ctx.ran()
        if op.startswith("pop") and res is not exp:
            out.append(Violation("model-mismatch", f"C19:map:{op}:return-value", dict(case=case, step=step, got=srepr(res), want=srepr(exp))))
            break
        ctx.mon("model_step")
        why = read_checks(e, d, typ, ekey)
        if why:
            out.append(Violation("model-mismatch", f"C19:map:{op}:{why[0]}", dict(case=case, step=step, why=why,
                                                                                   fields=[f.key for f in e.fields], model=list(d.keys()))))
            break
        ctx.state("".join(d.keys()))
        if twin is None and step + 1 == twin_at:
            twin = copy.copy(e)
        # (half of the twins are looked at only once, after the last operation: an access may repair what it observes)
        if twin is not None and (ctx.cases % 4 < 2 or step == len(case["ops"]) - 1):
            ctx.mon("shallow_copy_self_consistent")
            why = read_checks(twin, {f.key: f for f in twin.fields}, twin.entry_type, twin.key)
            if why:
                out.append(Violation("model-mismatch", f"C19:map:shallow-copy-inconsistent:{why[0]}", dict(case=case, step=step, why=why, twin_fields=[f.key for f in twin.fields])))
                break
    if sib is not None and not out:
        now = [(f.key, f.value) for f in sib.fields]
        st, again = sp.parse_default(text) if case["parsed"] & 4 else sp.parse_raw(text)
        fresh = [(f.key, f.value) for f in again.entries[0].fields] if st == "ok" and len(again.entries) == 2 else None
        if now != sib_init or sib.fields is e.fields or [k for k, _ in sib.items()][2:] != [k for k, _ in sib_init] or fresh != sib_init:
            out.append(Violation("shared-state", "C19:map:another-entry-changed-or-later-parse-differs",
                                 dict(case=case, text=text, witness_before=sib_init, witness_after=now, fresh_parse=fresh)))
    ctx.mon("entry_invariant", contracts.COUNT["entry_invariant"] - c0)
    if replaced and removed:
        ctx.nontriv(case)
        if ctx.cases % 1999 == 0:
            ctx.sample(case)
    return out


# ---------------------------------------------------------------------------- equality
def rebuild(x, **ch):
    """A new object equal to x except for the given constructor-level changes."""
    from bibtexparser import model as M
    if isinstance(x, M.Field):
        return M.Field(ch.get("key", x.key), ch.get("value", x.value), ch.get("start_line", x.start_line))
    sl, raw = ch.get("start_line", x.start_line), ch.get("raw", x.raw)
    cls = ch.get("cls", type(x))
    if isinstance(x, M.Entry):
        y = M.Entry(ch.get("entry_type", x.entry_type), ch.get("key", x.key), ch.get("fields", [rebuild(f) for f in x.fields]), sl, raw)
    elif isinstance(x, M.String):
        y = M.String(ch.get("key", x.key), ch.get("value", x.value), sl, raw)
    elif isinstance(x, M.Preamble):
        y = M.Preamble(ch.get("value", x.value), sl, raw)
    else:
        y = cls(ch.get("comment", x.comment), sl, raw)
    for k, v in ch.get("metadata", x.parser_metadata).items():
        y.set_parser_metadata(k, copy.deepcopy(v))
    return y


def perturbations(x):
    from bibtexparser import model as M
    if isinstance(x, M.Field):
        yield "key", rebuild(x, key=x.key + "x")
        yield "value", rebuild(x, value=str(x.value) + "x")
        yield "start_line", rebuild(x, start_line=(x.start_line or 0) + 1)
        if x.start_line is not None:
            yield "start_line-to-None", rebuild(x, start_line=None)
        if x.value != "":
            yield "value-to-empty", rebuild(x, value="")
        return
    yield "start_line", rebuild(x, start_line=(x.start_line or 0) + 1)
    yield "raw", rebuild(x, raw=(x.raw or "") + " ")
    # towards 'absent' and falsy values: an unknown raw text / line is content too (seed C19-k)
    for name, val in (("raw", None), ("raw", ""), ("start_line", None), ("start_line", 0), ("start_line", -1)):
        if getattr(x, name) != val or (getattr(x, name) is None) != (val is None) or type(getattr(x, name)) is not type(val):
            yield name + "-to-" + repr(val), rebuild(x, **{name: val})
    md = dict(x.parser_metadata)
    md["__extra__"] = 1
    yield "metadata-added", rebuild(x, metadata=md)
    if x.parser_metadata:
        k0 = next(iter(x.parser_metadata))
        md = {k: v for k, v in x.parser_metadata.items() if k != k0}
        yield "metadata-removed", rebuild(x, metadata=md)
    if isinstance(x, M.Entry):
        yield "key", rebuild(x, key=x.key + "x")
        yield "entry_type", rebuild(x, entry_type=x.entry_type + "x")
        fs = x.fields
        for i in range(min(len(fs), 3)):
            for name, pf in perturbations(fs[i]):
                yield "field-" + name, rebuild(x, fields=[pf if j == i else rebuild(f) for j, f in enumerate(fs)])
        if len(fs) >= 2:
            yield "field-order", rebuild(x, fields=[rebuild(f) for f in reversed(fs)])
            yield "field-dropped", rebuild(x, fields=[rebuild(f) for f in fs[:-1]])
        yield "field-added", rebuild(x, fields=[rebuild(f) for f in fs] + [M.Field("zzz", "1", 0)])
    elif isinstance(x, M.String):
        yield "key", rebuild(x, key=x.key + "x")
        yield "value", rebuild(x, value=x.value + "x")
    elif isinstance(x, M.Preamble):
        yield "value", rebuild(x, value=x.value + "x")
    else:
        yield "comment", rebuild(x, comment=x.comment + "x")
        other = M.ImplicitComment if isinstance(x, M.ExplicitComment) else M.ExplicitComment
        yield "class", rebuild(x, cls=other)


def check_eq(case, ctx):
    from bibtexparser import model as M
    st, lib = sp.parse_default(case["text"])
    ctx.ran()
    if st == "raise":
        ctx.note("parse_raised_not_judged_here")
        return []
    out = []
    objs = []
    for b in lib.blocks:
        if sp.block_kind(b) in ("entry", "string", "preamble", "ecomment", "icomment"):
            objs.append(b)
            if isinstance(b, M.Entry):
                objs.extend(b.fields[:3])
    for x in objs:
        cname = type(x).__name__
        ctx.mon("eq_copy")
        try:
            bad = None
            if not (x == x):
                bad = "self"
            elif not (copy.copy(x) == x and x == copy.copy(x)):
                bad = "copy"
            elif not (copy.deepcopy(x) == x and x == copy.deepcopy(x)):
                bad = "deepcopy"
            elif not (rebuild(x) == x and x == rebuild(x)):
                bad = "rebuilt-equal-content"
            elif x != x or copy.deepcopy(x) != x:
                bad = "ne-inconsistent"
            if bad:
                out.append(Violation("equal-objects-unequal", f"C19:eq:{cname}:{bad}", dict(text=case["text"], obj=srepr(x))))
                break
            for name, y in perturbations(x):
                ctx.mon("eq_perturbation")
                if x == y or y == x or not (x != y):
                    out.append(Violation("different-objects-equal", f"C19:eq:{cname}:{name}", dict(text=case["text"], obj=srepr(x), attr=name)))
                    return out
        except BaseException as ex:  # noqa
            if isinstance(ex, (KeyboardInterrupt, SystemExit)):
                raise
            out.append(Violation("eq-raised", f"C19:eq:{cname}:{type(ex).__name__}", dict(text=case["text"], error=srepr(ex))))
            break
        ctx.state("eq:" + cname)
    if any(isinstance(b, M.Entry) and len(b.fields) >= 2 for b in lib.blocks):
        ctx.nontriv(case["text"])
        if ctx.cases % 499 == 0:
            ctx.sample(case["text"])
    return out


def check(case, ctx):
    return check_map(case, ctx) if case["k"] == "map" else check_eq(case, ctx)


def shrink(case, still):
    if case["k"] == "map":
        from ..shrink import ddmin_list
        return dict(case, ops=ddmin_list(case["ops"], lambda o: still(dict(case, ops=o)), max_tests=200))
    from ..shrink import ddmin_str
    return dict(case, text=ddmin_str(case["text"], lambda s: still(dict(case, text=s)), max_tests=200))
