"""C03 - block raw texts tile the source without loss or overlap; line numbers are true.

Monitor: postcondition on Splitter.split and parse_string (default stack) evaluated on every
input, well-formed or not: tiling of the raws + start_line by str.count; field start lines for
fields whose key and '=' share a line (located through the independent recogniser).
"""
from ..core import Violation, rng_for, tier_pick
from ..gen import grammar, tokens, garbage
from ..ref import recogniser, tiling
from .. import sp

ID = "C03"
META = {
    "technique": "runtime monitoring: tiling + true-line-number postcondition on Splitter.split / parse_string over bounded-exhaustive token sequences, garbage, corruptions and dedicated newline families",
    "level_text": "Every explored text (all token sequences up to the bound, random garbage, grammar derivations and their corruptions, backslash-newline/CRLF/same-line families) is split by the real code; a searched placement of the raws must tile the text with whitespace-only gaps and every start_line must equal the number of newlines before the raw; field lines are checked against the recogniser's positions. An oddws kind inserts non-ASCII and control white space next to existing white space and commas. All sequences to length 6 (thorough 7) over a second alphabet with the parenthesis delimiters `@a ( ) { } , = newline x blank` are enumerated too, and parenthesised blocks are injected into grammar documents. Half of the plain grammar documents carry @string definitions and fields referring to them, bare and in concatenations.",
    "level_note": "line = number of U+000A before the offset; field lines only for recogniser-accepted documents",
}
RULE = ("cases = all token sequences <= L over the splitter alphabet (incl. backslash, newline, CRLF token), random garbage, "
        "grammar derivations, their prefixes/mark-corruptions, dedicated line families; non-trivial = result has >= 2 blocks, "
        "or >= 1 failed block, or the text contains a backslash directly before a newline; distinct = distinct text")
ASSUMPTIONS = ["a line is terminated by U+000A only (repository convention)", "raw of duplicate wrappers = raw of the wrapped block"]
MIN = {"tiling": (100000, 1000000), "block_line": (100000, 1000000), "field_line": (5000, 50000), "failed_block_tiling": (1000, 10000)}

ALPHA = ["@a", "@comment", "@string", "{", "}", '"', ",", "=", "\n", " ", "\\", "x", "\r\n", "#", "%"]


# the other block delimiters of BibTeX, `@type( ... )` (seed C03-l: a parenthesised block reported as a failed block whose
# line breaks are not counted): the library need not support them, but raws must tile and lines must be true around them
ALPHA_PAREN = ["@a", "(", ")", "{", "}", ",", "=", "\n", "x", " "]


def _L(tier):
    return tier_pick(tier, 5, 6)


def exhaustive(tier):
    return f"all token sequences of length <= {_L(tier)} over {ALPHA!r}; all of length <= {_L(tier) + 1} with a parenthesis over {ALPHA_PAREN!r}"


FAMILY = [
    "\\\n@a{k}", "x\\\n@a{k}\n@b{j}", "@a{k, t = {a\\\nb}}\n@b{j}", "@a{k, t = {a\\\nb},\n u = 1}", "@comment{a\\\nb}\nx\n@a{k}",
    "\\\n\\\n\\\nfoo\n@a{k}", "a\r\n@a{k,\r\n t = 1\r\n}\r\nb\r\n@b{j}", "@a{k}@b{j}@comment{c}@string{s=1}x@preamble{p}",
    "@a{k} x @b{j} y", "\n\n  \n% c\n\n@a{k}\n\n\n", "   ", "\n", "", "@a{k,\n\n\n t\n = \n 1\n}\n", "@a{k, t = {\n\n}}\n@b{j}",
    "@comment{@a{k}", "@a{,{}", "@a{@a{k}", "@string{@a{k}", "@string{s@a{k}", "@a{k, t @b{j}", "@a{k, t = {x @b{j}", "@a{k, t = \"x @b{j}",
    "@a{k, t = 1 @b{j}", "@preamble{ {x\n@a{k}", "@a{k\n@b{j}", "@a{k, t = {a}{\n@b{j}", "@a{k, t = {a} x\n, u = 2}\n@b{j}",
    "@a{k, t = {a} \"\n@b{j}", "@a{k,\n t = {a} =\n}\n@b{j}", "@string{s = {a}", "@string{s {a}}\n@b{j}", "@a{k=1}\n@b{j}",
    "@a{k\"1}\n@b{j}", "@a{k{1}\n@b{j}", "@a{k, t = 1,\n = }\n@b{j}", "x\\", "\\", "@a{k}\\", "@a{k, t = {\\}}\n@b{j}",
    "@a{k, a=1, a=2}\n@a{k, b=3}\n@string{s=1}@string{s=2}", "% only a comment", "@", "@a", "@a{", "@a{k", "@a{k,", "@a{k, t", "@a{k, t =",
    "@a{k, t = {", "@a{k, t = {x}", "@a{k, t = {x},", "@a{k,\n % year = 1968\n t = {multi\nline\n},\n u = 1\n}\n@b{j}", "@a{k, % c\n t\n =\n {x}\n ,}\nfoo", "\ufeff% c\n@a{k}", "\ufeff@a{k}", "\ufeff\n\nfoo\n@a{k}", "\ufeff", "x\ufeff\n@a{k}\ufeff", " @a{k} x\x0b\x0c\x1c\x85@b{j}", "\r@a{k}\r@b{j}\rx",
    "@a{k,\u00a0\n t = 1,\u3000\r\n\r\n u = 2\n}\n@b{j}", "@a{k,\n\x0c\n t = 1,\x1c\n\x85\n u\u2028 = 2}\n\x0c\n@b{j,\n v = 3}", "@a{k\u00a0,\n t\u00a0=\u00a01\u00a0,\u00a0\n\u00a0u = {x}}",
]


def cases(tier, seed, shard, nshards):
    for i, t in enumerate(FAMILY):
        if i % nshards == shard:
            yield {"k": "fam", "text": t}
    for seq in tokens.sequences(ALPHA, _L(tier), shard, nshards):
        yield {"k": "tok", "text": "".join(seq)}
    for seq in tokens.sequences(ALPHA_PAREN, _L(tier) + 1, shard, nshards, minlen=3):
        if "(" in seq or ")" in seq:
            yield {"k": "tok", "text": "".join(seq)}
    if tier == "thorough":
        for seq in tokens.sequences_stride(ALPHA, 7, shard, nshards, stride=41, offset=seed % 41):
            yield {"k": "tok", "text": "".join(seq)}
    r = rng_for(seed, shard, "c03")
    n = tier_pick(tier, 20000, 400000) // nshards
    for i in range(n):
        yield {"k": "garbage", "text": garbage.text(r)}
    n = tier_pick(tier, 10000, 200000) // nshards
    for i in range(n):
        opts = grammar.Opts(max_items=r.choice([2, 4, 8]), entry_keys=r.choice([None, None, ["a", "b"]]),
                            field_keys=r.choice([None, None, ["t", "u"]]), big=0.01)
        text, _ = grammar.document(r, opts)
        mode = i % 5
        if mode == 0:
            if i % 2:
                # @string definitions and fields that refer to them, bare and inside `#` concatenations (seed C03-m: the default
                # stack replaced a resolved concatenation by a freshly built field without a start line)
                from .c05 import with_refs
                text = with_refs(r, text, None)
            yield {"k": "gen", "text": text}
        elif mode == 1:
            yield {"k": "prefix", "text": text[:r.randint(0, len(text))]}
        elif mode == 2:
            yield {"k": "corrupt", "text": garbage.corrupt(r, text)}
        elif mode == 3:
            yield {"k": "bsnl", "text": garbage.inject(r, text, ["\\\n", "\\\r\n", "\\", "\n", "@x{", "\n\n", "@x(", "(", ")", "@string(s = {v}\n)\n", "@x(k,\n t = {v}\n)\n"])}
        else:
            # white space other than blank/tab/CR/LF next to existing white space and commas: str.strip(), \s and
            # str.isspace() accept it, ASCII-only patterns do not (seed C03-g); the recogniser re-derives the positions
            yield {"k": "oddws", "text": oddws(r, text)}


ODD_WS = ["\u00a0", "\u3000", "\x0c", "\x0b", "\u2028", "\u2029", "\x85", "\x1c", "\x1d", "\x1e", "\x1f", "\u2003", "\u202f", "\u1680", "\ufeff", "\u200b", "\r"]


def oddws(r, text):
    out = []
    p = r.choice([0.05, 0.2, 0.5])
    for c in text:
        if c in " \t\n," and r.random() < p:
            w = r.choice(ODD_WS) * r.choice([1, 1, 2])
            out.append(w + c if r.random() < 0.5 else c + w)
        else:
            out.append(c)
    return "".join(out)


def check_lib(text, lib, ctx, api, items):
    out = []
    blocks = lib.blocks
    raws = [b.raw for b in blocks]
    ctx.mon("tiling")
    nfailed = sum(1 for b in blocks if sp.block_kind(b) in ("failed",))
    if nfailed:
        ctx.mon("failed_block_tiling")
    pos, prob = tiling.place(text, raws)
    if prob:
        i = prob["index"]
        near = None
        for j in (i, i - 1):
            if 0 <= j < len(blocks) and sp.block_kind(blocks[j]) == "failed":
                near = sp.abort_class(blocks[j])
                break
        where = sp.block_kind(blocks[i]) if i < len(blocks) else "tail"
        prev = sp.block_kind(blocks[i - 1]) if 0 < i <= len(blocks) else "start"
        out.append(Violation(prob["kind"], f"C03:{prob['kind']}:{prev}>{where}:{near}",
                             dict(api=api, problem=prob, text=text, raws=raws, kinds=[sp.block_kind(b) for b in blocks])))
        return out
    for b, p in zip(blocks, pos):
        ctx.mon("block_line")
        want = text.count("\n", 0, p)
        if b.start_line != want:
            feats = "+".join(f for f in sp.features(text) if f in ("bsnl", "crlf"))
            out.append(Violation("start-line", f"C03:start-line:{sp.block_kind(b)}:{feats}",
                                 dict(api=api, text=text, raw=b.raw, got=b.start_line, want=want)))
            break
    if items is not None and len(items) == len(blocks) and not out:
        for it, b in zip(items, blocks):
            if it["kind"] != "entry":
                continue
            k = sp.block_kind(b)
            e = b if k == "entry" else getattr(b, "ignore_error_block", None) if k in ("dupkey", "dupfield") else None
            if e is None or not hasattr(e, "fields") or len(e.fields) != len(it["fields"]):
                continue
            for f, tf in zip(e.fields, it["fields"]):
                if tf[2] == tf[3]:
                    ctx.mon("field_line")
                    if f.start_line != tf[2]:
                        feats = "+".join(x for x in sp.features(text) if x in ("bsnl", "crlf"))
                        out.append(Violation("field-line", f"C03:field-line:{feats}",
                                             dict(api=api, text=text, field=f.key, got=f.start_line, want=tf[2])))
                        return out
    return out


def setup(ctx):
    sp.scan_states_on()


def finish(ctx):
    sp.scan_states_flush(ctx)


def check(case, ctx):
    text = case["text"]
    items = recogniser.recognise(text)
    out = []
    interesting = False
    for api, fn in (("split", sp.split), ("parse_string", sp.parse_default)):
        st, lib = fn(text)
        ctx.ran()
        if st == "raise":
            # raising is C01's subject; here it only means the postcondition could not be evaluated
            ctx.note("raised_not_judged_here")
            continue
        out += check_lib(text, lib, ctx, api, items)
        kinds = [sp.block_kind(b) for b in lib.blocks]
        if len(kinds) >= 2 or "failed" in kinds or "\\\n" in text:
            interesting = True
        if api == "split":
            ctx.state(">".join(k[:3] for k in kinds[:6]))
        if out:
            break
    if interesting:
        ctx.nontriv(text)
        if ctx.cases % 997 == 0:
            ctx.sample(text)
    return out


def shrink(case, still):
    from ..shrink import ddmin_str
    t = ddmin_str(case["text"], lambda s: still({"k": "tok", "text": s}))
    return {"k": "tok", "text": t}
