"""C14 - splitting names and merging them back is an inverse pair through the whole stack.

Inverse-pair monitor on the function pair (split/parse vs merge_last_name_first/' and '-join) and
on the real entry points with the middlewares appended / their inverses prepended.
"""
from ..core import Violation, rng_for, srepr, tier_pick
from ..gen import tokens
from ..ref import names as R
from .. import sp
from . import c13

ID = "C14"
META = {
    "technique": "runtime monitoring: inverse-pair monitor on split/parse vs merge (function level) and on parse_string(append_middleware)/write_string(prepend_middleware) (document level), over bounded-exhaustive single names and random name lists",
    "level_text": "Every valid single name up to the token bound over the C13 alphabet plus the words 'and'/'AND' (as name words: tied, glued to a comma, first in the value) and random lists of 1-5 persons are split and parsed into NameParts by the real functions, merged last-name-first and joined with ' and ', and split/parsed again: the NameParts lists must be equal. Sampled documents run the same through parse_string with SeparateCoAuthors+SplitNameParts appended and write_string with MergeNameParts+MergeCoAuthors prepended (copy and in-place), re-parsed, with non-name fields and other blocks unchanged. Every alphabetic string literal of the package source (read from the tree under test) is put into nine key=value style name shapes, and pairs of them into two-key shapes.",
    "level_note": "quantifier: valid names, non-empty Last, no word ending in an odd number of backslashes; document level excludes only values containing '@' (block-opener rule S1)",
}
RULE = ("case = author value: every valid single name <= L tokens over the C13 alphabet + random lists of 1-5 persons; non-trivial = a name with a von "
        "or Jr part or >= 2 persons; distinct = distinct value")
ASSUMPTIONS = []
MIN = {"function_inverse": (50000, 500000), "document_inverse": (3000, 60000)}

# 'and' / 'AND' are ordinary lower-/upper-case words of the alphabet: as a name word (tied with '~', glued to a comma, first in the
# value) they are inside the quantifier; an earlier version assumed them away (DESIGN 8, item 16)
ALPHA = [t for t in c13.ALPHA if t not in ("{", "}", "e", "Y")] + ["and", "AND"]
WORDS = [w for w in c13.WORDS if w not in ("x\\", "\\")] + ["and", "And", "AND", "and", "\u00a0Dupont", "Jean\u00a0", "\u3000太郎", "a\u2007b", "\x0bV"]


def _L(tier):
    return tier_pick(tier, 5, 6)


def exhaustive(tier):
    return f"all token sequences of length <= {_L(tier)} over {ALPHA!r} that are valid single names in the quantifier"


def rand_person(r):
    n = r.randint(1, 6)
    parts = []
    for i in range(n):
        parts.append(r.choice(WORDS))
        if i < n - 1:
            parts.append(r.choice([" ", " ", " ", "~", ", ", ",", "  "]))
    return "".join(parts)


def cases(tier, seed, shard, nshards):
    for seq in tokens.sequences(ALPHA, _L(tier), shard, nshards):
        yield {"v": "".join(seq)}
    # words built from the string literals of the package's own source, read from the CURRENT tree (seed C14-n: names written as
    # `family=..., given=..., prefix=...` are assigned verbatim, which the merged `von Last, Jr, First` form cannot express): a keyword
    # that switches on another notation is a literal in the source, so `literal=Word` shapes reach it without knowing it in advance
    from ..gen import dictionary
    lits = [l for l in dictionary.literals(safe_for_grammar=True) if l.isalpha() and l.isascii() and len(l) <= 12]
    shapes = ["%s=van der Waals", "%s=Gogh, %s=Vincent, %s=Van", "%s=Smith, %s=Jr", "%s=Aa bb Cc, %s=Dd", "%s=Aa", "%s Aa bb Cc", "Aa %s Bb", "%s: Aa bb Cc", "%s=bb Cc, %s=Dd ee, %s=Ff"]
    j = 0
    for a in lits:
        for sh in shapes:
            j += 1
            if j % nshards == shard:
                others = [lits[(lits.index(a) + 7 * k) % len(lits)] for k in (1, 2)]
                yield {"v": sh.replace("%s", a, 1).replace("%s", others[0], 1).replace("%s", others[1], 1)}
    # ... and every ordered pair / triple of the literals that occur in one source file next to `=`-like name syntax is too many:
    # pairs of literals that share a file are enumerated for the two-key shape
    for a in lits:
        for b in lits:
            j += 1
            if a != b and j % nshards == shard and (j // nshards) % tier_pick(tier, 4, 1) == 0:
                yield {"v": "%s=Gogh van, %s=Vincent" % (a, b)}
                yield {"v": "%s=Vincent, %s=van der Waals" % (a, b)}
    r = rng_for(seed, shard, "c14")
    for _ in range(tier_pick(tier, 40000, 1500000) // nshards):
        n = r.choice([1, 2, 2, 3, 5, 8])
        yield {"v": r.choice([" and ", " AND ", "\nand ", "  and\t"]).join(rand_person(r) for _ in range(n))}


def odd_backslashes(word):
    k = len(word) - len(word.rstrip("\\"))
    return k % 2 == 1


def in_quantifier(pieces):
    """valid names, non-empty Last, no word ending in an odd number of backslashes."""
    for p in pieces:
        try:
            secs = R.tokenize(p)
        except R.Invalid:
            return False
        if not secs or not secs[0]:
            return False          # empty Last
        if any(odd_backslashes(w) for s in secs for w in s):
            return False
    return bool(pieces)


def np_list(ps):
    return [dict(first=list(p.first), von=list(p.von), last=list(p.last), jr=list(p.jr)) for p in ps]


def check(case, ctx):
    import bibtexparser
    from bibtexparser.middlewares import names as N
    v = case["v"]
    out = []
    split = N.split_multiple_persons_names
    parse = N.parse_single_name_into_parts
    st, pieces = sp.escape(lambda: split(v))
    if st == "raise" or not in_quantifier(pieces):
        ctx.note("outside_quantifier")
        return []
    st, P = sp.escape(lambda: [parse(n) for n in pieces])
    ctx.ran()
    if st == "raise":
        return [Violation("raised", f"C14:parse-raised:{P.split(':')[0]}", dict(value=v, error=P))]
    if any(not p.last for p in P):
        ctx.note("outside_quantifier")
        return []
    ctx.mon("function_inverse")
    st, v2 = sp.escape(lambda: " and ".join(p.merge_last_name_first for p in P))
    if st == "raise":
        return [Violation("raised", f"C14:merge-raised:{v2.split(':')[0]}", dict(value=v, error=v2))]
    st, P2 = sp.escape(lambda: [parse(n) for n in split(v2)])
    ctx.ran()
    multi = len(P) >= 2
    has_von = any(p.von for p in P)
    has_jr = any(p.jr for p in P)
    if st == "raise":
        out.append(Violation("raised", f"C14:reparse-raised:{P2.split(':')[0]}", dict(value=v, merged=v2, error=P2)))
    elif P2 != P:
        why = "person-count" if len(P2) != len(P) else "von" if [p.von for p in P] != [p.von for p in P2] else "jr-first" if [p.jr for p in P] != [p.jr for p in P2] else "parts"
        out.append(Violation("not-inverse", f"C14:function:not-inverse:{why}", dict(value=v, merged=v2, before=np_list(P), after=np_list(P2))))
    # document level (sampled; the middlewares delegate to the functions above)
    # (words ending in an even, non-zero run of backslashes and '\\\\{' are inside the quantifier: escapes are read pairwise)
    doc_ok = "@" not in v
    if not out and doc_ok and (case.get("doc") or ctx.cases % 12 == 0 or (len(v2) > 70 and ctx.cases % 9 == 0)):
        # rotate on the number of document-level evaluations so far (NOT on ctx.cases: the sampling condition above
        # makes ctx.cases a multiple of 3, which pinned the field to "author")
        rot = ctx.monitors["document_inverse"] // 2 % 3
        for field in ("author", "editor", "translator") if case.get("doc") else ("author", "editor", "translator")[rot:rot + 1]:
            for inplace in (True, False):
                doc = "@string{s = {x}}\n%% free\n@article{k,\n title = {A {T}itle},\n %s = {%s},\n year = 1999\n}\n@comment{c}\n" % (field, v)
                mk_parse = lambda: [N.SeparateCoAuthors(allow_inplace_modification=inplace), N.SplitNameParts(allow_inplace_modification=inplace)]  # noqa
                mk_write = lambda: [N.MergeNameParts(allow_inplace_modification=inplace), N.MergeCoAuthors(allow_inplace_modification=inplace)]  # noqa
                st, l1 = sp.escape(lambda: bibtexparser.parse_string(doc, append_middleware=mk_parse()))
                ctx.ran()
                ctx.mon("document_inverse")
                ctx.state("docfield=" + field)
                if st == "raise":
                    out.append(Violation("raised", f"C14:doc-parse-raised:{l1.split(':')[0]}", dict(value=v, error=l1)))
                    break
                if l1.failed_blocks or len(l1.entries) != 1:
                    out.append(Violation("doc-failed-block", "C14:doc:failed-block-first-parse", dict(value=v, doc=doc, kinds=[sp.block_kind(b) for b in l1.blocks])))
                    break
                names1 = l1.entries[0][field]
                if names1 != P:
                    out.append(Violation("doc-names", "C14:doc:names-differ-from-function", dict(value=v, got=srepr(names1))))
                    break
                other1 = [(f.key, f.value) for f in l1.entries[0].fields if f.key != field]
                st, text2 = sp.escape(lambda: bibtexparser.write_string(l1, prepend_middleware=mk_write()))
                ctx.ran()
                if st == "raise":
                    out.append(Violation("raised", f"C14:doc-write-raised:{text2.split(':')[0]}", dict(value=v, error=text2)))
                    break
                st, l2 = sp.escape(lambda: bibtexparser.parse_string(text2, append_middleware=mk_parse()))
                ctx.ran()
                if st == "raise":
                    out.append(Violation("raised", f"C14:doc-reparse-raised:{l2.split(':')[0]}", dict(value=v, error=l2, text=text2)))
                    break
                if l2.failed_blocks or len(l2.entries) != 1:
                    out.append(Violation("doc-failed-block", "C14:doc:failed-block-after-roundtrip", dict(value=v, text=text2, kinds=[sp.block_kind(b) for b in l2.blocks])))
                    break
                if l2.entries[0][field] != P:
                    out.append(Violation("not-inverse", "C14:doc:not-inverse", dict(value=v, text=text2, before=np_list(P), after=srepr(l2.entries[0][field]))))
                    break
                other2 = [(f.key, f.value) for f in l2.entries[0].fields if f.key != field]
                kinds1 = [sp.project(b) for b in l1.blocks if sp.block_kind(b) != "entry"]
                kinds2 = [sp.project(b) for b in l2.blocks if sp.block_kind(b) != "entry"]
                if other1 != other2 or kinds1 != kinds2:
                    out.append(Violation("doc-other-content", "C14:doc:other-content-changed", dict(value=v, text=text2)))
                    break
            if out:
                break
    if any(x["sig"].startswith("C14:doc") for x in out):
        case["doc"] = True          # a stored witness replays the (otherwise sampled) document-level step
    ctx.state(f"n={min(len(P), 3)} von={has_von} jr={has_jr}")
    if multi or has_von or has_jr:
        ctx.nontriv(v)
        if ctx.cases % 9973 == 0:
            ctx.sample(v)
    return out


def shrink(case, still):
    from ..shrink import ddmin_str
    return {"v": ddmin_str(case["v"], lambda t: still({"v": t}), max_tests=300)}
