"""C06 - written text obeys the BibtexFormat contract and carries every block's content.

Postcondition monitor on bibtexparser.writer.write (and write_string with an empty unparse
stack): separator placement, field-line layout formula, 'auto' = minimal common column,
failed-block rendering under the configured comment, content of non-entry chunks (re-read by
the independent recogniser), format object unchanged.
"""
from ..core import Violation, rng_for, tier_pick
from ..ref import recogniser
from .. import build, sp

ID = "C06"
META = {
    "technique": "runtime monitoring: layout-contract postcondition on writer.write / write_string(unparse_stack=[]) re-derived from the statement, over a library universe x format grid",
    "level_text": "For every generated (library, format) pair the real writer's output is checked against the statement: blocks joined by exactly the separator, each field line = indent+key+pad+' = '+value+comma, 'auto' equal to the explicit minimal column, failed blocks verbatim under the configured comment, non-entry chunks re-read by an independent recogniser, format attributes unchanged. Libraries built in code (two blocks sharing a key, hence a duplicate wrapper without raw text) must be written without raising. Failed blocks and duplicate wrappers also carry the falsy/blank raw texts '', ' ' and '0'. Every fifth library is edited through the public API after construction (re-keyed entries, remove, re-add, add, replace; 1-6 steps) and the contract is checked against the blocks it holds afterwards. Every ninth library has, in front of each failed block, a comment or preamble whose text is the configured warning line with the right or the next line count.",
    "level_note": "chunk boundaries are obtained by writing each block alone with the same (resolved) format; header/footer of entry chunks are compared tolerantly (the statement only fixes field lines)",
}
RULE = ("case = (library spec of 0-6 blocks over entries with 0-5 fields and key lengths 1..25, strings, preambles, comments, failed and duplicate "
        "blocks; format from value_column {0..40,'auto'} x indent x trailing_comma x separator x failed-comment); non-trivial = >= 2 blocks "
        "and an entry with >= 2 fields; distinct = distinct (library, format)")
ASSUMPTIONS = ["a custom parsing_failed_comment uses at most the documented {n} placeholder", "field values are str (the writer is specified for enclosed text values)"]
MIN = {"separator": (20000, 400000), "field_layout": (20000, 400000), "auto_align": (2000, 40000), "failed_render": (3000, 60000),
       "format_unchanged": (20000, 400000), "custom_failed_comment": (1000, 20000), "key_longer_than_column": (2000, 40000), "reused_format_object": (10000, 200000), "format_unchanged_after_raise": (300, 6000), "edited_library": (5000, 100000)}

_SHARED = {}
INDENTS = ["", " ", "\t", "    "]
SEPS = ["", "\n", "\n\n", "\n-----\n", "§", "\r\n", " "]
FCOMMENTS = [None, "% custom {n}", "%% no placeholder", "% WARNING {n} {n}"]
BAD_COMMENT = "% {lines} lines could not be parsed"     # an unknown placeholder: rendering a failed block raises KeyError
KEYS = ["a", "ab", "year", "author", "title", "booktitle", "k" * 12, "x" * 25, "é", "a-b", "UPPER", "ID", "ENTRYTYPE", "y" * 300, "0"]
VALUES = ["{v}", '"q"', "{multi\nline}", "12", "{a {b} c}", "ident", '{x} # "y"', "{}", '""', "{ trailing }", "0", "{" + "long " * 80 + "}"]


def rand_library(r):
    specs = []
    big = r.random() < 0.01
    for _ in range((r.randint(30, 120) if r.random() < 0.8 else r.randint(257, 300)) if big else r.choice([0, 1, 1, 2, 2, 3, 4, 6])):
        k = r.random()
        if k < .5:
            nf = r.choice([0, 1, 2, 2, 3, 4, 5, 6, 7])
            ks = r.sample(KEYS, nf)
            if r.random() < 0.02:
                ks = ks + ["k%d" % j for j in range(r.randint(10, 40) if r.random() < 0.8 else r.randint(250, 400))]
            specs.append(["entry", r.choice(["article", "book", "x"]), "k%d_%d" % (len(specs), r.randint(0, 99)), [[x, r.choice(VALUES)] for x in ks]])
        elif k < .6:
            specs.append(["string", "s%d_%d" % (len(specs), r.randint(0, 99)), r.choice(VALUES)])
        elif k < .68:
            specs.append(["preamble", r.choice(["p", " spaced ", "{a} b", "multi\nline", ""])])
        elif k < .76:
            specs.append(["ecomment", r.choice(["c", "a {b}", "multi\nline", ""])])
        elif k < .84:
            specs.append(["icomment", r.choice(["% c", "free text", "multi\nline text"])])
        elif k < .93:
            specs.append(["failed", r.choice(["@a{k, t = {x", "@a{\n k,\n t = \n", "@string{s", "@a{k,,,}\n\n", "x", "l1\nl2\nl3\nl4", "l1\r\nl2", "", "", " ", "0"])])
        else:
            # (falsy and blank raw texts too: 'verbatim' does not depend on the truthiness of the text; seed C06-g)
            inner = ["entry", "a", "dup", [["t", "{x}"], ["u", "{y}"]], r.choice(["@a{dup, t = {x}, u = {y}}"] * 4 + ["", " ", "0"])]
            specs.append(r.choice([["dupkey", "dup", inner], ["dupfield", ["t"], inner]]))
    return specs


def rand_history(r, specs):
    """Edits through the public API after construction (seed C06-l: the writer read the key index, which goes stale when entries
    are re-keyed and then removed): re-key to a fresh key or to the key another block has or had, remove, re-add, replace, add."""
    keyed = [s[2] if s[0] == "entry" else s[1] for s in specs if s[0] in ("entry", "string")] or ["k"]
    steps = []
    for _ in range(r.choice([1, 2, 2, 3, 4, 6])):
        k = r.random()
        i = r.randrange(max(1, len(specs)))
        if k < .4:
            steps.append(["rekey", i, r.choice(keyed + ["fresh%d" % len(steps)])])
        elif k < .65:
            steps.append(["remove", i])
        elif k < .75:
            steps.append(["readd", i])
        elif k < .9:
            steps.append(["add", ["entry", "misc", r.choice(keyed + ["new"]), [[r.choice(KEYS), r.choice(VALUES)]]]])
        else:
            steps.append(["replace", i, ["entry", "misc", r.choice(keyed + ["new"]), [[r.choice(KEYS), r.choice(VALUES)]]]])
    return steps


def spec_of(b):
    k = sp.block_kind(b)
    if k == "entry":
        return ["entry", b.entry_type, b.key, [[f.key, f.value] for f in b.fields]]
    if k == "string":
        return ["string", b.key, b.value]
    if k == "preamble":
        return ["preamble", b.value]
    if k in ("ecomment", "icomment"):
        return [k, b.comment]
    if b.raw is None:
        # a wrapper without source text (block built in code): written as the block it wraps; its fields count for 'auto'
        inner = getattr(b, "ignore_error_block", None)
        if inner is not None and sp.block_kind(inner) == "entry":
            return ["inplace", inner.entry_type, inner.key, [[f.key, f.value] for f in inner.fields]]
        return ["inplace", None, None, []]
    return ["failed", b.raw]


def rand_format(r):
    col = r.choice(list(range(0, 41)) + ["auto"] * 10)
    return [r.choice(INDENTS), col, r.random() < .5, r.choice(SEPS), r.choice(FCOMMENTS)]


def cases(tier, seed, shard, nshards):
    r = rng_for(seed, shard, "c06")
    n = tier_pick(tier, 96000, 5000000) // nshards
    for i in range(n):
        c = {"lib": rand_library(r), "fmt": rand_format(r)}
        if i % 9 == 0:
            # texts the WRITER ITSELF produces, as content of the blocks around a failed block (seed C06-m: a failed block behind an
            # implicit comment equal to its own warning line was written without the warning): what a re-read output looks like
            fc = c["fmt"][4] if c["fmt"][4] is not None else "% WARNING Parsing failed for the following {n} lines."
            lib2 = []
            for s_ in c["lib"]:
                if s_[0] in ("failed", "dupkey", "dupfield"):
                    raw = s_[1] if s_[0] == "failed" else s_[2][4]
                    n_ = len(raw.splitlines()) + r.choice([0, 0, 0, 1])
                    lib2.append([r.choice(["icomment", "icomment", "ecomment", "preamble"]), fc.replace("{n}", str(n_)) + r.choice(["", "", "\n", " "])])
                lib2.append(s_)
            c["lib"] = lib2
        if i % 5 == 0 and 1 <= len(c["lib"]) <= 8:
            c["hist"] = rand_history(r, c["lib"])
            if i % 10 == 0:
                c["fmt"][1] = "auto"
        yield c
        if i % 400 == 0:
            # a library built in code (no source text anywhere): two blocks sharing a key, the library wraps the second one
            yield {"lib": [], "fmt": rand_format(r), "noraw": r.choice(["entry", "string"])}


def expected_fields(entry_spec, indent, col, tc):
    out = []
    fields = entry_spec[3]
    for i, (k, v) in enumerate(fields):
        pad = " " * max(0, col - len(k) - 3)
        comma = "," if (tc or i < len(fields) - 1) else ""
        out.append(indent + k + pad + " = " + v + comma + "\n")
    return "".join(out)


def check(case, ctx):
    import bibtexparser
    from bibtexparser import writer
    from bibtexparser.library import Library
    specs, fs = case["lib"], case["fmt"]
    out = []
    indent, col, tc, sep = fs[:4]
    fcomment = fs[4] if fs[4] is not None else "% WARNING Parsing failed for the following {n} lines."
    lib = build.library(specs)
    if case.get("hist"):
        # the library was edited after construction: the contract is about the blocks it holds now
        if build.apply_history(lib, case["hist"]):
            ctx.mon("edited_library")
        specs = [spec_of(b) for b in lib.blocks]
    if case.get("noraw"):
        from bibtexparser import model as M
        ctx.mon("library_built_in_code")
        a, b = ((M.Entry("article", "k", [M.Field("t", "{1}")]), M.Entry("book", "k", [M.Field("u", "{2}"), M.Field("abcdefghijkl", "{3}")])) if case["noraw"] == "entry"
                else (M.String("s", "{1}"), M.String("s", "{2}")))
        lib = Library([a, b])
        st, text = sp.escape(lambda: writer.write(lib, build.fmt(fs)))
        ctx.ran()
        if st == "raise":
            return [Violation("raised", f"C06:raise:{text.split(':')[0]}:failed-block-without-raw", dict(error=text, case=case))]
        if case["noraw"] == "entry":
            # every field line (of the entry and of the entry written in place of the wrapper) starts its value in the column
            # the format asks for; for 'auto' that is one common, minimal column
            cols = set()
            for line in text.split("\n"):
                for key in ("t", "u", "abcdefghijkl"):
                    if line.startswith(indent + key + " ") and " = {" in line:
                        cols.add(line.index(" = {") + 3 - len(indent))
            want = {len("abcdefghijkl") + 3} if col == "auto" else None
            if want is not None and cols != want:
                return [Violation("layout", "C06:library-built-in-code:auto-column-not-common", dict(text=text, cols=sorted(cols), case=case))]
            if "{2}" not in text or "{3}" not in text:
                return [Violation("content", "C06:library-built-in-code:wrapped-block-not-written", dict(text=text, case=case))]
        elif "{2}" not in text:
            return [Violation("content", "C06:library-built-in-code:wrapped-block-not-written", dict(text=text, case=case))]
        return []
    if ctx.cases % 2:
        F = build.fmt(fs)
    else:
        # a long-lived format object that the caller re-configures between writes
        F = _SHARED.setdefault("fmt", build.fmt(fs))
        F.indent, F.value_column, F.trailing_comma, F.block_separator = fs[:4]
        F.parsing_failed_comment = fs[4] if fs[4] is not None else "% WARNING Parsing failed for the following {n} lines."
        ctx.mon("reused_format_object")
    before = dict(vars(F))
    has_failed = any(s[0] in ("failed", "dupkey", "dupfield") for s in specs)
    if ctx.cases % 40 == 0 and has_failed:
        # exception path: a write that raises must leave the caller's format object as it was, too
        F.parsing_failed_comment = BAD_COMMENT
        before = dict(vars(F))
        st, text = sp.escape(lambda: writer.write(lib, F))
        ctx.ran()
        ctx.mon("format_unchanged_after_raise")
        if dict(vars(F)) != before:
            return [Violation("format-mutated", "C06:format-mutated:after-raising-write", dict(before={k: repr(v) for k, v in before.items()},
                                                                                              after={k: repr(v) for k, v in vars(F).items()}, case=case))]
        return []
    st, text = sp.escape(lambda: writer.write(lib, F))
    ctx.ran()
    if st == "raise":
        return [Violation("raised", f"C06:raise:{text.split(':')[0]}", dict(error=text, case=case))]
    ctx.mon("format_unchanged")
    if dict(vars(F)) != before:
        out.append(Violation("format-mutated", "C06:format-mutated", dict(before={k: repr(v) for k, v in before.items()}, after={k: repr(v) for k, v in vars(F).items()})))
    st, text2 = sp.escape(lambda: bibtexparser.write_string(lib, unparse_stack=[], bibtex_format=F))
    ctx.ran()
    if st == "raise" or text2 != text:
        out.append(Violation("write_string-differs", "C06:write_string-differs-from-writer", dict(got=text2[:200], want=text[:200])))
    # 'auto' = minimal common column = 3 + longest field key of any entry block
    entries = [s for s in specs if s[0] in ("entry", "inplace")]
    maxkey = max([len(k) for s in entries for k, _ in s[3]] + [0])
    rcol = 3 + maxkey if col == "auto" else col
    if col == "auto":
        ctx.mon("auto_align")
        F2 = build.fmt([indent, rcol, tc, sep, fs[4]])
        st, t2 = sp.escape(lambda: writer.write(lib, F2))
        ctx.ran()
        if st == "raise" or t2 != text:
            out.append(Violation("auto-align", "C06:auto-not-minimal-common-column", dict(case=case, auto=text[:300], explicit=str(t2)[:300], column=rcol)))
    # chunk per block (written alone with the resolved format), separator exactly between
    F3 = build.fmt([indent, rcol, tc, sep, fs[4]])      # always a fresh object: the reference rendering
    chunks = []
    for b in lib.blocks:
        st, c = sp.escape(lambda: writer.write(Library([b]), F3))
        ctx.ran()
        if st == "raise":
            return out + [Violation("raised", f"C06:raise-single:{c.split(':')[0]}", dict(error=c, case=case))]
        chunks.append(c)
    ctx.mon("separator")
    if text != sep.join(chunks):
        out.append(Violation("separator", "C06:separator-placement", dict(case=case, got=text[:400], want=sep.join(chunks)[:400])))
    for spec, b, c in zip(specs, lib.blocks, chunks):
        k = spec[0]
        if k == "entry":
            ctx.mon("field_layout")
            want = expected_fields(spec, indent, rcol, tc)
            if any(len(fk) + 3 > rcol for fk, _ in spec[3]) and rcol > 0:
                ctx.mon("key_longer_than_column")
            head = "@%s{%s," % (spec[1], spec[2])
            ok = c.lstrip().startswith(head) and c.rstrip().endswith("}")
            if ok:
                body = c.lstrip()[len(head):].rstrip()[:-1]
                # tolerate whitespace/newline cosmetics around the field block only
                ok = body.strip("\n") == want.strip("\n") if want else body.strip() == ""
            if not ok:
                why = "comma" if c.replace(",", "") == (head + "\n" + want + "}\n").replace(",", "") else "layout"
                out.append(Violation("field-layout", f"C06:field-layout:{why}", dict(case=case, chunk=c, want_fields=want)))
        elif k in ("failed", "dupkey", "dupfield"):
            ctx.mon("failed_render")
            if fs[4] is not None:
                ctx.mon("custom_failed_comment")
            raw = b.raw
            want = fcomment.format(n=len(raw.splitlines())) + "\n" + raw + "\n"
            if c != want:
                why = "comment" if c.endswith("\n" + raw + "\n") else "raw"
                out.append(Violation("failed-render", f"C06:failed-render:{why}", dict(case=case, chunk=c, want=want)))
        elif k == "inplace":
            pass
        elif k == "icomment":
            if spec[1].strip() not in c:
                out.append(Violation("content-missing", "C06:content-missing:icomment", dict(chunk=c, want=spec[1])))
        else:
            items = recogniser.recognise(c)
            good = bool(items) and len(items) == 1
            if good:
                it = items[0]
                if k == "string":
                    good = it["kind"] == "string" and it["key"] == spec[1] and it["value"].strip() == spec[2].strip()
                elif k == "preamble":
                    good = it["kind"] == "preamble" and it["content"].strip() == spec[1].strip()
                else:
                    good = it["kind"] == "ecomment" and it["content"].strip() == spec[1].strip()
            if not good:
                out.append(Violation("content-missing", f"C06:content-missing:{k}", dict(chunk=c, want=spec)))
    ctx.state(f"col={'auto' if col == 'auto' else min(col, 41) // 10} ind={len(indent)} tc={tc} sep={sep!r} fc={FCOMMENTS.index(fs[4])}")
    if len(specs) >= 2 and any(s[0] == "entry" and len(s[3]) >= 2 for s in specs):
        ctx.nontriv(case)
        if ctx.cases % 499 == 0:
            ctx.sample(case)
    return out


def shrink(case, still):
    from ..shrink import ddmin_list
    specs = ddmin_list(case["lib"], lambda s: still(dict(case, lib=s)), max_tests=100)
    return dict(case, lib=specs)
