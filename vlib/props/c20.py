"""C20 - entry points apply exactly the requested middleware stack, in order.

Differential monitor against the fold of the stack computed by the harness with order-sensitive
probe middlewares; audit-hook + ResourceWarning monitor on the file entry points; splice-protocol
monitor on BlockMiddleware.transform.
"""
import codecs
import gc
import io
import itertools
import os
import shutil
import atexit
import tempfile
import warnings

from ..core import Violation, rng_for, srepr, tier_pick
from ..monitors import audit
from ..monitors.fingerprint import fp
from .. import build, sp

ID = "C20"
META = {
    "technique": "runtime monitoring: differential monitor of parse_string/parse_file/write_string/write_file against the harness-computed fold of probe/shipped middleware stacks; sys.addaudithook + ResourceWarning monitor on file access; splice-protocol monitor on BlockMiddleware.transform",
    "level_text": "All stacks of 0-3 middlewares drawn from order-sensitive probes (block and library level) and shipped order-sensitive pairs are passed in every argument position of the four entry points, as list, tuple, one-shot iterator and generator, on 20 documents; results are compared by fingerprint / bytes with the fold computed by the harness itself (own per-block dispatch, splice and fresh Library; default stacks written out from the statement; a key-renaming probe makes stale key indexes visible). parse_file is compared with parse_string of the file's decoded content (decoding + universal newlines, computed from the bytes in memory) for utf-8, latin-1, gbk and utf-16 and LF, CRLF and CR line ends; write_file to a path and to file objects is read back; an audit hook checks that only the target file is opened and none is left open. Probe block middlewares return None, empty, one block, lists/tuples of k blocks, generators and non-block objects for each of the five block kinds. write_file targets: path, StringIO, open() text file, an object with only write(str), a codecs stream writer, a text-mode SpooledTemporaryFile, a TextIOWrapper over BytesIO. The splice probe also comes as a middleware overriding transform_block itself, answering for entries, implicit comments and the four failed kinds (parsing-failed, duplicate-key, duplicate-field, middleware-error) with every result shape. parse_file is also run on documents just over 4 KiB, 8 KiB, 64 KiB and 1 MiB (thorough 8 MiB) whose enclosed values are spelled like macros defined only at the very end. Splice result shapes include the package's own non-block objects: an empty Library, a Library holding blocks, a Field, the Entry class, a range.",
    "level_note": "'decoded content' = what Python text I/O yields for the bytes; write_file uses the platform default encoding, so its documents are ASCII",
}
RULE = ("case = (entry point / argument position, document index, stack spec) or (splice probe: block kind x returned value shape); non-trivial = a stack of "
        ">= 2 distinguishable middlewares or a splice with k != 1; distinct = distinct case")
ASSUMPTIONS = ["default parse stack = resolve string references, then remove enclosing; default write stack = brace-enclose every value (statement / C05)",
               "a generator returned by transform_block may raise TypeError or be spliced in order (never silently dropped)"]
MIN = {"parse_stack": (2000, 20000), "append_middleware": (2000, 20000), "prepend_middleware": (2000, 10000), "unparse_stack": (2000, 10000),
       "mutual_exclusion": (100, 100), "parse_file": (200, 2000), "write_file": (200, 2000), "open_audit": (400, 4000), "splice": (110, 110)}

DOCS = [
    "@article{k1, title = {A}, author = {Donald E. Knuth and Leslie Lamport}, month = jan}\n",
    "@string{jan = {January}}\n@article{k1, title = jan, author = \"A B and C D\", year = 1999}\n@book{k2, title = {T}, editor = {X, Y}}\n",
    "% free text\n@comment{c}\n@preamble{p}\n@misc{k, note = {n}}\n",
    "@string{s = \"v\"}\n@string{t = s}\n@a{k, f = s, g = t, h = {s}}\n",
    "@a{k, t = {x}}\n@a{k, t = {dup}}\n@b{j, u = 1, u = 2}\nbroken @c{z, t = {\n@d{ok, t = 3}\n",
    "",
    "only free text\n",
    "@a{k1}\n@a{k2,}\n@a{k3, a = 1, b = {2}, c = \"3\" # x}\n",
    "@article{n1, author = {von Beethoven, Ludwig and {Simon and Schuster}}, editor = {Aa bb Cc dd}, title = {T}}\n",
    "@STRING{x = {1}}\n@Article{K, Title = {Mixed Case}, AUTHOR = {A B}}\n",
]
BOM_DOCS = ["\ufeff@article{k, title = {T}}\n", "\ufeff% c\n@a{k}\n", "@a{k, t = {x\ufeffy}}\n\ufeff", "\ufeff",
            "% Encoding: Cp1252\n@a{k, t = {x}}\n", "% Encoding: ISO8859_1\n\n@a{k}\n% Encoding: UTF-8\n", "% -*- coding: latin-1 -*-\n@a{k}\n", "%% Encoding: UTF-16\n@a{k}"]
NONASCII = {
    "utf-8": "@article{ké, title = {Ünïcödé 中文 λ}, author = {Ærø Åse}}\n% commentaire é\n",
    "latin-1": "@article{ké, title = {Ünïcödé ÿ}, author = {Ærø Åse}}\n% commentaire é\n",
    "gbk": "@article{k, title = {中文标题}, author = {张 三}}\n% 注释\n",
    "utf-16": "@article{ké, title = {Ünïcödé 中文 λ}}\n",
}
SHIPPED = ["ResolveStringReferencesMiddleware", "RemoveEnclosingMiddleware", "SeparateCoAuthors", "SplitNameParts", "NormalizeFieldKeys",
           "SortFieldsAlphabeticallyMiddleware", "MonthIntMiddleware"]
ATOMS = [["probe", "A"], ["probe", "B"], ["libprobe", "L"], ["keyprobe", "K"], ["ship", "ResolveStringReferencesMiddleware"], ["ship", "RemoveEnclosingMiddleware"],
         ["ship", "SeparateCoAuthors"], ["ship", "SplitNameParts"], ["ship", "NormalizeFieldKeys"], ["ship", "SortFieldsAlphabeticallyMiddleware"]]
WATOMS = [["probe", "A"], ["probe", "B"], ["libprobe", "L"], ["keyprobe", "K"], ["keyprobe", "K"], ["ship", "AddEnclosingQ"], ["ship", "SortFieldsAlphabeticallyMiddleware"], ["ship", "NormalizeFieldKeys"]]


def stacks(atoms, maxlen):
    out = [[]]
    for n in range(1, maxlen + 1):
        out += [list(s) for s in itertools.product(atoms, repeat=n)]
    return out


def exhaustive(tier):
    return (f"all stacks of 0..{tier_pick(tier, 3, 4)} atoms (parse: {len(ATOMS)} atoms, write: {len(WATOMS)} atoms) in each argument position, "
            f"documents rotating over {len(DOCS)}; splice probes: 5 block kinds x 14 return shapes")


def cases(tier, seed, shard, nshards):
    L = tier_pick(tier, 3, 4)
    idx = 0
    for pos in ("parse_stack", "append"):
        for st in stacks(ATOMS, L):
            for rep in range(tier_pick(tier, 5, 10)):
                idx += 1
                if idx % nshards == shard:
                    yield {"k": pos, "doc": (idx + rep * 3 + seed) % len(DOCS), "stack": st, "form": FORMS[rep % len(FORMS)]}
    for pos in ("unparse", "prepend"):
        for st in stacks(WATOMS, L):
            for rep in range(tier_pick(tier, 10, 10)):
                idx += 1
                if idx % nshards == shard:
                    yield {"k": pos, "doc": (idx + rep * 3 + seed) % len(DOCS), "stack": st, "form": FORMS[rep % len(FORMS)]}
    for d in range(len(DOCS)):
        for st in ([["probe", "A"]], [], [["libprobe", "L"], ["probe", "B"]]):
            for st2 in ([["probe", "B"]], []):
                idx += 1
                if idx % nshards == shard:
                    yield {"k": "both", "doc": d, "stack": st, "stack2": st2}
    for enc in ("utf-8", "latin-1", "gbk", "utf-16"):
        for d in list(range(len(DOCS))) + [-1]:
            for pos, st in (("parse_stack", [["probe", "A"], ["probe", "B"]]), ("append", [["probe", "B"], ["libprobe", "L"]]), ("none", []),
                            ("parse_stack", []), ("append", [["ship", "SeparateCoAuthors"], ["ship", "SplitNameParts"]])):
                idx += 1
                if idx % nshards == shard:
                    yield {"k": "parse_file", "doc": d, "enc": enc, "pos": pos, "stack": st, "form": FORMS[idx % len(FORMS)], "nl": ["lf", "crlf", "cr"][idx % 3]}
    for enc in ("utf-8", "UTF8", "utf_8", None, "utf-16", "utf-8-sig"):
        for d in range(len(BOM_DOCS)):
            for pos, st in (("none", []), ("parse_stack", []), ("append", [["probe", "A"]])):
                idx += 1
                if idx % nshards == shard:
                    yield {"k": "parse_file", "doc": -2 - d, "enc": enc, "pos": pos, "stack": st}
    for target in ("path", "stringio", "fileobj", "duck", "codecs", "spooled", "textwrapper"):
        for d in range(len(DOCS)):
            for pos, st in (("unparse", [["probe", "A"], ["ship", "AddEnclosingQ"]]), ("prepend", [["probe", "B"], ["probe", "A"]]), ("none", []), ("unparse", [])):
                for fmt in (None, ["  ", 12, True, "\n", None]):
                    idx += 1
                    if idx % nshards == shard:
                        yield {"k": "write_file", "doc": d, "target": target, "pos": pos, "stack": st, "fmt": fmt, "form": FORMS[idx % len(FORMS)]}
    if tier == "thorough":
        r = rng_for(seed, shard, "c20-files")
        for _ in range(6000 // nshards):
            st = [r.choice(ATOMS[:3] + ATOMS[5:]) for _ in range(r.randint(0, 3))]
            yield {"k": "parse_file", "doc": r.choice(list(range(len(DOCS))) + [-1]), "enc": r.choice(["utf-8", "latin-1", "gbk", "utf-16"]),
                   "pos": r.choice(["parse_stack", "append", "none"]) if st else "none", "stack": st}
            wst = [r.choice(WATOMS) for _ in range(r.randint(0, 3))]
            yield {"k": "write_file", "doc": r.randrange(len(DOCS)), "target": r.choice(["path", "stringio", "fileobj", "duck", "codecs", "spooled", "textwrapper"]),
                   "pos": r.choice(["unparse", "prepend"]) if wst else "none", "stack": wst,
                   "fmt": r.choice([None, ["  ", 12, True, "\n", None], ["", "auto", False, "\n\n\n", None]])}
    for size in ([4096, 8192, 65536, 1 << 20] if tier == "quick" else [4096, 8192, 65536, 131072, 1 << 20, 1 << 21, 1 << 23]):
        for variant in range(3):
            for enc in ("utf-8", "utf-16", None):
                idx += 1
                if idx % nshards == shard:
                    yield {"k": "parse_file", "doc": variant, "big": size, "enc": enc, "pos": ["none", "append", "parse_stack"][variant], "stack": [] if variant == 0 else [["ship", "RemoveEnclosingMiddleware"]] if variant == 2 else [["probe", "A"]]}
    shapes = ["none", "empty_list", "empty_tuple", "empty_str", "same", "one_new", "list1", "list2", "list3", "tuple2", "generator2",
              "int", "str", "object", "dict", "list_with_nonblock", "list_with_none", "zero", "false", "zero_float", "falsy_object", "falsy_block",
              "library_empty", "library_blocks", "range", "field", "block_class"]
    # "tb:<kind>": the probe overrides transform_block itself and answers for blocks of that kind - also for the failed kinds,
    # which the per-type methods never see (seed C20-l: blocks on which an earlier middleware failed were passed through)
    for kind in ("entry", "string", "preamble", "ecomment", "icomment", "tb:entry", "tb:failed", "tb:dupkey", "tb:dupfield", "tb:mwerror", "tb:icomment"):
        for shp in shapes:
            idx += 1
            if idx % nshards == shard:
                yield {"k": "splice", "kind": kind, "shape": shp}


_TMP = [None]


def setup(ctx):
    if _TMP[0] is None or not os.path.isdir(_TMP[0]):   # replay/shrink call setup repeatedly: one scratch dir per process
        _TMP[0] = tempfile.mkdtemp(prefix="verif-c20-")
        atexit.register(shutil.rmtree, _TMP[0], True)
    for enc in ("utf-8", "latin-1", "gbk", "utf-16", "ascii"):
        codecs.lookup(enc)
        "x".encode(enc).decode(enc)


def finish(ctx):
    if _TMP[0]:
        shutil.rmtree(_TMP[0], ignore_errors=True)


def make_mw(spec, log):
    from bibtexparser import middlewares as mws
    from bibtexparser.middlewares.middleware import BlockMiddleware, LibraryMiddleware
    kind, name = spec

    class Probe(BlockMiddleware):
        def __init__(self, tag):
            super().__init__(allow_inplace_modification=True)
            self.tag = tag

        def transform_entry(self, entry, library):
            prev = entry.fields_dict.get("trace")
            entry["trace"] = (prev.value if prev is not None else "") + self.tag
            log.append(self.tag)
            return entry

    class LibProbe(LibraryMiddleware):
        def __init__(self, tag):
            super().__init__(allow_inplace_modification=True)
            self.tag = tag

        def transform(self, library):
            log.append(self.tag.lower())
            for entry in library.entries:
                prev = entry.fields_dict.get("trace")
                entry["trace"] = (prev.value if prev is not None else "") + self.tag
            return library

    class KeyProbe(BlockMiddleware):
        """Renames entry and @string keys IN PLACE and returns the same instances: whatever follows in the
        stack must see a library whose key index reflects the new keys."""

        def __init__(self, tag):
            super().__init__(allow_inplace_modification=True)
            self.tag = tag

        def transform_entry(self, entry, library):
            entry.key = entry.key.swapcase()
            log.append(self.tag)
            return entry

        def transform_string(self, string, library):
            string.key = string.key.swapcase()
            return string

    if kind == "keyprobe":
        return KeyProbe(name)
    if kind == "probe":
        return Probe(name)
    if kind == "libprobe":
        return LibProbe(name)
    if name == "AddEnclosingQ":
        return mws.AddEnclosingMiddleware(reuse_previous_enclosing=False, enclose_integers=True, default_enclosing='"', allow_inplace_modification=False)
    return getattr(mws, name)()


def default_parse():
    from bibtexparser import middlewares as mws
    return [mws.ResolveStringReferencesMiddleware(allow_inplace_modification=True), mws.RemoveEnclosingMiddleware(allow_inplace_modification=True)]


def default_unparse():
    from bibtexparser import middlewares as mws
    return [mws.AddEnclosingMiddleware(reuse_previous_enclosing=False, enclose_integers=True, default_enclosing="{", allow_inplace_modification=False)]


def ref_transform(m, lib):
    """The statement's reading of a block middleware inside a stack, computed by the harness: every
    block is replaced in place by zero, one or several blocks and the result is a library over
    exactly those blocks (fresh key index).  Library middlewares are applied as they are."""
    from bibtexparser.library import Library
    from bibtexparser.model import Block
    from bibtexparser.middlewares.middleware import BlockMiddleware
    if not isinstance(m, BlockMiddleware) or type(m).transform is not BlockMiddleware.transform:
        return m.transform(lib)
    blocks = []
    for b in lib.blocks:
        r = m.transform_block(b, lib)
        if r is None:
            continue
        if isinstance(r, Block):
            blocks.append(r)
        else:
            items = list(r)
            if any(not isinstance(x, Block) for x in items):
                raise TypeError("non-block result")
            blocks.extend(items)
    return Library(blocks)


def fold(lib, mws):
    for m in mws:
        lib = ref_transform(m, lib)
    return lib


_BIG = {}


def big_doc(size, variant):
    """A document just over `size` characters (I/O buffer and chunk sizes: 4 KiB ... 1 MiB, seed C11-m: parse_file read the file in
    pieces of 1 MiB and ran the whole stack after each): entries whose ENCLOSED values are spelled like a macro that is defined only
    at the very end, a bare reference to it, a duplicate key and an unterminated block in the last piece."""
    if (size, variant) not in _BIG:
        e = "@article{k%d,\n  title = {jrnl},\n  note = \"jrnl\",\n  journal = jrnl,\n  month = %s,\n  abstract = {%s}\n}\n%% remark %d\n"
        parts, n, i = [], 0, 0
        while n < size + 100:
            t = e % (i, ["jan", "{jan}", "1"][i % 3], "lorem é " * [5, 40, 400][(i + variant) % 3], i)
            parts.append(t)
            n += len(t)
            i += 1
        parts.append(["@string{jrnl = {Journal of Tests}}\n@string{jan = {Januar}}\n@article{k0, title = jrnl}\n", "@string{jrnl = \"J\"}\n@article{k1, t = {x\n",
                      "@article{last, journal = jrnl # jan}\n@string{jrnl = {J}}\n"][variant % 3])
        _BIG[(size, variant)] = "".join(parts)
    return _BIG[(size, variant)]


def doc_text(case):
    if case.get("big"):
        return big_doc(case["big"], case["doc"])
    if case["doc"] <= -2:
        return BOM_DOCS[-2 - case["doc"]]
    if case["doc"] == -1:
        return NONASCII[case["enc"]]
    return DOCS[case["doc"]]


def quiet(fn):
    with warnings.catch_warnings():
        warnings.simplefilter("ignore")
        return fn()


def expected_parse(text, pos, stack, log):
    from bibtexparser.splitter import Splitter
    lib = Splitter(text).split()
    mws = [make_mw(s, log) for s in stack]
    if pos == "parse_stack":
        return fold(lib, mws)
    return fold(lib, default_parse() + mws)       # "append" and "none"


FORMS = ["list", "tuple", "iter", "gen", "list"]


def as_form(mws, form):
    """The stack argument is typed Iterable[Middleware]: a list, a tuple, a one-shot iterator, a generator."""
    if form == "tuple":
        return tuple(mws)
    if form == "iter":
        return iter(mws)
    if form == "gen":
        return (m for m in mws)
    return mws


def call_kwargs_parse(pos, stack, log, form="list"):
    mws = as_form([make_mw(s, log) for s in stack], form)
    if pos == "parse_stack":
        return {"parse_stack": mws}
    if pos == "append":
        return {"append_middleware": mws}
    return {}


def check_parse(case, ctx):
    import bibtexparser
    text = DOCS[case["doc"]]
    pos = case["k"]
    log_e, log_a = [], []
    st_e, want = sp.escape(lambda: quiet(lambda: expected_parse(text, pos, case["stack"], log_e)))
    st_a, got = sp.escape(lambda: quiet(lambda: bibtexparser.parse_string(text, **call_kwargs_parse(pos, case["stack"], log_a, case.get("form", "list")))))
    ctx.ran(2)
    ctx.mon("parse_stack" if pos == "parse_stack" else "append_middleware")
    tag = ">".join(s[1][:8] for s in case["stack"])
    if st_e == "raise" or st_a == "raise":
        # an ill-typed stack raises in the harness fold too: both must raise the same way
        if st_e != st_a or want.split(":")[0] != got.split(":")[0]:
            return [Violation("raise-differs", f"C20:{pos}:raise-differs", dict(doc=text, stack=case["stack"], expected=srepr(want), got=srepr(got)))]
        ctx.note("ill_typed_stack_both_raise")
        return []
    if log_a != log_e:
        why = "order" if sorted(log_a) == sorted(log_e) else "multiplicity"
        return [Violation("application-trace", f"C20:{pos}:trace-{why}", dict(doc=text, stack=case["stack"], expected=log_e, got=log_a))]
    if fp(got) != fp(want):
        return [Violation("result-differs", f"C20:{pos}:result-differs-from-fold", dict(doc=text, stack=case["stack"], got=sp.project_lib(got), want=sp.project_lib(want)))]
    return []


def expected_write(lib, pos, stack, log, fmt):
    from bibtexparser import writer
    mws = [make_mw(s, log) for s in stack]
    if pos == "unparse":
        lib = fold(lib, mws)
    else:
        lib = fold(lib, mws + default_unparse())
    return writer.write(lib, build.fmt(fmt) if fmt else None)


def call_kwargs_write(pos, stack, log, names=("unparse_stack", "prepend_middleware"), form="list"):
    mws = as_form([make_mw(s, log) for s in stack], form)
    if pos == "unparse":
        return {names[0]: mws}
    if pos == "prepend":
        return {names[1]: mws}
    return {}


def parsed(doc_index):
    import bibtexparser
    return quiet(lambda: bibtexparser.parse_string(DOCS[doc_index]))


def check_write(case, ctx):
    import bibtexparser
    pos = case["k"]
    log_e, log_a = [], []
    st_e, want = sp.escape(lambda: quiet(lambda: expected_write(parsed(case["doc"]), pos, case["stack"], log_e, None)))
    lib = parsed(case["doc"])
    st_a, got = sp.escape(lambda: quiet(lambda: bibtexparser.write_string(lib, **call_kwargs_write(pos, case["stack"], log_a, form=case.get("form", "list")))))
    ctx.ran(2)
    ctx.mon("unparse_stack" if pos == "unparse" else "prepend_middleware")
    if st_e == "raise" or st_a == "raise":
        if st_e != st_a or want.split(":")[0] != got.split(":")[0]:
            return [Violation("raise-differs", f"C20:{pos}:raise-differs", dict(doc=DOCS[case["doc"]], stack=case["stack"], expected=srepr(want), got=srepr(got)))]
        ctx.note("ill_typed_stack_both_raise")
        return []
    if log_a != log_e:
        why = "order" if sorted(log_a) == sorted(log_e) else "multiplicity"
        return [Violation("application-trace", f"C20:{pos}:trace-{why}", dict(stack=case["stack"], expected=log_e, got=log_a))]
    if got != want:
        return [Violation("result-differs", f"C20:{pos}:text-differs-from-fold", dict(doc=DOCS[case["doc"]], stack=case["stack"], got=got, want=want))]
    return []


def check_both(case, ctx):
    import bibtexparser
    out = []
    log = []
    text = DOCS[case["doc"]]
    ctx.mon("mutual_exclusion", 3)
    st, r = sp.escape(lambda: bibtexparser.parse_string(text, parse_stack=[make_mw(s, log) for s in case["stack"]],
                                                        append_middleware=[make_mw(s, log) for s in case["stack2"]]))
    if st != "raise" or not r.startswith("ValueError"):
        out.append(Violation("no-ValueError", "C20:both:parse_string-accepted-both", dict(got=srepr(r))))
    lib = parsed(case["doc"])
    st, r = sp.escape(lambda: bibtexparser.write_string(lib, unparse_stack=[make_mw(s, log) for s in case["stack"]],
                                                        prepend_middleware=[make_mw(s, log) for s in case["stack2"]]))
    if st != "raise" or not r.startswith("ValueError"):
        out.append(Violation("no-ValueError", "C20:both:write_string-accepted-both", dict(got=srepr(r))))
    p = os.path.join(_TMP[0], "both.bib")
    st, r = sp.escape(lambda: bibtexparser.write_file(p, lib, parse_stack=[make_mw(s, log) for s in case["stack"]],
                                                      append_middleware=[make_mw(s, log) for s in case["stack2"]]))
    if st != "raise" or not r.startswith("ValueError"):
        out.append(Violation("no-ValueError", "C20:both:write_file-accepted-both", dict(got=srepr(r))))
    if log:
        out.append(Violation("applied-before-raising", "C20:both:middleware-applied-despite-ValueError", dict(log=log)))
    ctx.ran(3)
    return out


def foreign_opens(events, target):
    bad = []
    for path, mode in events:
        if os.path.abspath(path) == os.path.abspath(target):
            continue
        if path.endswith((".py", ".pyc", ".so")) or "/lib/python" in path or path.startswith(("/proc/", "/sys/", "/dev/")):
            continue
        bad.append(path)
    return bad


def check_parse_file(case, ctx):
    import bibtexparser
    text = doc_text(case)
    if case.get("nl") == "crlf":
        text = text.replace("\n", "\r\n")
    elif case.get("nl") == "cr":
        text = text.replace("\n", "\r")
    enc_arg = case["enc"]
    enc = enc_arg or "utf-8"           # None = call parse_file without the encoding argument (documented default UTF-8)
    try:
        data = text.encode(enc)
    except UnicodeEncodeError:
        ctx.note("doc_not_in_encoding_repertoire")
        return []
    p = os.path.join(_TMP[0], f"in-{os.getpid()}.bib")
    with open(p, "wb") as f:
        f.write(data)
    log_e, log_a = [], []
    # "the file's decoded content": the text Python's text I/O yields for these bytes (decoding + universal newlines),
    # computed here from the bytes in memory, not by opening the file
    decoded = io.TextIOWrapper(io.BytesIO(data), encoding=enc).read()
    ctx.state("file-newlines:" + case.get("nl", "lf"))
    st_e, want = sp.escape(lambda: quiet(lambda: bibtexparser.parse_string(decoded, **call_kwargs_parse(case["pos"], case["stack"], log_e))))
    with warnings.catch_warnings(record=True) as wlist:
        warnings.simplefilter("always", ResourceWarning)
        with audit.watch() as events:
            ekw = {"encoding": enc_arg} if enc_arg else {}
            st_a, got = sp.escape(lambda: bibtexparser.parse_file(p, **ekw, **call_kwargs_parse(case["pos"], case["stack"], log_a, case.get("form", "list"))))
            opened = list(events)
        gc.collect()
        leaks = [str(w.message) for w in wlist if issubclass(w.category, ResourceWarning)]
    ctx.ran(2)
    ctx.mon("parse_file")
    ctx.mon("open_audit")
    out = []
    if st_a == "raise" or st_e == "raise":
        if st_a == st_e and want.split(":")[0] == got.split(":")[0]:
            ctx.note("ill_typed_stack_both_raise")       # parse_string raises the same way: nothing to compare
            return []
        return [Violation("raised", f"C20:parse_file:raised:{enc}", dict(expected=srepr(want), got=srepr(got), enc=enc))]
    if fp(got) != fp(want) or log_a != log_e:
        out.append(Violation("result-differs", f"C20:parse_file:differs-from-parse_string:{'stack' if log_a != log_e else 'content'}",
                             dict(enc=enc, doc=text, got=sp.project_lib(got), want=sp.project_lib(want))))
    targets = [pth for pth, _ in opened if os.path.abspath(pth) == os.path.abspath(p)]
    if len(targets) != 1:
        out.append(Violation("open-count", "C20:parse_file:target-opened-not-exactly-once", dict(opened=opened)))
    bad = foreign_opens(opened, p)
    if bad:
        out.append(Violation("foreign-open", "C20:parse_file:other-file-opened", dict(paths=bad)))
    if leaks:
        out.append(Violation("file-left-open", "C20:parse_file:file-left-open", dict(warnings=leaks)))
    return out


def check_write_file(case, ctx):
    import bibtexparser
    log_e, log_a = [], []
    fmt = case["fmt"]
    lib_e = parsed(case["doc"])
    st_e, want = sp.escape(lambda: quiet(lambda: bibtexparser.write_string(lib_e, bibtex_format=build.fmt(fmt) if fmt else None,
                                                                           **call_kwargs_write(case["pos"], case["stack"], log_e))))
    lib = parsed(case["doc"])
    p = os.path.join(_TMP[0], f"out-{os.getpid()}.bib")
    if os.path.exists(p):
        os.remove(p)
    kw = call_kwargs_write(case["pos"], case["stack"], log_a, names=("parse_stack", "append_middleware"), form=case.get("form", "list"))
    if fmt:
        kw["bibtex_format"] = build.fmt(fmt)
    target = case["target"]
    sio = fobj = None
    with warnings.catch_warnings(record=True) as wlist:
        warnings.simplefilter("always", ResourceWarning)
        with audit.watch() as events:
            if target == "path":
                st_a, res = sp.escape(lambda: bibtexparser.write_file(p, lib, **kw))
            elif target == "stringio":
                sio = io.StringIO()
                st_a, res = sp.escape(lambda: bibtexparser.write_file(sio, lib, **kw))
            elif target in ("duck", "codecs", "spooled", "textwrapper"):
                # text file objects that are not io.TextIOBase instances / not made by open(): 'file object' is duck-typed (seed C20-g)
                import codecs
                import tempfile

                class Sink:
                    def __init__(self):
                        self.parts = []

                    def write(self, text):
                        if not isinstance(text, str):
                            raise TypeError("write() argument must be str, not " + type(text).__name__)
                        self.parts.append(text)
                        return len(text)

                    def getvalue(self):
                        return "".join(self.parts)
                raw_bytes = io.BytesIO()
                sio = {"duck": Sink, "codecs": lambda: codecs.getwriter("utf-8")(raw_bytes),
                       "spooled": lambda: tempfile.SpooledTemporaryFile(mode="w+", encoding="utf-8", newline="", max_size=1 << 30),
                       "textwrapper": lambda: io.TextIOWrapper(raw_bytes, encoding="utf-8", newline="", write_through=True)}[target]()
                del events[:]
                st_a, res = sp.escape(lambda: bibtexparser.write_file(sio, lib, **kw))
            else:
                fobj = open(p, "w", newline="")
                del events[:]
                st_a, res = sp.escape(lambda: bibtexparser.write_file(fobj, lib, **kw))
            opened = list(events)
        gc.collect()
        leaks = [str(w.message) for w in wlist if issubclass(w.category, ResourceWarning)]
    ctx.ran(2)
    ctx.mon("write_file")
    ctx.mon("open_audit")
    out = []
    if st_a == "raise" or st_e == "raise":
        if fobj:
            fobj.close()
        if st_a == st_e and str(want).split(":")[0] == str(res).split(":")[0]:
            ctx.note("ill_typed_stack_both_raise")
            return []
        return [Violation("raised", f"C20:write_file:raised:{target}", dict(expected=srepr(want), got=srepr(res)))]
    if target in ("stringio", "duck"):
        written = sio.getvalue()
    elif target in ("codecs", "textwrapper"):
        if getattr(sio, "closed", False):
            out.append(Violation("closed-callers-file", "C20:write_file:closed-the-callers-file-object", {}))
            written = None
        else:
            sio.flush()
            written = raw_bytes.getvalue().decode("utf-8")
    elif target == "spooled":
        if sio.closed:
            out.append(Violation("closed-callers-file", "C20:write_file:closed-the-callers-file-object", {}))
            written = None
        else:
            sio.seek(0)
            written = sio.read()
            sio.close()
    else:
        if fobj:
            if fobj.closed:
                out.append(Violation("closed-callers-file", "C20:write_file:closed-the-callers-file-object", {}))
            else:
                fobj.close()
        with open(p, newline="") as f:
            written = f.read()
    if written is not None and (written != want or log_a != log_e):
        why = "stack" if log_a != log_e else "format" if fmt else "content"
        out.append(Violation("bytes-differ", f"C20:write_file:differs-from-write_string:{why}:{target}",
                             dict(target=target, stack=case["stack"], pos=case["pos"], fmt=fmt, written=written[:300], want=want[:300])))
    if target == "path":
        targets = [pth for pth, _ in opened if os.path.abspath(pth) == os.path.abspath(p)]
        if len(targets) != 1:
            out.append(Violation("open-count", "C20:write_file:target-opened-not-exactly-once", dict(opened=opened)))
    elif any(os.path.abspath(pth) == os.path.abspath(p) for pth, _ in opened):
        out.append(Violation("open-count", "C20:write_file:opened-a-path-for-a-file-object", dict(opened=opened)))
    bad = foreign_opens(opened, p)
    if bad:
        out.append(Violation("foreign-open", "C20:write_file:other-file-opened", dict(paths=bad)))
    if leaks:
        out.append(Violation("file-left-open", "C20:write_file:file-left-open", dict(warnings=leaks)))
    return out


def check_splice(case, ctx):
    from bibtexparser import model as M
    from bibtexparser.middlewares.middleware import BlockMiddleware
    from bibtexparser.library import Library
    kind, shape = case["kind"], case["shape"]
    specs = [["string", "s1", "{v}"], ["entry", "article", "e1", [["t", "{1}"]]], ["preamble", "p"], ["ecomment", "c"], ["icomment", "i"],
             ["entry", "book", "e2", []], ["string", "s2", "{w}"], ["failed", "@x{"]]
    tb = kind.startswith("tb:")
    if tb:
        kind = kind[3:]
        specs += [["dupkey", "e1", ["entry", "misc", "e1", [["t", "{3}"]], "@misc{e1, t = {3}}"]], ["dupfield", ["t"], ["entry", "misc", "df", [["t", "{1}"], ["t", "{2}"]], "@misc{df, t = {1}, t = {2}}"]],
                  ["mwerror", ["entry", "misc", "zz", [["author", "{A, B, C, D}"]], "@misc{zz}"], "invalidname"], ["failed", "@y{"],
                  ["mwerror", ["entry", "misc", "yy", [["title", "{x}"]], "@misc{yy}"], "partial"]]
    lib = build.library(specs)
    new = [M.Entry("misc", "n%d" % i, [M.Field("t", "{n}")]) for i in range(3)]
    sentinel = object()

    class Falsy:
        def __bool__(self):
            return False

    class LenEntry(M.Entry):
        """a dict-like entry class: len() = number of fields, so an instance without fields is falsy"""

        def __len__(self):
            return len(self.fields)

    falsy_block = LenEntry("misc", "falsy", [])

    def value(block):
        return {
            "none": None, "empty_list": [], "empty_tuple": (), "empty_str": "", "same": block, "one_new": new[0], "list1": [new[0]],
            "list2": [new[0], block], "list3": [new[0], new[1], new[2]], "tuple2": (block, new[1]), "generator2": (b for b in [new[0], new[1]]),
            "int": 5, "str": "block", "object": sentinel, "dict": {"a": block}, "list_with_nonblock": [new[0], 7], "list_with_none": [block, None],
            "zero": 0, "false": False, "zero_float": 0.0, "falsy_object": Falsy(), "falsy_block": falsy_block,
            # objects of the package itself that are no blocks (seed C20-n: Library gained __len__/__iter__ and passed for a collection)
            "library_empty": Library(), "library_blocks": Library([new[1], new[2]]), "range": range(2), "field": M.Field("t", "{v}"), "block_class": M.Entry,
        }[shape]

    expect = {"falsy_block": lambda b: [falsy_block], "none": lambda b: [], "empty_list": lambda b: [], "empty_tuple": lambda b: [], "empty_str": lambda b: [], "same": lambda b: [b],
              "one_new": lambda b: [new[0]], "list1": lambda b: [new[0]], "list2": lambda b: [new[0], b], "list3": lambda b: new[:3], "tuple2": lambda b: [b, new[1]],
              "generator2": lambda b: [new[0], new[1]]}
    hit = []

    class Splice(BlockMiddleware):
        def __init__(self):
            super().__init__(allow_inplace_modification=True)

    def method(self, block, library):
        if hit and shape in ("one_new", "list1", "list2", "list3", "tuple2", "generator2", "falsy_block"):
            return block          # new blocks are spliced for the first block of the kind only (unique keys)
        hit.append(block)
        return value(block)

    if tb:
        def transform_block(self, block, library):
            return method(self, block, library) if sp.block_kind(block) == kind else block
        Splice.transform_block = transform_block
        ctx.mon("splice_via_transform_block")
    else:
        setattr(Splice, {"entry": "transform_entry", "string": "transform_string", "preamble": "transform_preamble",
                         "ecomment": "transform_explicit_comment", "icomment": "transform_implicit_comment"}[kind], method)
    st, res = sp.escape(lambda: Splice().transform(lib))
    ctx.ran()
    ctx.mon("splice")
    must_raise = shape in ("int", "str", "object", "dict", "list_with_nonblock", "list_with_none", "zero", "false", "zero_float", "falsy_object",
                           "library_empty", "library_blocks", "range", "field", "block_class")
    if must_raise:
        if st != "raise" or not res.startswith("TypeError"):
            return [Violation("non-block-accepted", f"C20:splice:{shape}:no-TypeError", dict(kind=kind, got=srepr(res) if st == "raise" else [sp.block_kind(b) for b in res.blocks]))]
        return []
    if shape == "generator2" and st == "raise":
        if not res.startswith("TypeError"):
            return [Violation("generator", "C20:splice:generator:wrong-exception", dict(error=res))]
        return []
    if st == "raise":
        return [Violation("splice-raised", f"C20:splice:{shape}:raised:{res.split(':')[0]}", dict(kind=kind, error=res))]
    want = []
    first = True
    for b in lib.blocks:
        if sp.block_kind(b) == kind:
            if first or shape in ("none", "empty_list", "empty_tuple", "empty_str", "same"):
                want += expect[shape](b)
            else:
                want.append(b)
            first = False
        else:
            want.append(b)
    got = list(res.blocks)
    if len(got) != len(want) or any(g is not w for g, w in zip(got, want)):
        why = "dropped" if len(got) < len(want) else "order-or-identity"
        return [Violation("splice-differs", f"C20:splice:{shape}:{why}", dict(kind=kind, got=[sp.project(b)[:3] for b in got], want=[sp.project(b)[:3] for b in want]))]
    return []


def check(case, ctx):
    k = case["k"]
    if k in ("parse_stack", "append"):
        out = check_parse(case, ctx)
        nt = len(case["stack"]) >= 2
    elif k in ("unparse", "prepend"):
        out = check_write(case, ctx)
        nt = len(case["stack"]) >= 2
    elif k == "both":
        out = check_both(case, ctx)
        nt = True
    elif k == "parse_file":
        out = check_parse_file(case, ctx)
        nt = len(case["stack"]) >= 2
    elif k == "write_file":
        out = check_write_file(case, ctx)
        nt = len(case["stack"]) >= 2
    else:
        out = check_splice(case, ctx)
        nt = case["shape"] not in ("same", "one_new", "list1")
    ctx.state(k + ":" + str(case.get("enc") or case.get("target") or case.get("shape") or len(case.get("stack", []))))
    if nt:
        ctx.nontriv(case)
        if ctx.cases % 97 == 0:
            ctx.sample(case)
    return out
