"""C16 - block sorting is a stable permutation by (type, key) keeping comments attached.

Specification-level postcondition on SortBlocksByTypeAndKeyMiddleware.transform: permutation
(by fingerprint), stable (rank, key) order, comment-run attachment, input untouched, no aliasing.
"""
import itertools

from ..core import Violation, rng_for, srepr, tier_pick
from ..monitors.fingerprint import fp, mutable_ids
from .. import build, sp

ID = "C16"
META = {
    "technique": "runtime monitoring: permutation/stability/attachment postcondition on the real SortBlocksByTypeAndKeyMiddleware.transform over enumerated small libraries x all type orders x both comment modes",
    "level_text": "All libraries of up to 3 blocks over a 19-block universe (equal keys across types, empty key, failed/duplicate/middleware-error blocks, both comment kinds) x all 326 sub-permutations of the five block types x both comment modes, plus random libraries of 4-40 blocks with leading/inner/trailing comment runs, are sorted by the real middleware; the result must be a permutation (fingerprints), sorted stably by (rank, key), keep each comment run above its block, leave the input untouched and share no mutable object with it. Libraries edited after construction (every library of 2-3 universe blocks with one block removed or re-added; 30 % of the random ones with 1-8 remove/re-add/add/replace steps) are sorted as well. The universe includes middleware-error blocks around comments and a @string and a duplicate-field block.",
    "level_note": "rank uses the exact class; blocks without a key sort with key ''; the place of a trailing comment-only run is not prescribed (only that it stays contiguous and in order)",
}
RULE = ("case = (library spec, type order, preserve_comments); non-trivial = the library has >= 2 blocks of one class with equal keys or a "
        "comment run directly above a non-comment block; distinct = distinct (library, order, mode)")
ASSUMPTIONS = ["no two live entries/strings of the input share a key (Library wraps them when the input is built)"]
MIN = {"permutation": (100000, 1000000), "sorted_stable": (50000, 500000), "comments_attached": (50000, 500000), "input_untouched": (100000, 1000000), "edited_library": (10000, 100000)}

UNIVERSE = [
    ["string", "a", "{x}"], ["string", "b", "{y}"], ["preamble", "p1"], ["preamble", "p2"],
    ["entry", "article", "a", [["t", "{1}"]]], ["entry", "article", "b", [["t", "{2}"]]], ["entry", "book", "", []],
    ["icomment", "ic1"], ["icomment", "ic2"], ["ecomment", "ec1"], ["ecomment", "ec2"],
    ["failed", "@a{broken"], ["dupkey", "a", ["entry", "misc", "a", [["t", "{3}"]], "@misc{a, t = {3}}"]],
    ["mwerror", ["entry", "misc", "zz", [["author", "{A, B, C, D}"]], "@misc{zz}"], "invalidname"],
    ["mwerror", ["entry", "misc", "yy", [["title", "{x}"]], "@misc{yy}"], "partial"],
    # failed blocks that wrap something other than an entry (seed C16-m: a middleware-error block around a comment was taken for a comment)
    ["mwerror", ["ecomment", "ec3"], "ValueError"], ["mwerror", ["icomment", "ic3"], "partial"], ["mwerror", ["string", "a", "{z}"], "ValueError"],
    ["dupfield", ["t"], ["entry", "misc", "b", [["t", "{1}"], ["t", "{2}"]], "@misc{b, t = {1}, t = {2}}"]],
]
TYPE_NAMES = ["String", "Preamble", "Entry", "ImplicitComment", "ExplicitComment"]


def type_orders():
    out = []
    for k in range(0, 6):
        out += [list(p) for p in itertools.permutations(TYPE_NAMES, k)]
    return out


ORDERS = type_orders()


def exhaustive(tier):
    return f"all libraries of 0..{tier_pick(tier, 3, 3)} distinct universe blocks ({len(UNIVERSE)}) x all {len(ORDERS)} type orders + default x both comment modes"


def cases(tier, seed, shard, nshards):
    idx = 0
    for n in range(0, 4):
        for sel in itertools.permutations(range(len(UNIVERSE)), n):
            for oi in range(len(ORDERS)):
                idx += 1
                if idx % nshards != shard:
                    continue
                if tier == "quick" and n == 3 and (idx // nshards + seed) % 16:
                    continue
                for mode in (False, True):
                    specs = [UNIVERSE[i] for i in sel]
                    if (idx // nshards) % 3 == 0:
                        # start lines that do NOT follow library order (merged files, re-inserted blocks)
                        specs = [s + [{"line": 100 - 10 * j}] for j, s in enumerate(specs)]
                    yield {"lib": specs, "order": ORDERS[oi], "pc": mode}
    # libraries that were EDITED after construction (seed C16-l: a duplicate marker whose first block was removed is a block like
    # any other): every library of 2..3 universe blocks with one block removed / removed and re-added, a sample of the orders
    stride = tier_pick(tier, 53, 11)
    for n in (2, 3):
        for sel in itertools.permutations(range(len(UNIVERSE)), n):
            for j in range(n):
                if tier == "quick" and n == 3 and (idx + seed) % 4:
                    idx += 1
                    continue
                for oi in range((idx + j) % stride, len(ORDERS), stride):
                    idx += 1
                    if idx % nshards != shard:
                        continue
                    for mode in (False, True):
                        yield {"lib": [UNIVERSE[i] for i in sel], "order": ORDERS[oi], "pc": mode, "hist": [["remove" if oi % 3 else "readd", j]]}
    r = rng_for(seed, shard, "c16")
    for _ in range(tier_pick(tier, 12000, 1200000) // nshards):
        n = r.randint(4, 40) if r.random() < 0.99 else r.randint(257, 300)
        specs = []
        for j in range(n):
            s = r.choice(UNIVERSE)
            if s[0] == "entry" and r.random() < .6:
                s = ["entry", r.choice(["article", "book"]), r.choice(["a", "b", "c", "", "B", "k%d" % j]), [["t", "{%d}" % j]]]
            elif s[0] == "string" and r.random() < .5:
                s = ["string", r.choice(["a", "b", "c", "s%d" % j]), "{%d}" % j]
            elif s[0] in ("icomment", "ecomment"):
                s = [s[0], "c%d" % j]
            if r.random() < .5:
                s = s + [{"line": r.randint(0, 50)}]
            specs.append(s)
        order = r.choice(ORDERS) if r.random() < .8 else None
        c = {"lib": specs, "order": order, "pc": r.random() < .5, "reuse": r.randint(0, 50) if r.random() < .3 else None}
        if r.random() < .3:
            c["hist"] = [r.choice([["remove", r.randrange(n)], ["readd", r.randrange(n)], ["add", r.choice(UNIVERSE)], ["replace", r.randrange(n), r.choice(UNIVERSE)]])
                         for _ in range(r.choice([1, 1, 2, 3, 8]))]
        yield c


_INSTANCES = {}


def make_mw(order, pc):
    key = repr((order, pc))
    if key not in _INSTANCES:
        _INSTANCES[key] = _make_mw(order, pc)
    return _INSTANCES[key]


def _make_mw(order, pc):
    from bibtexparser import model as M
    from bibtexparser.middlewares import SortBlocksByTypeAndKeyMiddleware
    if order is None:
        return SortBlocksByTypeAndKeyMiddleware(preserve_comments_on_top=pc)
    return SortBlocksByTypeAndKeyMiddleware(block_type_order=tuple(getattr(M, n) for n in order), preserve_comments_on_top=pc)


def is_comment(b):
    return sp.block_kind(b) in ("icomment", "ecomment")


def check(case, ctx):
    from bibtexparser import model as M
    specs, order, pc = case["lib"], case["order"], case["pc"]
    lib = build.library(specs)
    if case.get("hist") and build.apply_history(lib, case["hist"]):
        ctx.mon("edited_library")
    if case.get("reuse") is not None and len(lib.blocks) >= 2:
        # the same separator-comment OBJECT re-used at a second position (object identity, not just equal content)
        from bibtexparser.library import Library
        bl = list(lib.blocks)
        com = [b for b in bl if is_comment(b)]
        if com:
            c = com[case["reuse"] % len(com)]
            bl.insert(case["reuse"] % (len(bl) + 1), c)
            lib = Library(bl)
    B = list(lib.blocks)
    names = order if order is not None else ["String", "Preamble", "Entry", "ImplicitComment", "ExplicitComment"]
    classes = [getattr(M, n) for n in names]
    out = []
    fp_before = fp(lib)
    fps = [fp(b) for b in B]
    st, mw = sp.escape(lambda: make_mw(order, pc))
    if st == "raise":
        return [Violation("raised", f"C16:ctor-raised:{mw.split(':')[0]}", dict(case=case, error=mw))]
    st, res = sp.escape(lambda: mw.transform(lib))
    ctx.ran()
    if st == "raise":
        return [Violation("raised", f"C16:raised:{res.split(':')[0]}", dict(case=case, error=res))]
    R = list(res.blocks)
    rfps = [fp(b) for b in R]
    ctx.mon("permutation")
    if sorted(map(repr, rfps)) != sorted(map(repr, fps)):
        why = "lost" if len(R) < len(B) else "duplicated" if len(R) > len(B) else "altered"
        return [Violation("not-a-permutation", f"C16:not-a-permutation:{why}", dict(case=case, got=[sp.block_kind(b) for b in R]))]
    ctx.mon("input_untouched")
    if fp(lib) != fp_before:
        out.append(Violation("input-mutated", "C16:input-mutated", dict(case=case)))
    shared = set(mutable_ids(res)) & set(mutable_ids(lib))
    if shared:
        kinds = sorted({mutable_ids(lib)[i] for i in shared})
        out.append(Violation("aliasing", f"C16:aliasing:{'+'.join(kinds)[:40]}", dict(case=case, shared=kinds)))

    def rank(b):
        return classes.index(type(b)) if type(b) in classes else len(classes)

    def key(b):
        return getattr(b, "key", "")

    if not pc:
        ctx.mon("sorted_stable")
        idx = sorted(range(len(B)), key=lambda i: (rank(B[i]), key(B[i]), i))
        want = [fps[i] for i in idx]
        if rfps != want:
            sortedness = [(rank(b), key(b)) for b in R]
            why = "unsorted" if sortedness != sorted(sortedness) else "unstable"
            out.append(Violation("order", f"C16:order:{why}:comments-off", dict(case=case, got=[sp.project(b)[:3] for b in R])))
    else:
        ctx.mon("sorted_stable")
        nc = [i for i in range(len(B)) if not is_comment(B[i])]
        idx = sorted(nc, key=lambda i: (rank(B[i]), key(B[i]), i))
        want = [fps[i] for i in idx]
        got_nc = [rfps[j] for j in range(len(R)) if not is_comment(R[j])]
        if got_nc != want:
            sortedness = [(rank(b), key(b)) for b in R if not is_comment(b)]
            why = "unsorted" if sortedness != sorted(sortedness) else "unstable"
            out.append(Violation("order", f"C16:order:{why}:comments-on", dict(case=case, got=[sp.project(b)[:3] for b in R])))
        else:
            ctx.mon("comments_attached")
            # original run above each non-comment block (by position in B), expected in R as a suffix of the run above it
            runs = {}
            run = []
            for i, b in enumerate(B):
                if is_comment(b):
                    run.append(fps[i])
                else:
                    runs[i] = run
                    run = []
            trailing = run
            # walk R: non-comment blocks appear in order idx
            pos = 0
            above = []
            bad = None
            for j, b in enumerate(R):
                if is_comment(b):
                    above.append(rfps[j])
                else:
                    orig = runs[idx[pos]]
                    if orig and above[len(above) - len(orig):] != orig:
                        bad = ("detached-or-reordered", idx[pos])
                        break
                    pos += 1
                    above = []
            if not bad and trailing:
                # the trailing run stays contiguous and in order somewhere in R
                cs = rfps
                found = any(cs[s:s + len(trailing)] == trailing for s in range(len(cs) - len(trailing) + 1))
                if not found:
                    bad = ("trailing-run-broken", -1)
            if bad:
                out.append(Violation("comments", f"C16:comments:{bad[0]}", dict(case=case, got=[sp.project(b)[:3] for b in R])))
    keys_by_class = {}
    nontriv = False
    for b in B:
        kk = (type(b).__name__, key(b))
        nontriv = nontriv or kk in keys_by_class
        keys_by_class[kk] = 1
    for i in range(1, len(B)):
        if is_comment(B[i - 1]) and not is_comment(B[i]):
            nontriv = True
    ctx.state(f"n={min(len(B), 6)} order={len(names)} pc={pc}")
    if nontriv:
        ctx.nontriv(case)
        if ctx.cases % 4999 == 0:
            ctx.sample(case)
    return out


def shrink(case, still):
    from ..shrink import ddmin_list
    return dict(case, lib=ddmin_list(case["lib"], lambda l: still(dict(case, lib=l)), max_tests=150))
