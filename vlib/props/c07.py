"""C07 - writing and copy-mode middleware never mutate or alias their input.

Monitors: icontract snapshot/ensure pair on `transform` of every shipped middleware class
(fingerprint of the input unchanged, no shared mutable object between input and result) and a
fingerprint monitor around write_string (library and format unchanged, two writes identical).
"""
import json
from ..core import Violation, rng_for, srepr, tier_pick
from ..gen import grammar, garbage
from ..monitors import contracts
from ..monitors.fingerprint import fp
from .. import build, sp

ID = "C07"
META = {
    "technique": "runtime monitoring: icontract snapshot/ensure (input fingerprint unchanged + disjoint mutable-identity graphs) on transform of every shipped middleware class, fingerprint monitor around write_string; parsed libraries x option sets x well-typed stacks <= 3",
    "level_text": "Libraries obtained by parsing generated documents (incl. syntax-failed, duplicate-key/field and invalid-name error blocks) are run through stacks of up to 3 of the 16 shipped middleware classes, every one constructed with allow_inplace_modification=False under its option sets; after every transform the input must fingerprint-equal its state before and share no mutable object with the result, and no well-typed stack may raise. write_string (default stack, also with an explicitly empty prepend list) is run twice on each library with fingerprints of library and format compared; a repeated element of a stack is the same middleware object (its second input carries what it left behind); whole copy-mode stacks are checked end to end, and a tamper-and-repeat monitor damages a result and repeats the call to expose state carried between calls. Libraries of 255 ... 8193 blocks (thorough 32769; both sides of every power of two and of 5000) go through six copy-mode middlewares and the writer; a quarter of the random libraries are edited (remove, re-add, add, replace) before use.",
    "level_note": "stacks that are ill-typed for the name/month fields (e.g. SplitNameParts before SeparateCoAuthors) are skipped and counted",
}
RULE = ("case = (document, pre-parse mode, stack of 1-3 middleware specs, format); non-trivial = the library holds >= 1 entry with >= 1 field and the "
        "stack contains a value-changing middleware; distinct = distinct (document, stack)")
ASSUMPTIONS = ["exception objects and immutable values may be shared between input and result"]
CLASSES = ['AddEnclosingMiddleware', 'LatexDecodingMiddleware', 'LatexEncodingMiddleware', 'MergeCoAuthors', 'MergeNameParts',
           'MonthAbbreviationMiddleware', 'MonthIntMiddleware', 'MonthLongStringMiddleware', 'NormalizeFieldKeys', 'RemoveEnclosingMiddleware',
           'ResolveStringReferencesMiddleware', 'SeparateCoAuthors', 'SortBlocksByTypeAndKeyMiddleware', 'SortFieldsAlphabeticallyMiddleware',
           'SortFieldsCustomMiddleware', 'SplitNameParts']
MIN = {"write_string_monitor": (3000, 60000), "error_block_libraries": (300, 6000), "whole_stack_monitor": (500, 20000), "repeat_after_tamper": (300, 10000), "edited_library": (500, 20000)}
MIN.update({"transform_copy:" + c: (100, 2000) for c in CLASSES})

OPTS = {
    "AddEnclosingMiddleware": [dict(reuse_previous_enclosing=r, enclose_integers=e, default_enclosing=d) for r in (False, True) for e in (False, True) for d in ("{", '"')],
    "LatexDecodingMiddleware": [dict(), dict(keep_braced_groups=True), dict(keep_math_mode=False)],
    "LatexEncodingMiddleware": [dict(), dict(keep_math=False), dict(enclose_urls=False)],
    "MergeNameParts": [dict(style="last"), dict(style="first")],
    "SortBlocksByTypeAndKeyMiddleware": [dict(), dict(preserve_comments_on_top=False), dict(order_rev=True)],
    "SortFieldsCustomMiddleware": [dict(order=("title", "author")), dict(order=("Year", "a"), case_sensitive=True)],
}


def make(spec):
    import bibtexparser.middlewares as mws
    from bibtexparser import model as M
    name, kw = spec
    kw = dict(kw)
    cls = contracts.shipped_middleware_classes()[name]
    if name == "SortBlocksByTypeAndKeyMiddleware":
        if kw.pop("order_rev", False):
            kw["block_type_order"] = (M.ExplicitComment, M.Entry, M.String)
        return cls(**kw)
    if "order" in kw:
        kw["order"] = tuple(kw["order"])
    return cls(allow_inplace_modification=False, **kw)


def step_type(state, name, kw=None):
    """Typing of the name fields (str -> list[str] -> list[NameParts]) and of month (str/int).
    'unknown' = depends on the data (AddEnclosing with reuse leaves values recorded as no-enclosing untouched)."""
    a, m = state
    if name == "AddEnclosingMiddleware":
        if (kw or {}).get("reuse_previous_enclosing"):
            return (a if a == "str" else "unknown", m if m == "str" else "unknown")
        # with enclose_integers=False an int month (numeric field) is deliberately left as it is
        return ("str", "str" if (kw or {}).get("enclose_integers", True) or m == "str" else "unknown")
    if "unknown" in state and name in ("SeparateCoAuthors", "SplitNameParts", "MergeNameParts", "MergeCoAuthors", "RemoveEnclosingMiddleware"):
        return None
    if name == "SeparateCoAuthors":
        return ("list", m) if a == "str" else None
    if name == "SplitNameParts":
        return ("np", m) if a == "list" else None
    if name == "MergeNameParts":
        return ("list", m) if a == "np" else None
    if name == "MergeCoAuthors":
        return ("str", m) if a in ("list", "str") else None
    if name == "RemoveEnclosingMiddleware":
        return state if (a == "str" and m == "str") else None
    if name == "MonthIntMiddleware":
        return (a, "int")
    if name in ("MonthAbbreviationMiddleware", "MonthLongStringMiddleware"):
        return (a, "str")
    return state


NAMES_OK = ["Donald E. Knuth and Leslie Lamport", "von Beethoven, Ludwig", "{Simon and Schuster}", "Per Brinch Hansen and de la Vall{\\'e}e Poussin, Charles", "Aa bb Cc dd"]
NAMES_BAD = ["A, B, C, D", "Knuth, Donald,", "Unbalanced {brace and Other", "Ok Name and Too, Many, Commas, Here"]


def special_doc(r):
    ents = []
    for i in range(r.randint(1, 3)):
        fields = ["title = {Title %d with {B}races and \\'e $x^2$}" % i]
        if r.random() < .8:
            fields.append("author = {%s}" % r.choice(NAMES_OK + NAMES_BAD))
        if r.random() < .4:
            fields.append("editor = \"%s\"" % r.choice(NAMES_OK + NAMES_BAD[:2]))
        if r.random() < .6:
            fields.append("month = %s" % r.choice(["jan", "{jan}", "3", "\"March\"", "13", "sEp"]))
        if r.random() < .6:
            fields.append("year = %s" % r.choice(["2020", "{2020}", "yr"]))
        if r.random() < .3:
            fields.append("Title = {Duplicate-ish key}")
        if r.random() < .2:
            fields.append("url = {http://example.org/a_b}")
        r.shuffle(fields)
        ents.append("@article{k%d,\n  %s\n}" % (r.choice([i, i, 0]), ",\n  ".join(fields)))
    extra = [r.choice(["@string{yr = {1999}}", "@string{jan = \"Januar\"}", "% a free comment", "@comment{explicit}", "@preamble{\"\\newcommand{x}\"}",
                       "@article{broken, title = {x", "@string{yr = {2000}}", "@a{k0, t = 1, t = 2}"]) for _ in range(r.randint(0, 3))]
    blocks = ents + extra
    r.shuffle(blocks)
    return "\n\n".join(blocks) + "\n"


NAME_STACKS = [
    ["SeparateCoAuthors", "SplitNameParts"], ["SeparateCoAuthors", "SplitNameParts", "MergeNameParts"], ["SeparateCoAuthors", "MergeCoAuthors"],
    ["SeparateCoAuthors", "SplitNameParts", "LatexEncodingMiddleware"], ["SeparateCoAuthors", "SplitNameParts", "SortBlocksByTypeAndKeyMiddleware"],
    ["RemoveEnclosingMiddleware", "SeparateCoAuthors", "SplitNameParts"], ["SeparateCoAuthors", "SplitNameParts", "NormalizeFieldKeys"],
]
NP_STACKS = [["MergeNameParts", "MergeCoAuthors"], ["MergeNameParts", "MergeCoAuthors", "AddEnclosingMiddleware"], ["LatexDecodingMiddleware", "MergeNameParts"],
             ["MergeNameParts", "SplitNameParts"], ["SortFieldsAlphabeticallyMiddleware", "MergeNameParts", "SeparateCoAuthors"]]


def rand_stack(r, pre=None):
    if r.random() < .35:
        names = r.choice(NP_STACKS if pre == "names" else NAME_STACKS)
        return [[n, r.choice(OPTS.get(n, [dict()]))] for n in names]
    n = r.choice([1, 1, 2, 2, 3])
    out = []
    for _ in range(n):
        name = r.choice(CLASSES)
        kw = r.choice(OPTS.get(name, [dict()]))
        out.append([name, kw])
    if r.random() < .2:
        # the same middleware (one instance, see check) applied again: its second input already carries what it left behind
        out = ([out[0], out[0]] if n < 3 else [out[0], out[1], out[0]])
    return out


def cases(tier, seed, shard, nshards):
    # every class x option set alone on a fixed document, so no class depends on random draws
    base = special_doc(rng_for(0, 0, "c07-base"))
    idx = 0
    for name in CLASSES:
        for kw in OPTS.get(name, [dict()]):
            for pre in ("split", "default", "names"):
                if idx % nshards == shard:
                    yield {"text": base, "pre": pre, "stack": [[name, kw]], "fmt": None}
                idx += 1
    # HOW MANY blocks the library holds (seed C07-m: from 5000 blocks on the blocks were handed to worker threads before the copy was
    # taken): block counts on both sides of 2^8, 2^10, 2^12, 5000, 2^13 (thorough: 10^4, 2^14, 2^15) x copy-mode middlewares / writer
    def big(n):
        return "".join("@article{k%d, title = {T%d}, month = %s, author = {Doe, J. and Roe, K.}}\n%% c%d\n" % (j, j, ["jan", "{3}", "12"][j % 3], j) if j % 2 == 0
                       else "@string{s%d = {v}}\n" % j for j in range(n * 2 // 3 + 1))
    for n in ((255, 257, 1023, 1025, 4095, 4097, 4999, 5001, 8193) if tier == "quick" else (255, 257, 1023, 1025, 4095, 4097, 4999, 5000, 5001, 8191, 8193, 10001, 16385, 32769)):
        for name in ("AddEnclosingMiddleware", "SortFieldsAlphabeticallyMiddleware", "MonthIntMiddleware", "SeparateCoAuthors", "SortBlocksByTypeAndKeyMiddleware", "ResolveStringReferencesMiddleware"):
            if idx % nshards == shard:
                yield {"text": big(n), "pre": "default", "stack": [[name, OPTS.get(name, [dict()])[0]]], "fmt": None, "big": n}
            idx += 1
    r = rng_for(seed, shard, "c07")
    for i in range(tier_pick(tier, 8000, 600000) // nshards):
        mode = i % 4
        if mode == 0:
            text, _ = grammar.document(r, grammar.Opts(max_items=5, min_items=1, entry_keys=r.choice([None, ["a", "b"]]), field_keys=r.choice([None, ["t", "u", "author"]])))
        elif mode == 1:
            t, _ = grammar.document(r, grammar.Opts(max_items=4, min_items=1))
            text = garbage.corrupt(r, t)
        else:
            text = special_doc(r)
        fmt = None if r.random() < .5 else [r.choice(["", "\t", "  "]), r.choice([0, 10, "auto"]), r.random() < .5, r.choice(["\n\n", "\n"]), None]
        pre = r.choice(["split", "default", "default", "names", "names"])
        c = {"text": text, "pre": pre, "stack": rand_stack(r, pre), "fmt": fmt}
        if r.random() < .25:
            # the parsed library is edited through the public API before it is handed to the stack / the writer
            new = ["entry", "misc", r.choice(["k0", "k1", "fresh", "yr"]), [["title", "{New}"], ["month", "3"]] + ([] if pre == "names" else [["author", "{Doe, J. and Roe, K.}"]])]   # (a str author in a library of NameParts is a caller's type error)
            c["hist"] = [r.choice([["remove", r.randrange(8)], ["readd", r.randrange(8)], ["add", new], ["replace", r.randrange(8), new]]) for _ in range(r.choice([1, 2, 3]))]
        yield c


def pre_parse(text, pre):
    import bibtexparser
    from bibtexparser.middlewares import SeparateCoAuthors, SplitNameParts
    if pre == "split":
        return sp.escape(lambda: bibtexparser.parse_string(text, parse_stack=[])), ("str", "str")
    if pre == "default":
        return sp.escape(lambda: bibtexparser.parse_string(text)), ("str", "str")
    return sp.escape(lambda: bibtexparser.parse_string(text, append_middleware=[SeparateCoAuthors(), SplitNameParts()])), ("np", "str")


VALUE_CHANGING = {"AddEnclosingMiddleware", "RemoveEnclosingMiddleware", "LatexEncodingMiddleware", "LatexDecodingMiddleware", "SeparateCoAuthors",
                  "SplitNameParts", "MergeNameParts", "MergeCoAuthors", "MonthIntMiddleware", "MonthLongStringMiddleware", "MonthAbbreviationMiddleware",
                  "ResolveStringReferencesMiddleware", "NormalizeFieldKeys"}


def check(case, ctx):
    import bibtexparser
    contracts.install_no_mutation_contract()
    (st, lib), state = pre_parse(case["text"], case["pre"])
    ctx.ran()
    if st == "raise":
        ctx.note("pre_parse_raised_not_judged_here")
        return []
    out = []
    if case.get("hist") and build.apply_history(lib, case["hist"]):
        ctx.mon("edited_library")
    kinds = [sp.block_kind(b) for b in lib.blocks]
    if "mwerror" in kinds:
        ctx.mon("error_block_libraries")
    c_before = {k: v for k, v in contracts.COUNT.items() if k.startswith("transform_copy:")}
    # ---- write_string monitor (default stack) on the parsed library
    if state[0] != "np":
        F = build.fmt(case["fmt"]) if case["fmt"] else None
        lb, fb = fp(lib), fp(F)
        wkw = [{}, {"prepend_middleware": []}, {"prepend_middleware": ()}, {"prepend_middleware": None, "unparse_stack": None}][ctx.cases % 4]
        st1, w1 = sp.escape(lambda: bibtexparser.write_string(lib, bibtex_format=F, **wkw))
        st2, w2 = sp.escape(lambda: bibtexparser.write_string(lib, bibtex_format=F, **wkw))
        ctx.ran(2)
        ctx.mon("write_string_monitor")
        if st1 == "raise" or st2 == "raise":
            err = w1 if st1 == "raise" else w2
            out.append(Violation("write-raised", f"C07:write_string-raised:{err.split(':')[0]}:{'+'.join(sorted(set(kinds) & {'mwerror', 'failed', 'dupkey', 'dupfield'}))}",
                                 dict(error=err, text=case["text"], pre=case["pre"])))
        else:
            if fp(lib) != lb:
                out.append(Violation("write-mutated-library", "C07:write_string-mutated-library", dict(text=case["text"])))
            if fp(F) != fb:
                out.append(Violation("write-mutated-format", "C07:write_string-mutated-format", dict(text=case["text"], fmt=case["fmt"])))
            if w1 != w2:
                out.append(Violation("write-unstable", "C07:write_string-twice-differs", dict(text=case["text"])))
    # ---- the stack, every step under the icontract snapshot/ensure pair
    from ..monitors.fingerprint import mutable_ids
    cur = lib
    instances = {}
    changing = False
    lib_fp_before = fp(lib)
    steps_done = 0
    for spec in case["stack"]:
        name = spec[0]
        state2 = step_type(state, name, spec[1])
        if state2 is None:
            ctx.note("ill_typed_stack_skipped")
            break
        state = state2
        try:
            ikey = json.dumps(spec, sort_keys=True, default=repr)
            mw = instances.get(ikey) or instances.setdefault(ikey, make(spec))     # a repeated element of the stack is the same object
            cur = mw.transform(cur)
            ctx.ran()
        except contracts.PostBroken as ex:
            why = str(ex)
            kind = "aliasing" if "shares" in why else "input-mutated"
            out.append(Violation(kind, f"C07:{kind}:{name}" + (":" + why.split(": ")[-1][:30] if kind == "aliasing" else ""),
                                 dict(why=why, stack=case["stack"], text=case["text"], pre=case["pre"])))
            break
        except BaseException as ex:  # noqa
            if isinstance(ex, (KeyboardInterrupt, SystemExit)):
                raise
            has = "+".join(sorted(set(sp.block_kind(b) for b in cur.blocks) & {"mwerror", "failed", "dupkey", "dupfield"}))
            out.append(Violation("transform-raised", f"C07:transform-raised:{name}:{type(ex).__name__}:{has}",
                                 dict(error=srepr(ex), stack=case["stack"], text=case["text"], pre=case["pre"])))
            break
        changing = changing or name in VALUE_CHANGING
        steps_done += 1
    if not out and steps_done == 1 and len(case["stack"]) == 1 and ctx.cases % 3 == 0:
        # state carried between calls: tamper with the result, repeat the call (same instance class, same input)
        from ..monitors.fingerprint import tamper
        ctx.mon("repeat_after_tamper")
        snap = fp(cur)
        tamper(cur)
        try:
            again = make(case["stack"][0]).transform(lib)
            if fp(again) != snap:
                out.append(Violation("state-between-calls", f"C07:repeat-after-tamper:{case['stack'][0][0]}",
                                     dict(stack=case["stack"], text=case["text"], pre=case["pre"])))
            elif fp(lib) != lib_fp_before:
                out.append(Violation("input-mutated", "C07:tampering-with-result-changed-input", dict(stack=case["stack"], text=case["text"])))
        except contracts.PostBroken as ex:
            out.append(Violation("aliasing", f"C07:repeat-after-tamper:contract:{case['stack'][0][0]}", dict(why=str(ex), stack=case["stack"], text=case["text"])))
        except BaseException as ex:  # noqa
            if isinstance(ex, (KeyboardInterrupt, SystemExit)):
                raise
            out.append(Violation("transform-raised", f"C07:repeat-after-tamper:raised:{case['stack'][0][0]}:{type(ex).__name__}", dict(error=srepr(ex), stack=case["stack"], text=case["text"])))
    if not out and steps_done >= 2 and steps_done == len(case["stack"]):
        # every element of the stack is in copy mode: the stack as a whole is a copy-mode program
        ctx.mon("whole_stack_monitor")
        if fp(lib) != lib_fp_before:
            out.append(Violation("input-mutated", "C07:stack:input-mutated", dict(stack=case["stack"], text=case["text"], pre=case["pre"])))
        else:
            a, b = mutable_ids(lib), mutable_ids(cur)
            shared = set(a) & set(b)
            if shared:
                kinds = "+".join(sorted({a[i] for i in shared}))[:40]
                out.append(Violation("aliasing", f"C07:stack:aliasing:{kinds}", dict(stack=case["stack"], text=case["text"], pre=case["pre"], shared=kinds)))
    for k, v in contracts.COUNT.items():
        if k.startswith("transform_copy:"):
            d = v - c_before.get(k, 0)
            if d:
                ctx.mon(k, d)
    ctx.state(case["pre"] + ":" + ">".join(s[0][:6] for s in case["stack"]))
    if changing and any(sp.block_kind(b) == "entry" and b.fields for b in lib.blocks):
        ctx.nontriv([case["text"], case["stack"]])
        if ctx.cases % 199 == 0:
            ctx.sample({"text": case["text"], "pre": case["pre"], "stack": case["stack"]})
    return out


def shrink(case, still):
    from ..shrink import ddmin_list, ddmin_str
    c = dict(case, stack=ddmin_list(case["stack"], lambda s: still(dict(case, stack=s)), max_tests=30)) if len(case["stack"]) > 1 else case
    t = ddmin_str(c["text"], lambda s: still(dict(c, text=s)), max_tests=150)
    return dict(c, text=t)
