"""C04 - malformed blocks never damage neighbours: parsing resyncs at the next @block.

Metamorphic monitor: parse(D1 + X + "\\n" + D2) versus parse(D1) and parse(D2), and
parse(D1 + "\\n" + D2) versus parse(D1) ++ parse(D2), on the real splitter.
"""
import random

from ..core import Violation, rng_for, tier_pick
from ..gen import grammar, tokens, garbage
from ..ref import recogniser
from .. import sp

ID = "C04"
META = {
    "technique": "runtime monitoring: metamorphic monitor on Splitter.split (prefix/suffix invariance of neighbouring well-formed documents around arbitrary text)",
    "level_text": "For well-formed D1 (ending in a complete block) and D2 (starting with '@type{' at a line start) with disjoint keys, every token sequence X up to the bound plus truncations/corruptions/garbage is placed between them; the first |parse(D1)| and last |parse(D2)| blocks of the combined parse must equal the separate parses (kind, type, key, fields, content, raw). X is also one of twelve malformed blocks that carry the type and key of each keyed block of D2 (duplicate field keys, junk, missing separators, truncation): X must consist of failed blocks only and D1, D2 must come back exactly as on their own.",
    "level_note": "start lines are not compared here (C03 decides them); D1/D2 come from the grammar generator and are re-validated by the recogniser",
}
RULE = ("case = (D1 index, X, D2 index); X ranges over every token sequence <= L over the resync alphabet, prefixes and mark-deletions of "
        "valid documents, and random garbage; non-trivial = the combined parse contains a failed block or X contains a block opener; "
        "distinct = distinct (D1, X, D2)")
ASSUMPTIONS = ["D1, X and D2 use disjoint key pools so duplicate-key wrapping cannot blur the comparison"]
MIN = {"prefix_invariance": (50000, 500000), "suffix_invariance": (50000, 500000), "concat": (20, 20), "failed_block_with_key_of_suffix": (100, 100), "abort_on_opener_seen": (1000, 10000)}

XALPHA = ["@x", "@x{", "@comment{", "@string{", "@preamble{", "{", "}", '"', ",", "=", "#", "\\", "@", "q", " ", "\n"]
NDOC = 24


def _L(tier):
    return tier_pick(tier, 4, 5)


def exhaustive(tier):
    return f"X = all token sequences of length <= {_L(tier)} over {XALPHA!r}, each with a (D1, D2) pair chosen round-robin from {NDOC}x{NDOC}"


_DOCS = None


def docs():
    """Deterministic corpus of NDOC prefix documents and NDOC suffix documents."""
    global _DOCS
    if _DOCS is not None:
        return _DOCS
    d1, d2 = [], []
    r = random.Random(4242)
    kinds_last = ["entry", "string", "preamble", "ecomment"]
    guard = 0
    while (len(d1) < NDOC or len(d2) < NDOC) and guard < 20000:
        guard += 1
        want = kinds_last[guard % 4]
        opts = grammar.Opts(max_items=3, min_items=1, key_prefix="dA" if len(d1) < NDOC else "dB")
        text, truth = grammar.document(r, opts)
        items = recogniser.recognise(text)
        if not items:
            continue
        if len(d1) < NDOC:
            if items[-1]["kind"] == want and text.rstrip().endswith("}") and items[-1]["end"] == len(text.rstrip()):
                d1.append(text.rstrip() if guard % 2 else text)
        else:
            t = text.lstrip()
            it = recogniser.recognise(t)
            if it and it[0]["kind"] == want and it[0]["start"] == 0:
                d2.append(t)
    assert len(d1) == NDOC and len(d2) == NDOC
    # documents with guaranteed features (the random ones change whenever the grammar generator changes): quoted values containing
    # commas, braces, '=' and '#', brace values containing quotes, multi-line values, every block kind first and last
    fixed1 = ['@article{dAf1,\n  author = "Doe, John and Roe, Jane",\n  title = "On {things}, and = others",\n  year = 2002\n}',
              '@string{dAs1 = "Feb, {ru}ary"}\n% note\n@preamble{"a, b" # "c"}',
              '@misc{dAf2, note = {he said "hi", twice}, k = "x" # dAs1 # {y, z}}\n@comment{a, "b" = {c}}']
    fixed2 = ['@article{dBf1,\n  author = "Doe, John and Roe, Jane",\n  title = "On {things}, and = others",\n  year = 2002\n}\n@string{dBs1 = "Feb, {ru}ary"}\n'
              '@inproceedings{dBf2,\n  author = "Smith, Adam",\n  pages = "1--2"\n}\n',
              '@string{dBs2 = "a, b"}\n@misc{dBf3, note = "x, {y}", t = {"q", r}}\n',
              '@preamble{"p, q"}\n@comment{c, "d"}\n@book{dBf4, title = "T, {U} = V",}\n',
              '@comment{only, "quoted", text}\n@misc{dBf5, a = "1, 2", b = "3 } 4"}\n'.replace('"3 } 4"', '"3 {4} 5"')]
    for i, t in enumerate(fixed1):
        assert recogniser.recognise(t), t
        d1[i] = t
    for i, t in enumerate(fixed2):
        assert recogniser.recognise(t) and recogniser.recognise(t)[0]["start"] == 0, t
        d2[i] = t
    _DOCS = (d1, d2)
    return _DOCS


def cases(tier, seed, shard, nshards):
    if shard == 0:
        for i in range(NDOC):
            yield {"k": "concat", "d1": i, "d2": (i * 7 + seed) % NDOC}
        # keys that collide across the parts: a later keyed block is wrapped as a duplicate (property C09) but must otherwise be
        # parsed exactly as on its own (same inner block, same raw): D2 after itself, and D2 after garbage that contains one of its blocks
        for i in range(NDOC):
            yield {"k": "concat_same", "d1": 0, "d2": i}
            for g in ('{ "', "@x{q, t = {", '}} "'):
                yield {"k": "xdup", "d1": (i * 5 + seed) % NDOC, "d2": i, "g": g}
            # X holds a FAILED block that carries the key of a block of D2 (seed C04-l: the key of an entry inside a
            # duplicate-field block stays taken): a failed block holds no key, D2 must be parsed exactly as on its own
            for g in range(len(XFAIL)):
                yield {"k": "xfailkey", "d1": (i * 3 + g + seed) % NDOC, "d2": i, "g": g}
    idx = 0
    for seq in tokens.sequences(XALPHA, _L(tier), shard, nshards):
        idx += 1
        yield {"k": "x", "d1": (idx + shard) % NDOC, "d2": (idx * 5 + shard + seed) % NDOC, "x": "".join(seq)}
    runs = ["@article{k%d, title = {x\n", "@string{s%d = {x\n", "@comment{c%d {\n", "@a{k%d, t = \"x\n", "@a{k%d\n"]
    j = 0
    for n in ((1500, 5000) if tier == "quick" else (1500, 5000, 20000)):
        for tpl in runs:
            j += 1
            if j % nshards == shard:
                yield {"k": "x", "d1": j % NDOC, "d2": (j * 7) % NDOC, "x": "".join(tpl % i for i in range(n))}
    r = rng_for(seed, shard, "c04")
    n = tier_pick(tier, 60000, 2400000) // nshards
    for i in range(n):
        mode = i % 4
        if mode == 0:
            x = garbage.text(r)
        else:
            t, _ = grammar.document(r, grammar.Opts(max_items=3, min_items=1, key_prefix="xX"))
            if mode == 1:
                x = t[:r.randint(0, len(t))]
            elif mode == 2:
                x = garbage.corrupt(r, t)
            else:
                x = garbage.inject(r, t, ['"', "{", "}", "@x{", "\\", "@comment{", "@string{k = ", "@preamble{"])
        yield {"k": "x", "d1": r.randrange(NDOC), "d2": r.randrange(NDOC), "x": x}


# %K = key of a keyed block of D2, %T = its entry type / 'string'
XFAIL = ["@%T{%K, t = {1}, t = {2}}", "@misc{%K, a = 1, b = 2, a = 3,}", "@%T{%K, t = {x}, junk}", "@%T{%K t = {x}}", "@%T{%K, t = {x}\n", "@%T{%K, = {x}}",
         "@%T{%K, t = {x} u = {y}}", "@%T{%K, t = {1}, t = {2}}\n@%T{%K, u = {1}, u = {2}}", "@string{%K = {x} {y}}", "@string{%K = }", "@string{%K}",
         "@%T{%K, t = {1}, T = {2}, t = {3}}\n% c\n@%T{%K, t = {1}, t = {2}"]

_PARSED = {}


def parsed_alone(which, i):
    key = (which, i)
    if key not in _PARSED:
        st, lib = sp.split(docs()[which][i])
        assert st == "ok", lib
        _PARSED[key] = sp.project_lib(lib, raw=True)
    return _PARSED[key]


def setup(ctx):
    sp.scan_states_on()


def finish(ctx):
    sp.scan_states_flush(ctx)


def unwrap(lib):
    """Projection with raw in which a duplicate-key wrapper stands for the block it wraps (marked), so that 'parsed exactly as on
    its own' can be compared when keys collide across the concatenated parts."""
    out, wrapped = [], []
    for b in lib.blocks:
        if sp.block_kind(b) == "dupkey":
            inner = b.ignore_error_block
            pr = sp.project(inner, raw=True) if inner is not None else ["?"]
            if b.raw != getattr(inner, "raw", None) or getattr(b, "key", None) != getattr(inner, "key", object()):
                pr = ["wrapper-inconsistent"] + pr
            out.append(pr)
            wrapped.append(True)
        else:
            out.append(sp.project(b, raw=True))
            wrapped.append(False)
    return out, wrapped


def check_failkey(case, ctx):
    d1, d2 = docs()[0][case["d1"]], docs()[1][case["d2"]]
    p1, p2 = parsed_alone(0, case["d1"]), parsed_alone(1, case["d2"])
    out = []
    for pr in [q for q in p2 if q[0] in ("entry", "string")]:
        typ, key = ("string", pr[1]) if pr[0] == "string" else (pr[1], pr[2])
        x = XFAIL[case["g"]].replace("%T", typ if not XFAIL[case["g"]].startswith("@string") else "string").replace("%K", key)
        st, xl = sp.split(x)
        if st != "ok" or any(sp.block_kind(b) in ("entry", "string") for b in xl.blocks):
            ctx.note("xfailkey_x_not_failed")      # X must hold failed blocks only, otherwise duplicate wrapping is legitimate
            continue
        text = d1 + "\n" + x + "\n" + d2
        st, lib = sp.split(text)
        ctx.ran()
        ctx.mon("failed_block_with_key_of_suffix")
        if st == "raise":
            return [Violation("raised", f"C04:raise:{lib.split(':')[0]}", dict(error=lib, text=text))]
        got = sp.project_lib(lib, raw=True)
        if got[:len(p1)] != p1:
            out.append(Violation("prefix-changed", "C04:prefix-changed:failed-block-with-key", dict(text=text, got=got[:len(p1) + 1])))
        if got[len(got) - len(p2):] != p2:
            out.append(Violation("suffix-changed", "C04:suffix-changed:failed-block-with-key", dict(text=text, got=got[-len(p2) - 1:], want=p2)))
        ctx.nontriv([case["k"], case["d1"], case["d2"], case["g"], key])
    return out


def check_dups(case, ctx):
    d2 = docs()[1][case["d2"]]
    p2 = parsed_alone(1, case["d2"])
    keyed = [i for i, pr in enumerate(p2) if pr[0] in ("entry", "string")]
    if case["k"] == "concat_same":
        text = d2 + "\n" + d2
        nprefix = len(p2)
    else:
        if not keyed:
            return []
        d1 = docs()[0][case["d1"]]
        first_keyed_raw = p2[keyed[0]][-1]
        text = d1 + "\n" + case["g"] + "\n" + first_keyed_raw + "\n" + case["g"] + "\n" + d2
        nprefix = None
    st, lib = sp.split(text)
    ctx.ran()
    ctx.mon("suffix_invariance_with_colliding_keys")
    if st == "raise":
        return [Violation("raised", f"C04:raise:{lib.split(':')[0]}", dict(error=lib, text=text))]
    got, wrapped = unwrap(lib)
    out = []
    if got[len(got) - len(p2):] != p2:
        out.append(Violation("suffix-changed", "C04:suffix-changed:colliding-keys", dict(text=text, got=got[-len(p2) - 1:], want=p2)))
    elif case["k"] == "concat_same":
        if got[:nprefix] != p2 or any(wrapped[:nprefix]):
            out.append(Violation("prefix-changed", "C04:prefix-changed:colliding-keys", dict(text=text)))
        elif [i for i, w in enumerate(wrapped[nprefix:]) if w] != keyed:
            out.append(Violation("wrapping", "C04:colliding-keys:not-exactly-the-keyed-blocks-are-wrapped", dict(text=text, wrapped=wrapped, keyed=keyed)))
    ctx.nontriv([case["k"], case["d1"], case["d2"], case.get("g")])
    return out


def check(case, ctx):
    if case["k"] in ("concat_same", "xdup"):
        return check_dups(case, ctx)
    if case["k"] == "xfailkey":
        return check_failkey(case, ctx)
    d1 = docs()[0][case["d1"]]
    d2 = docs()[1][case["d2"]]
    p1 = parsed_alone(0, case["d1"])
    p2 = parsed_alone(1, case["d2"])
    out = []
    if case["k"] == "concat":
        st, lib = sp.split(d1 + "\n" + d2)
        ctx.ran()
        ctx.mon("concat")
        if st == "raise":
            return [Violation("raised", "C04:raise", dict(error=lib))]
        got = sp.project_lib(lib, raw=True)
        if got != p1 + p2:
            out.append(Violation("concat-differs", "C04:concat-differs", dict(d1=d1, d2=d2, got=got, want=p1 + p2)))
        ctx.nontriv(case)
        return out
    x = case["x"]
    text = d1 + x + "\n" + d2
    st, lib = sp.split(text)
    ctx.ran()
    if st == "raise":
        return [Violation("raised", f"C04:raise:{lib.split(':')[0]}", dict(error=lib, x=x))]
    got = sp.project_lib(lib, raw=True)
    failed = [b for b in lib.blocks if sp.block_kind(b) == "failed"]
    aclass = sp.abort_class(failed[-1]) if failed else "none"
    ctx.mon("prefix_invariance")
    if got[:len(p1)] != p1:
        out.append(Violation("prefix-changed", f"C04:prefix-changed:{aclass}", dict(x=x, d1=d1, got=got[:len(p1) + 1], want=p1)))
    ctx.mon("suffix_invariance")
    if got[len(got) - len(p2):] != p2 or len(got) < len(p1) + len(p2):
        out.append(Violation("suffix-changed", f"C04:suffix-changed:{aclass}", dict(x=x, d2=d2, got=got[-len(p2) - 1:], want=p2)))
    if any("Unexpected block start" in sp.abort_class(b) or "found _" in sp.abort_class(b) for b in failed):
        ctx.mon("abort_on_opener_seen")
    for b in failed:
        ctx.state(sp.abort_class(b))
    if failed or "@x{" in x or "{" in x:
        ctx.nontriv([case["d1"], x, case["d2"]])
        if ctx.cases % 499 == 0:
            ctx.sample({"d1": d1, "x": x, "d2": d2})
    return out


def shrink(case, still):
    if case["k"] != "x":
        return case
    from ..shrink import ddmin_str
    x = ddmin_str(case["x"], lambda s: still(dict(case, x=s)))
    return dict(case, x=x)
