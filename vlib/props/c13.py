"""C13 - name parts follow the stated First/von/Last/Jr rules and keep every word once.

Monitors: icontract postcondition (word conservation per comma section) on the real
parse_single_name_into_parts; differential against a transcription of the stated rules that is
first validated on the repository's own BibTeX-derived corpus; invalid names must surface as
InvalidNameError / MiddlewareErrorBlock holding the original entry.
"""
import ast
import os

from ..core import Violation, repo_root, rng_for, srepr, tier_pick
from ..gen import tokens
from ..monitors import contracts
from ..ref import names as R
from .. import build, sp

ID = "C13"
META = {
    "technique": "runtime monitoring: icontract word-conservation postcondition on parse_single_name_into_parts + differential against a corpus-validated transcription of the stated rules; error-containment monitor on SplitNameParts",
    "level_text": "Every token sequence up to the bound over the name alphabet (upper/lower/caseless words, brace groups, special characters, escapes, commas, space, ~, lone braces) is parsed by the real function: valid names must keep every top-level word once per comma section (icontract postcondition) and match the reference partition (word case = transcription of BibTeX's von_token_found: special characters at depth 0 only, decided at the first special character, 13 foreign characters, letters without case decide nothing); a bounded-exhaustive word-case family (51 words x 3 forms) drives nested groups, foreign characters, letterless special characters and CJK/Arabic/Hebrew words; invalid names must raise InvalidNameError and become a MiddlewareErrorBlock retaining the entry with ALL its name fields untouched (valid name fields before and after the invalid one). The reference is validated on the repository's 149-name corpus at the start of every run. The word pool includes brace groups containing every kind of white space.",
    "level_note": "escapes are the library's dialect (an escaped character is never a brace, blank or comma); no name is excluded from the partition comparison",
}
RULE = ("case = one name string: all token sequences <= L over the name alphabet + random names of 1-8 words; non-trivial = a valid name with >= 3 words "
        "of which >= 1 is lower-case, or a comma form, or an invalid name; distinct = distinct string")
ASSUMPTIONS = ["two-word comma-free name is First Last (statement)", "word case: first letter at depth 0 or in a depth-0 special character; plain brace groups are caseless"]
MIN = {"parse_name_post": (100000, 1000000), "reference_partition": (100000, 1000000), "invalid_name": (20000, 200000), "error_block": (300, 3000),
       "corpus_validation": (1, 1), "resplit_after_mutation": (2000, 20000)}
FORBID = ["oracle_disagreement"]

ALPHA = ["Aa", "bb", "\\Lx", "\\lX", "{Ee}", "{ff}", "{\\'E}x", "{\\'e}x", "1", "\\'E", "\\\\", " ", "~", ",", "{", "}", "e", "Y"]


def _L(tier):
    return tier_pick(tier, 5, 6)


def exhaustive(tier):
    return f"all token sequences of length <= {_L(tier)} over {ALPHA!r}"


WORDS = ["Aa", "bb", "Cc", "dd", "von", "de", "la", "Jr.", "III", "{Ee}", "{ff}", "{\\'E}x", "{\\'e}x", "1", "\\'E", "d'Aa", "{\\oe}x", "{von}", "Éa", "ça", "Strauß", "İz", "ﬁn", "ǅa", "ßa", "e", "y", "a", "ß", "O", "é", "{}\\Lukasz", "{}\\lUkasz", "\\Lx", "x{}\\Ly", "{}",
         "A.", "b-C", "{A B}", "{a, b}", "\\\\", "x\\", "\\",
         "{\\v{C}}apek", "{\\v{c}}X", "{{\\'E}}x", "{a\\B}c", "{\\OE}x", "{\\ss}X", "{Universit{\\\"a}t}", "{x{\\'E}}y", "{\\'{e}}X",
         "王", "毛", "泽", "东", "محمد", "בן", "{\\relax}b", "ǅ",
         # every kind of white space INSIDE a brace group (one word, verbatim; seed C13-g)
         "{A\nB}", "{a\tb}", "{A\r\nB}", "{A~b}", "{A  B}", "{ A}", "{a }", "{\n}", "{a\u00a0b}", "{A\x0cB}", "{A\n   b}", "x{ \t}y", "{A\rB}", "{a\u2028b}"]


# words whose case needs BibTeX's full rule: special characters (with letter / non-letter control sequences, the 13
# foreign characters, nested groups, escapes inside), plain groups with nested '{\\' or escaped letters, mixed words
CASEWORDS = ["Aa", "bb", "{Cc}", "{\\'E}x", "{\\'e}X", "{{\\'E}}x", "{{\\'e}}X", "{\\'{E}}x", "{\\'{e}}X", "{a\\B}c", "{A\\b}C",
             "{x{\\'E}}y", "{X{\\'e}}Y", "{\\OE}x", "{\\ss}X", "{\\relax Ch}x", "{\\relax ch}X", "{\\oe x}X", "{\\'\\e}X", "{\\v{c}}X",
             "{\\v{C}}apek", "{\\OEx}Y", "x{\\OE}", "{\\L}ukasz", "{\\l}Ukasz", "{\\ x}Y", "{\\ X}y", "{\\AA}ngstr{\\\"o}m", "{\\i}X",
             "{}{\\'E}x", "1{\\'e}X", "{\\'1e}X", "{\\o}", "{\\O}", "{{\\O}}x", "{\\relax}X", "{\\relax{}}x", "{\\oe\\'E}", "{\\'{}}e",
             "{\\relax}b", "{\\TeX}nician", "{\\'{}}x", "1{\\.}b", "王", "毛b", "b王", "{\\'王}b", "ǅ", "ǅb", "ªB", "\u05d0b"]


def cases(tier, seed, shard, nshards):
    if shard == 0:
        yield {"k": "corpus"}
    # word-case family: every 3-word name over CASEWORDS in the three forms (the middle word's case moves it in or out of von)
    idx = 0
    for a in CASEWORDS:
        for b in CASEWORDS:
            for c in (CASEWORDS if tier == "thorough" else CASEWORDS[:12]):
                idx += 1
                if idx % nshards != shard:
                    continue
                yield {"k": "name", "s": f"{a} {b} {c}"}
                yield {"k": "name", "s": f"{a} {b}, {c}"}
                yield {"k": "name", "s": f"{a} {b} {c}, Jr, Zz"}
    for seq in tokens.sequences(ALPHA, _L(tier), shard, nshards):
        yield {"k": "name", "s": "".join(seq)}
    r = rng_for(seed, shard, "c13")
    for _ in range(tier_pick(tier, 40000, 1500000) // nshards):
        n = r.randint(1, 8)
        parts = []
        for i in range(n):
            parts.append(r.choice(WORDS))
            if i < n - 1:
                parts.append(r.choice([" ", " ", " ", "~", ", ", ",", "  ", "\t", "\n"]))
        yield {"k": "name", "s": "".join(parts)}


def load_corpus():
    path = os.path.join(repo_root(), "tests", "middleware_tests", "test_names.py")
    tree = ast.parse(open(path).read())
    for node in tree.body:
        if isinstance(node, ast.Assign) and getattr(node.targets[0], "id", "") == "REGULAR_NAME_PARTS_PARSING_TEST_CASES":
            return ast.literal_eval(node.value)
    return None


def check_corpus(ctx):
    try:
        corpus = load_corpus()
    except Exception as ex:  # noqa
        corpus = None
    if not corpus:
        ctx.note("corpus_unavailable")
        return []
    bad = 0
    for name, want in corpus:
        try:
            got = R.parse_ref(name)
        except R.Invalid:
            got = None
        if got != want:
            bad += 1
            ctx.sample({"reference_disagrees_with_corpus": name, "reference": got, "corpus": want})
    if bad:
        ctx.note("oracle_disagreement", bad)
    else:
        ctx.mon("corpus_validation")
        ctx.note("corpus_names_validated", len(corpus))
    return []


def shape(name, ref):
    secs = R.tokenize(name)
    pat = []
    for sec in secs:
        pat.append("".join({1: "U", 0: "l", -1: "c"}[R.case(w)] for w in sec)[:6])
    return f"{len(secs)}:" + ",".join(pat)


def setup(ctx):
    from bibtexparser.middlewares import names as N
    for v in ("A and B~and~C", "{x and y} and z", " ~ and ~ "):
        sp.escape(lambda: N.split_multiple_persons_names(v))
    lib = build.library([["entry", "article", "w", [["author", "A~B and C, D"]]]])
    sp.escape(lambda: N.MergeCoAuthors().transform(N.SeparateCoAuthors().transform(lib)))


def check(case, ctx):
    from bibtexparser.middlewares import names as N
    if case["k"] == "corpus":
        return check_corpus(ctx)
    contracts.install_parse_name_contract()
    s = case["s"]
    out = []
    try:
        ref = R.parse_ref(s)
        valid = True
    except R.Invalid as inv:
        ref, valid = str(inv), False
    c0 = contracts.COUNT["parse_name_post"]
    got = err = None
    try:
        res = N.parse_single_name_into_parts(s)
        got = dict(first=list(res.first), von=list(res.von), last=list(res.last), jr=list(res.jr))
    except contracts.PostBroken as ex:
        res = contracts.ORIG["parse_name"](s)
        got = dict(first=list(res.first), von=list(res.von), last=list(res.last), jr=list(res.jr))
        feat = "trailing-backslash" if s.rstrip().endswith("\\") else "escape" if "\\" in s else "plain"
        out.append(Violation(str(ex), f"C13:{ex}:{feat}", dict(name=s, got=got, reference=ref)))
    except N.InvalidNameError as ex:
        err = "InvalidNameError"
    except BaseException as ex:  # noqa
        if isinstance(ex, (KeyboardInterrupt, SystemExit)):
            raise
        return [Violation("raised", f"C13:raised:{type(ex).__name__}", dict(name=s, error=srepr(ex)))]
    ctx.ran()
    ctx.mon("parse_name_post", contracts.COUNT["parse_name_post"] - c0)
    nontriv = False
    if valid:
        if err:
            out.append(Violation("valid-name-rejected", "C13:valid-name-rejected", dict(name=s, reference=ref)))
        elif not out:
            if True:
                ctx.mon("reference_partition")
                if R.ambiguous_case(s):
                    ctx.note("partition_compared_on_nested_special_or_escaped_group")   # formerly carved out, see DESIGN 8 item 15
                if got != ref:
                    secs = R.tokenize(s)
                    form = len(secs)
                    w = secs[0]
                    cs = [R.case(x) for x in w]
                    mech = "word-case:" if R.ambiguous_case(s) or any(("{\\" + k) in s for k in R.FOREIGN) else ""
                    mech += "von-swallows-upper" if (len(got["von"]) > len(ref["von"])) else "von-too-short" if len(got["von"]) < len(ref["von"]) else "other"
                    if form == 1 and len(w) >= 3 and cs[-1] == 0:
                        mech += ":final-word-lower"
                    out.append(Violation("partition-differs", f"C13:partition:form{form}:{mech}", dict(name=s, got=got, reference=ref)))
        try:
            sh = shape(s, ref)
            ctx.state(sh)
            secs = R.tokenize(s)
            nw = sum(len(x) for x in secs)
            nontriv = len(secs) > 1 or (nw >= 3 and any(R.case(w) == 0 for x in secs for w in x))
        except R.Invalid:
            pass
    else:
        nontriv = True
        ctx.mon("invalid_name")
        ctx.state("invalid:" + ref)
        if not err:
            out = [v for v in out if v["kind"] != "invalid-name-accepted"]
            out.append(Violation("invalid-name-accepted", f"C13:invalid-name-accepted:{ref}", dict(name=s, got=got, why=ref)))
        elif case.get("eb") or ctx.cases % 50 == 0:
            # containment through the middleware: error block retaining the original entry
            ctx.mon("error_block")
            for inplace in (False, True):
                # a valid name field before and after the invalid one: "retains the original entry" = none of them split
                lib = build.library([["entry", "article", "k", [["editor", ["Cc Dd"]], ["title", "{T}"], ["author", [s]], ["translator", ["Ee Ff"]]], "raw", 0],
                                     ["entry", "book", "ok", [["author", ["Aa Bb"]]]]])
                st, r2 = sp.escape(lambda: N.SplitNameParts(allow_inplace_modification=inplace).transform(lib))
                ctx.ran()
                if st == "raise":
                    out.append(Violation("middleware-raised", f"C13:split-parts-raised:{r2.split(':')[0]}", dict(name=s, error=r2)))
                    break
                b = r2.blocks[0]
                ok = sp.block_kind(b) == "mwerror" and isinstance(b.error, N.InvalidNameError) and sp.block_kind(b.ignore_error_block) == "entry"
                if ok:
                    e = b.ignore_error_block
                    ok = e.key == "k" and e.entry_type == "article" and [(f.key, f.value) for f in e.fields] == [("editor", ["Cc Dd"]), ("title", "{T}"), ("author", [s]), ("translator", ["Ee Ff"])]
                ok = ok and len(r2.blocks) == 2 and sp.block_kind(r2.blocks[1]) == "entry"
                if not ok:
                    case["eb"] = True      # a stored witness replays this (otherwise sampled) step
                    out.append(Violation("error-block", "C13:error-block-does-not-retain-entry", dict(name=s, got=[sp.block_kind(x) for x in r2.blocks])))
                    break
    if valid and not err and not out and ctx.cases % 40 == 0:
        # state carried between calls: split the same name twice through the middleware, tampering with the
        # first result in between; the second result must again be the parts of the name
        ctx.mon("resplit_after_mutation")
        for inplace in (True, False):
            mw = N.SplitNameParts(allow_inplace_modification=inplace)
            lib1 = build.library([["entry", "article", "k1", [["author", [s, s]]]]])
            st, r1 = sp.escape(lambda: mw.transform(lib1))
            if st == "raise":
                break
            parts1 = r1.entries[0]["author"]
            if len(parts1) == 2 and parts1[0] is parts1[1]:
                ctx.note("two_occurrences_share_one_NameParts_object")     # observation only, not a verdict
            for p in {id(x): x for x in parts1}.values():
                p.first.append("TAMPERED")
                p.last.clear()
            lib2 = build.library([["entry", "article", "k2", [["author", [s]]]]])
            st, r2 = sp.escape(lambda: N.SplitNameParts(allow_inplace_modification=inplace).transform(lib2))
            ctx.ran(2)
            if st == "raise":
                break
            p2 = r2.entries[0]["author"][0]
            got2 = dict(first=list(p2.first), von=list(p2.von), last=list(p2.last), jr=list(p2.jr))
            if got2 != got:
                out.append(Violation("state-between-calls", "C13:middleware:later-split-differs-after-earlier-result-was-modified", dict(name=s, got=got2, want=got)))
                break
    if nontriv:
        ctx.nontriv(s)
        if ctx.cases % 9973 == 0:
            ctx.sample(s)
    return out


def shrink(case, still):
    if case["k"] != "name":
        return case
    from ..shrink import ddmin_str
    return {"k": "name", "s": ddmin_str(case["s"], lambda t: still({"k": "name", "s": t}), max_tests=300)}
