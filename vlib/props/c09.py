"""C09 - duplicate keys are never merged or dropped: first wins, the rest are flagged.

Differential monitor against the wrapper structure computed from the source order alone
(recogniser ground truth without the distinct-keys side condition), observed after
Splitter.split() and after parse_string (default stack, which rebuilds the library).
"""
import itertools

from ..core import Violation, rng_for, tier_pick
from ..gen import grammar
from ..ref import recogniser
from .. import sp

ID = "C09"
META = {
    "technique": "runtime monitoring: differential monitor of the duplicate-wrapper structure (position, key, previous block identity, complete inner block, live-key index) against a source-order model",
    "level_text": "All key assignments for documents of up to n items over colliding entry/string/field-key pools are enumerated, plus random grammar derivations over the same pools; after Splitter.split and parse_string the block count, the live first occurrence, every duplicate-key wrapper (key, previous_block identity, complete duplicate) and every duplicate-field wrapper (all occurrences in order, exact duplicate_keys, key not live) are compared with the expectation computed from the source order. Every third case is also parsed with a shipped field-restructuring middleware appended (NormalizeFieldKeys, the two field sorters, a two-element stack; both in-place modes): the wrapped entries of duplicate wrappers must stay complete and in source order. Every third case also parses the first piece with a stack of ONE shipped middleware (nine, both in-place modes) and the second piece into the library that call returned; every third enumerated field value is a bare reference to one of the colliding @string keys. All sequences of 2-5 (thorough 6) entries over two keys x {valid, invalid author} are parsed with the name-splitting middlewares appended: a first occurrence that fails there becomes a middleware-error block and every later occurrence stays a complete duplicate-key block at its position.",
    "level_note": "expected structure is derived from the independent recogniser's item list",
}
RULE = ("case = document whose entry keys, string keys and field keys come from small pools; all assignments for <= n templated items "
        "(exhaustive) + random grammar derivations; non-trivial = at least one key collision of either kind; distinct = distinct text")
ASSUMPTIONS = ["entries and strings have separate key spaces", "an entry with repeated field keys does not register its key (statement)"]
MIN = {"structure_first_occurrence_fails_in_middleware": (1000, 5000), "structure_one_middleware_stack_then_into_existing": (3000, 60000), "structure_split": (10000, 200000), "structure_parse_string": (10000, 200000), "dupkey_wrapper": (5000, 100000), "dupfield_wrapper": (3000, 50000), "structure_parse_string_copy_stack": (3000, 60000), "structure_split_into_existing_library": (3000, 60000), "structure_parse_string_field_middlewares": (3000, 60000)}

FIELDSETS = [[], ["t"], ["t", "u"], ["t", "t"], ["t", "u", "t"], ["t", "T"], ["u", "u", "u"]]
KEYS = ["a", "b"]


def _N(tier):
    return tier_pick(tier, 4, 5)


def exhaustive(tier):
    return (f"all documents of 1..{_N(tier)} items, each item in {{entry,string}} x key in {KEYS} x field-key list in {FIELDSETS} "
            "(strings ignore the field list)")


def item_options():
    opts = []
    for k in KEYS:
        for fs in FIELDSETS:
            opts.append(("e", k, tuple(fs)))
        opts.append(("s", k, ()))
    return opts


def render(combo):
    parts = []
    for n, (kind, key, fs) in enumerate(combo):
        if kind == "e":
            # every third value is a bare reference to one of the (possibly defined, possibly repeated) @string keys
            fields = ", ".join("%s = %s" % (f, KEYS[(n + j) % len(KEYS)] if (n + j) % 3 == 0 else "{v%d_%d}" % (n, j)) for j, f in enumerate(fs))
            parts.append("@article{%s%s}" % (key, (", " + fields) if fs else ","))
        else:
            parts.append("@string{%s = {s%d}}" % (key, n))
    return "\n".join(parts) + "\n"


def cases(tier, seed, shard, nshards):
    opts = item_options()
    idx = 0
    for n in range(2, tier_pick(tier, 5, 6) + 1):
        for seq in itertools.product([(k, b) for k in KEYS for b in (False, True)], repeat=n):
            idx += 1
            if idx % nshards == shard:
                yield {"seq": [list(x) for x in seq], "inplace": idx // nshards % 2}
    for n in range(1, _N(tier) + 1):
        for combo in itertools.product(opts, repeat=n):
            if idx % nshards == shard:
                yield {"k": "enum", "text": render(combo)}
            idx += 1
    r = rng_for(seed, shard, "c09")
    n = tier_pick(tier, 32000, 1600000) // nshards
    for i in range(n):
        o = grammar.Opts(max_items=8, min_items=2, entry_keys=["a", "b"], string_keys=["a", "b", "c"],
                         field_keys=["t", "u", "T"], kinds=("entry", "entry", "entry", "string", "string", "ecomment", "icomment"), big=0.01)
        text, _ = grammar.document(r, o)
        yield {"k": "gen", "text": text}
    # identical duplicates
    if shard == 0:
        yield {"k": "enum", "text": "@a{a, t = {x}}\n" * 4}
        yield {"k": "enum", "text": "@string{a = {x}}\n" * 4 + "@a{a, t = a}\n@a{a, t = a}"}


def expect(items):
    live_e, live_s = {}, {}
    out = []
    for i, it in enumerate(items):
        k = it["kind"]
        if k == "entry":
            fks = [f[0] for f in it["fields"]]
            dups = {x for x in fks if fks.count(x) > 1}
            if dups:
                out.append(dict(kind="dupfield", key=it["key"], dups=dups, item=it))
            elif it["key"] in live_e:
                out.append(dict(kind="dupkey", key=it["key"], prev=live_e[it["key"]], item=it, inner="entry"))
            else:
                live_e[it["key"]] = i
                out.append(dict(kind="entry", key=it["key"], item=it))
        elif k == "string":
            if it["key"] in live_s:
                out.append(dict(kind="dupkey", key=it["key"], prev=live_s[it["key"]], item=it, inner="string"))
            else:
                live_s[it["key"]] = i
                out.append(dict(kind="string", key=it["key"], item=it))
        else:
            out.append(dict(kind=k, item=it))
    return out, live_e, live_s


def inner_matches(block, it, values, loose=False):
    """Does a (possibly wrapped) block carry the complete item?  loose: a live entry that went through a field-restructuring
    middleware is only compared by type and key."""
    if it["kind"] == "entry":
        if sp.block_kind(block) != "entry" or block.entry_type != it["type"] or block.key != it["key"]:
            return False
        if loose:
            return True
        if [f.key for f in block.fields] != [f[0] for f in it["fields"]]:
            return False
        if values and [f.value for f in block.fields] != [f[1] for f in it["fields"]]:
            return False
    else:
        if sp.block_kind(block) != "string" or block.key != it["key"]:
            return False
        if values and block.value != it["value"]:
            return False
    return (not values) or block.raw == it["raw"]


def compare(lib, items, ctx, api, values, copied=False, loose_live=False):
    exp, live_e, live_s = expect(items)
    blocks = lib.blocks
    if len(blocks) != len(exp):
        return Violation("block-count", f"C09:block-count:{api}", dict(got=[sp.block_kind(b) for b in blocks], want=[e["kind"] for e in exp]))
    for i, (b, e) in enumerate(zip(blocks, exp)):
        k = sp.block_kind(b)
        if k != e["kind"]:
            return Violation("wrong-block-kind", f"C09:kind:{e['kind']}-expected-got-{k}", dict(index=i, got=k, want=e["kind"]))
        if k == "dupkey":
            ctx.mon("dupkey_wrapper")
            if b.key != e["key"]:
                return Violation("dupkey-key", "C09:dupkey-key", dict(index=i, got=b.key, want=e["key"]))
            first = blocks[e["prev"]]
            if copied and loose_live:
                # (the live first block may have been restructured by the appended middleware; the wrapper still has to expose
                # the first block: the same object, or a copy of it taken at some stage of the stack: same kind, type and key)
                pb = b.previous_block
                if pb is not first and (pb is None or not inner_matches(pb, items[e["prev"]], False, loose=True)):
                    return Violation("dupkey-previous", "C09:dupkey-previous-not-first:field-middleware-stack",
                                     dict(index=i, want=items[e["prev"]]["fields"], got=sp.project(pb) if pb is not None else None))
            elif copied:
                pb = b.previous_block
                same = pb is not None and sp.block_kind(pb) == sp.block_kind(first) and pb.key == first.key and \
                    (sp.block_kind(pb) != "entry" or (pb.entry_type == first.entry_type and [f.key for f in pb.fields] == [f.key for f in first.fields]))
                if not same:
                    return Violation("dupkey-previous", "C09:dupkey-previous-not-first:copying-stack",
                                     dict(index=i, want=sp.project(first), got=sp.project(pb) if pb is not None else None))
            elif b.previous_block is not first:
                return Violation("dupkey-previous", "C09:dupkey-previous-not-first",
                                 dict(index=i, want_index=e["prev"], got=sp.project(b.previous_block) if b.previous_block is not None else None))
            if b.ignore_error_block is None or not inner_matches(b.ignore_error_block, e["item"], values):
                return Violation("dupkey-inner", "C09:dupkey-inner-incomplete", dict(index=i, got=sp.project(b.ignore_error_block) if b.ignore_error_block is not None else None))
            if values and b.raw != e["item"]["raw"]:
                return Violation("dupkey-raw", "C09:dupkey-raw", dict(index=i, got=b.raw, want=e["item"]["raw"]))
        elif k == "dupfield":
            ctx.mon("dupfield_wrapper")
            if set(b.duplicate_keys) != e["dups"]:
                return Violation("dupfield-keys", "C09:dupfield-keys", dict(index=i, got=sorted(b.duplicate_keys), want=sorted(e["dups"])))
            if b.ignore_error_block is None or not inner_matches(b.ignore_error_block, e["item"], values):
                return Violation("dupfield-inner", "C09:dupfield-inner-incomplete",
                                 dict(index=i, got=sp.project(b.ignore_error_block) if b.ignore_error_block is not None else None, want=e["item"]["fields"]))
        elif k in ("entry", "string"):
            if not inner_matches(b, e["item"], values, loose=loose_live):
                return Violation("live-block-differs", f"C09:live-{k}-differs", dict(index=i, got=sp.project(b)))
    ed, sd = lib.entries_dict, lib.strings_dict
    if set(ed) != set(live_e) or any(ed[k] is not blocks[i] for k, i in live_e.items()):
        return Violation("entries-dict", "C09:entries_dict-not-first-live", dict(got=sorted(ed), want=sorted(live_e)))
    if set(sd) != set(live_s) or any(sd[k] is not blocks[i] for k, i in live_s.items()):
        return Violation("strings-dict", "C09:strings_dict-not-first-live", dict(got=sorted(sd), want=sorted(live_s)))
    nfail = sum(1 for e in exp if e["kind"] in ("dupkey", "dupfield"))
    if len(lib.failed_blocks) != nfail:
        return Violation("failed-count", "C09:failed-count", dict(got=len(lib.failed_blocks), want=nfail))
    return None


def into_existing(text, cut):
    import bibtexparser
    from bibtexparser.splitter import Splitter

    def run():
        lib = Splitter(text[:cut]).split()
        if cut % 2:
            return Splitter(text[cut:]).split(library=lib)
        return bibtexparser.parse_string(text[cut:], parse_stack=[], library=lib)
    return sp.escape(run)


def stack_then_into_existing(text, cut, n):
    """The first piece is parsed with a stack that consists of ONE shipped middleware (so that the library it returns is the
    one that middleware produced or worked on, seed C09-l), the second piece is then parsed into that library."""
    import bibtexparser
    from bibtexparser import middlewares as M
    inplace = bool(n & 1)
    ctors = [lambda: M.ResolveStringReferencesMiddleware(allow_inplace_modification=inplace), lambda: M.RemoveEnclosingMiddleware(allow_inplace_modification=inplace),
             lambda: M.NormalizeFieldKeys(allow_inplace_modification=inplace), lambda: M.SortFieldsAlphabeticallyMiddleware(allow_inplace_modification=inplace),
             lambda: M.MonthIntMiddleware(allow_inplace_modification=inplace),
             lambda: M.LatexDecodingMiddleware(allow_inplace_modification=inplace), lambda: M.AddEnclosingMiddleware(reuse_previous_enclosing=True, enclose_integers=False, default_enclosing="{", allow_inplace_modification=inplace),
             lambda: M.ResolveStringReferencesMiddleware(allow_inplace_modification=inplace), lambda: M.SeparateCoAuthors(allow_inplace_modification=inplace)]
    mw = ctors[(n >> 1) % len(ctors)]()

    def run():
        lib = bibtexparser.parse_string(text[:cut], parse_stack=[mw])
        if n & 4:
            return bibtexparser.parse_string(text[cut:], parse_stack=[], library=lib)
        from bibtexparser.splitter import Splitter
        return Splitter(text[cut:]).split(library=lib)
    return sp.escape(run), type(mw).__name__


def parse_copy_stack(text):
    """parse_string with the default stack built in copy mode (allow_inplace_modification=False)."""
    import bibtexparser
    from bibtexparser.middlewares import RemoveEnclosingMiddleware, ResolveStringReferencesMiddleware
    return sp.escape(lambda: bibtexparser.parse_string(text, parse_stack=[ResolveStringReferencesMiddleware(allow_inplace_modification=False),
                                                                          RemoveEnclosingMiddleware(allow_inplace_modification=False)]))


def parse_field_stack(text, n):
    """parse_string with a shipped field-restructuring middleware appended to the default stack: failed blocks are not what
    these middlewares are for; the wrapped entry of a duplicate-field / duplicate-key block must come back complete and in
    source order whatever the stack (seed C09-g)."""
    import bibtexparser
    from bibtexparser.middlewares import NormalizeFieldKeys, SortFieldsAlphabeticallyMiddleware, SortFieldsCustomMiddleware
    inplace = bool(n & 1)
    mws = [[NormalizeFieldKeys(allow_inplace_modification=inplace)], [SortFieldsAlphabeticallyMiddleware(allow_inplace_modification=inplace)],
           [SortFieldsCustomMiddleware(order=("u", "t"), allow_inplace_modification=inplace)],
           [SortFieldsAlphabeticallyMiddleware(allow_inplace_modification=inplace), NormalizeFieldKeys(allow_inplace_modification=not inplace)]][(n >> 1) % 4]
    return sp.escape(lambda: bibtexparser.parse_string(text, append_middleware=mws))


def check_first_fails(case, ctx):
    """The FIRST occurrence of a key fails in a later middleware of the stack (invalid name) and becomes a middleware-error block
    (seed C09-m: a duplicate marker whose key is free in the rebuilt library was promoted to a live entry): the later occurrences
    were flagged by the splitter and stay flagged, at their positions, complete."""
    import bibtexparser
    from bibtexparser.middlewares import SeparateCoAuthors, SplitNameParts
    seq = case["seq"]
    text = "".join("@article{%s, author = {%s}, n = {%d}}\n" % (k, "A, B, C, D" if bad else "Xavier Young", i) for i, (k, bad) in enumerate(seq))
    inplace = bool(case.get("inplace"))
    st, lib = sp.escape(lambda: bibtexparser.parse_string(text, append_middleware=[SeparateCoAuthors(allow_inplace_modification=inplace), SplitNameParts(allow_inplace_modification=inplace)]))
    ctx.ran()
    ctx.mon("structure_first_occurrence_fails_in_middleware")
    if st == "raise":
        return [Violation("raised", f"C09:raise:{lib.split(':')[0]}", dict(api="first_fails", error=lib, text=text))]
    want, seen = [], set()
    for k, bad in seq:
        if k in seen:
            want.append("dupkey")
        else:
            seen.add(k)
            want.append("mwerror" if bad else "entry")
    got = [sp.block_kind(b) for b in lib.blocks]
    if got != want:
        return [Violation("wrong-block-kind", "C09:kind:first-occurrence-failed-in-middleware", dict(text=text, got=got, want=want))]
    for i, (b, (k, bad)) in enumerate(zip(lib.blocks, seq)):
        if want[i] == "dupkey":
            inner = b.ignore_error_block
            if b.key != k or inner is None or inner.key != k or [f.key for f in inner.fields] != ["author", "n"] or inner.fields[1].value not in (str(i), "{%d}" % i):
                return [Violation("dupkey-inner", "C09:dupkey-inner-incomplete:first-occurrence-failed-in-middleware", dict(text=text, index=i))]
    live = sorted(lib.entries_dict)
    if live != sorted(k for (k, bad), w in zip(seq, want) if w == "entry"):
        return [Violation("entries-dict", "C09:entries_dict:first-occurrence-failed-in-middleware", dict(text=text, got=live))]
    ctx.nontriv(text)
    return []


def check(case, ctx):
    if "seq" in case:
        return check_first_fails(case, ctx)
    text = case["text"]
    items = recogniser.recognise(text)
    if items is None:
        ctx.note("oracle_disagreement")
        ctx.sample({"not_in_dialect": text, "why": recogniser.why_not(text)})
        return []
    out = []
    apis = [("split", sp.split, True), ("parse_string", sp.parse_default, False)]
    if ctx.cases % 3 == 0:
        apis.append(("parse_string_copy_stack", parse_copy_stack, False))
    if ctx.cases % 3 == 1 and len(items) >= 2:
        # the document arrives in two pieces, the second parsed INTO the library of the first (library= argument)
        cut = items[(ctx.cases // 3) % (len(items) - 1) + 1]["start"]
        apis.append(("split_into_existing_library", lambda t: into_existing(t, cut), True))
    if ctx.cases % 3 == 2:
        n = ctx.cases // 3
        apis.append(("parse_string_field_middlewares", lambda t: parse_field_stack(t, n), False))
        if len(items) >= 2:
            cut2 = items[n % (len(items) - 1) + 1]["start"]
            apis.append(("one_middleware_stack_then_into_existing", lambda t: stack_then_into_existing(t, cut2, n)[0], False))
    for api, fn, values in apis:
        st, lib = fn(text)
        ctx.ran()
        ctx.mon("structure_" + api)
        if st == "raise":
            out.append(Violation("raised", f"C09:raise:{lib.split(':')[0]}", dict(api=api, error=lib, text=text)))
            continue
        v = compare(lib, items, ctx, api, values, copied=api.endswith("copy_stack") or api.endswith("field_middlewares") or api.startswith("one_middleware"),
                    loose_live=api.endswith("field_middlewares") or api.startswith("one_middleware"))
        if v:
            v["detail"]["text"] = text
            v["detail"]["api"] = api
            out.append(v)
            break
    exp, _, _ = expect(items)
    shape = "".join({"entry": "E", "string": "S", "dupkey": "D", "dupfield": "F"}.get(e["kind"], "-") for e in exp)
    ctx.state(shape[:8])
    if "D" in shape or "F" in shape:
        ctx.nontriv(text)
        if ctx.cases % 499 == 0:
            ctx.sample(text)
    return out


def shrink(case, still):
    from ..shrink import ddmin_list
    lines = case["text"].split("\n")
    lines = ddmin_list(lines, lambda ls: still({"k": "enum", "text": "\n".join(ls)}), max_tests=200)
    return {"k": "enum", "text": "\n".join(lines)}
