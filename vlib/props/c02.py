"""C02 - well-formed BibTeX yields exactly the blocks, keys, fields and values written.

Monitor: differential against (a) the constructive ground truth of the grammar generator and
(b) the independent recogniser, observed after Splitter(text).split() and after
parse_string(text, parse_stack=[]).
"""
from ..core import Violation, rng_for, tier_pick
from ..gen import grammar, tokens
from ..ref import recogniser
from .. import sp

ID = "C02"
META = {
    "technique": "runtime monitoring: differential monitor of Splitter.split / parse_string(parse_stack=[]) against an independent recursive-descent recogniser and constructive generator ground truth",
    "level_text": "All token sequences up to the stated length that the reference recogniser accepts, plus seeded grammar derivations with constructive ground truth, are parsed by the real splitter and compared block by block (kind, lower-cased type, key, field keys/order/values, comment/preamble/string content). A runs family repeats one token 1...4097 (thorough 65537) times in front of an escaped or real delimiter in every construct.",
    "level_note": "trusts the reference recogniser (cross-checked against the generator on every derivation; a disagreement makes the run inconclusive) and the dialect reading of DESIGN.md 3.1",
}
RULE = ("cases = (a) every token sequence up to length L over the splitter alphabet that the recogniser accepts and that is collision-free, "
        "(b) seeded random derivations of the dialect grammar; non-trivial = the document has an entry or @string whose value "
        "contains a nested brace, a quote or a backslash escape; distinct = distinct document text")
ASSUMPTIONS = ["dialect grammar of DESIGN.md 3.1 incl. side conditions S1-S3", "recogniser == generator ground truth on every derivation (checked)"]
MIN = {"differential_split": (2000, 50000), "differential_parse_string": (2000, 50000), "generator_recogniser_crosscheck": (1000, 20000)}
FORBID = ["oracle_disagreement"]

ALPHA = ["@a", "@string", "@comment", "@preamble", "{", "}", '"', ",", "=", "#", "\n", " ", "\\", "k", "v"]


def _L(tier):
    return tier_pick(tier, 5, 6)


def exhaustive(tier):
    return f"all token sequences of length <= {_L(tier)} over {ALPHA!r} (recogniser-accepted, collision-free ones are compared)"


def cases(tier, seed, shard, nshards):
    for seq in tokens.sequences(ALPHA, _L(tier), shard, nshards):
        yield {"k": "tok", "text": "".join(seq)}
    if tier == "thorough":
        for seq in tokens.sequences_stride(ALPHA, 7, shard, nshards, stride=61, offset=seed % 61):
            yield {"k": "tok", "text": "".join(seq)}
    deep = []
    for depth in (200, 1500, 5000) + ((20000,) if tier == "thorough" else ()):
        o, c = "{" * depth, "}" * depth
        deep += ["@comment{a " + o + "x" + c + " b}\n@a{k}", "@preamble{" + o + "x" + c + "}", "@string{s = {" + o + "x" + c + "}}\n@a{k, t = s}",
                 "@a{k, t = {" + o + "x" + c + "}, u = 1}", '@a{k, t = "' + o + 'x"y' + c + '", u = 1}']
    # long RUNS of one token in front of a structural delimiter (size thresholds on look-behind windows, counters,
    # parity computations; seed C02-g): n escaped backslashes, then an escaped or a real delimiter
    runs = (1, 2, 3, 7, 8, 15, 16, 17, 31, 32, 33, 63, 64, 65, 127, 128, 129, 255, 256, 257, 511, 512, 513, 1023, 1025, 4097) + ((65537,) if tier == "thorough" else ())
    for n in runs:
        for unit in ("\\\\", "\\}", "\\{", '\\"', "\\,", "\\ ", "{}", "x", " ", "\n", "#", "@ "):
            u = unit * n
            for tail in ("\\}", "\\{", '\\"', "", "\\, y", "\\=") if unit == "\\\\" else ("",):
                b = "a " + u + tail + " b"
                deep += ["@comment{" + b + "}\n@a{k}", "@a{k, t = {" + b + "}, u = 1}\n@b{j, v = 2}", "@string{s = {" + b + "}}\n@a{k, t = s}",
                         "@preamble{{" + b + "}}\n@a{k}"]
                if unit not in ("{}",) and '"' not in unit + tail:
                    deep.append('@a{k, t = "' + b + '", u = 1}\n@b{j}')
                if '"' in tail:
                    deep.append('@a{k, t = "a {' + u + tail + '} b", u = 1}\n@b{j}')
    for i, t in enumerate(deep):
        if i % nshards == shard:
            yield {"k": "tok", "text": t}
    n = tier_pick(tier, 30000, 600000) // nshards
    r = rng_for(seed, shard, "c02")
    for i in range(n):
        opts = grammar.Opts(max_items=r.choice([1, 2, 4, 8]), nest=r.choice([1, 3, 4]), big=0.01)
        text, truth = grammar.document(r, opts)
        yield {"k": "gen", "text": text, "truth": truth}


def collisions(items):
    ek, sk = set(), set()
    for it in items:
        if it["kind"] == "entry":
            if it["key"] in ek:
                return True
            ek.add(it["key"])
            fks = [f[0] for f in it["fields"]]
            if len(set(fks)) != len(fks):
                return True
        elif it["kind"] == "string":
            if it["key"] in sk:
                return True
            sk.add(it["key"])
    return False


def nontrivial(items):
    for it in items:
        vals = [f[1] for f in it["fields"]] if it["kind"] == "entry" else [it["value"]] if it["kind"] == "string" else []
        for v in vals:
            inner = v[1:-1] if len(v) >= 2 else ""
            if "{" in inner or '"' in inner or "\\" in inner:
                return True
    return False


def diff(got, want):
    """First difference between two projections -> (kind, info)."""
    if len(got) != len(want):
        if any(g[0] in ("failed", "dupkey", "dupfield") for g in got):
            fb = next(g for g in got if g[0] in ("failed", "dupkey", "dupfield"))
            return "failed-block", fb[1]
        return "block-count", f"{len(got)} != {len(want)}"
    for i, (g, w) in enumerate(zip(got, want)):
        if g == w:
            continue
        if g[0] in ("failed", "dupkey", "dupfield", "mwerror"):
            return "failed-block", g[1]
        if g[0] != w[0]:
            return "block-kind", f"{g[0]} for {w[0]}" + (f" type {w[1]}" if w[0] == "entry" else "")
        if w[0] == "entry":
            if g[1] != w[1]:
                return "entry-type", f"{g[1]!r} != {w[1]!r}"
            if g[2] != w[2]:
                return "entry-key", f"{g[2]!r} != {w[2]!r}"
            if [f[0] for f in g[3]] != [f[0] for f in w[3]]:
                return "field-keys", f"{[f[0] for f in g[3]]} != {[f[0] for f in w[3]]}"
            return "field-value", next(f"{a[1]!r} != {b[1]!r}" for a, b in zip(g[3], w[3]) if a != b)
        if w[0] == "string" and g[1] != w[1]:
            return "string-key", f"{g[1]!r} != {w[1]!r}"
        return f"{w[0]}-content", f"{g[-1]!r} != {w[-1]!r}"
    return None


def sig_of(kind, info, text):
    if kind == "failed-block":
        return f"C02:failed-block:{info}"
    if kind == "block-kind":
        return f"C02:block-kind:{info.split(' type ')[0]}"
    feats = "+".join(f for f in sp.features(text) if f in ("quote", "escape", "bsnl"))
    return f"C02:{kind}:{feats}"


def setup(ctx):
    sp.scan_states_on()


def finish(ctx):
    sp.scan_states_flush(ctx)


def check(case, ctx):
    text = case["text"]
    items = recogniser.recognise(text)
    if items is None:
        ctx.note("not_in_dialect")
        if case["k"] == "gen":
            ctx.note("oracle_disagreement")
            ctx.note("generator_doc_rejected_by_recogniser")
            ctx.sample({"oracle_disagreement": text, "why": recogniser.why_not(text)})
        return []
    truth = sp.strip_truth(grammar.jsonable(recogniser.project_truth(items)))
    if case["k"] == "gen":
        ctx.mon("generator_recogniser_crosscheck")
        if truth != sp.strip_truth(case["truth"]):
            ctx.note("oracle_disagreement")
            ctx.sample({"oracle_disagreement": text, "recogniser": truth, "generator": case["truth"]})
            return []
    if collisions(items):
        ctx.note("skipped_collision")
        return []
    if not items:
        ctx.note("empty_document")
    out = []
    for name, fn in (("split", sp.split), ("parse_string", sp.parse_raw)):
        st, lib = fn(text)
        ctx.ran()
        ctx.mon("differential_" + name)
        if st == "raise":
            out.append(Violation("raised", f"C02:raise:{lib.split(':')[0]}", dict(api=name, error=lib, text=text)))
            continue
        got = sp.project_lib(lib)
        d = diff(got, truth)
        if d:
            out.append(Violation(d[0], sig_of(d[0], d[1], text), dict(api=name, diff=d[1], text=text, got=got, want=truth)))
            break
    if not out and ctx.cases % 25 == 0:
        from ..monitors.fingerprint import fp, tamper
        st, l1 = sp.parse_default(text)
        if st == "ok":
            ctx.mon("reparse_after_tamper")
            snap = fp(l1)
            tamper(l1)
            st, l2 = sp.parse_default(text)
            ctx.ran(2)
            if st != "ok" or fp(l2) != snap:
                out.append(Violation("state-between-calls", "C02:second-parse-differs-after-first-result-was-modified", dict(text=text)))
    for it in items:
        ctx.state(it["kind"] + (":" + "+".join(sp.features(it["raw"])) if it["kind"] in ("entry", "string") else ""))
    if nontrivial(items):
        ctx.nontriv(text)
        ctx.sample(text) if ctx.cases % 97 == 0 else None
    return out


def shrink(case, still):
    from ..shrink import ddmin_str
    t = ddmin_str(case["text"], lambda s: still({"k": "tok", "text": s}))
    return {"k": "tok", "text": t}
