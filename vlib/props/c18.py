"""C18 - LaTeX en/decoding touches only text values, round-trips, and contains errors.

Monitors: scope monitor (path diff of fingerprints restricted to an allow-list), round-trip
monitor on texts calibrated by calling pylatexenc directly, failpoint-injected error containment
through the documented encoder=/decoder= arguments.
"""
import re

from ..core import Violation, rng_for, srepr, tier_pick
from ..monitors.fingerprint import fp, paths
from .. import sp

ID = "C18"
META = {
    "technique": "runtime monitoring: fingerprint path-diff scope monitor + round-trip monitor (alphabet calibrated per text against pylatexenc called directly) + failpoints injected through encoder=/decoder= on the real LaTeX middlewares",
    "level_text": "Libraries with str/int/NameParts/list values, @string blocks, comments, preambles and failed blocks are transformed by LatexEncodingMiddleware and LatexDecodingMiddleware under every constructor option and both in-place modes; only str field values, NameParts strings and @string values may change and must stay str. Texts of 1-30 characters (letters, digits, accented letters, punctuation, TeX specials, $..$ spans, URLs) that pylatexenc itself round-trips must round-trip through the middlewares at field, NameParts and @string level. Raising converters (exceptions with and without a message) must yield a MiddlewareErrorBlock retaining the entry, never an exception and never silence. Round-trip and scope libraries also hold @string blocks NAMED like the field texts. An entry whose field keys repeat is encoded and each encoded value is decoded on its own: every field must have been converted. A count family puts k distinct URLs, k equal URLs, k math spans, both interleaved and k accented words into one value, for k on both sides of 10, 100 and 256 (thorough 1000), under all eight encoder option sets. 6 % of the round-trip text parts are LaTeX-looking plain text (\\[..\\], \\(..\\), \\begin{x}, \\textbf{a}, escaped specials).",
    "level_note": "a text is in the quantifier iff pylatexenc (default encoder/decoder, called directly) round-trips it - this measures the third party's injectivity, not the repository; URLs over letters, digits and : / . _ - # ? = and, in a quarter of the cases, % ~ & (known finding K2: those do not round-trip with enclose_urls on)",
}
RULE = ("case = (kind, texts, options): kind in {roundtrip, scope, failpoint}; texts drawn from the calibrated alphabet, math spans and URLs; non-trivial = "
        "a text with >= 1 non-ASCII or TeX-special character; distinct = distinct (kind, texts, options)")
ASSUMPTIONS = ["pylatexenc 2.x behaviour on this image", "math spans contain letters, digits, ^ _ + - = and spaces; URLs contain no TeX-active characters"]
MIN = {"roundtrip_field": (5000, 100000), "roundtrip_nameparts": (1000, 20000), "roundtrip_string_block": (1000, 20000), "scope": (1500, 30000),
       "failpoint_containment": (1000, 20000), "calibrated_texts": (5000, 100000)}

LETTERS = "abcdefghijklmnopqrstuvwxyzABCDEFGHIJKLMNOPQRSTUVWXYZ"
ACCENTED = "àáâãäåæçèéêëìíîïñòóôõöøùúûüýÿÀÁÂÄÅÆÇÈÉÊËÍÎÏÑÓÔÖØÚÛÜßčšžřěůćńśźżąęłŁŠŽČőű"
PUNCT = ".,;:!?()[]-+*/=<>@|'` "
TEXSPECIAL = "#%&_{}~\\"
ALPHABET = LETTERS + "0123456789" + ACCENTED + PUNCT + TEXSPECIAL
URLCH = "abcxyz0189:/._-#?="
URLACTIVE = "%~&"          # ordinary URL characters (percent-encoding, home directories, query strings) that are TeX-active
MATHCH = "abxyz012^_+-= "


def _urlchars(r):
    pool = URLCH + URLACTIVE if r.random() < 0.25 else URLCH
    return "".join(r.choice(pool) for _ in range(r.randint(1, 6)))


def feature(text):
    urls = re.findall(r"(?:https?://|www\.)\S*", text)
    if any(c in u for u in urls for c in URLACTIVE):
        return "url-with-tex-active-character"
    if "$" in text:
        return "math-span-ending-in-escaped-backslash" if "\\\\$" in text else "math"
    return "url" if urls else "text"


LATEXISH = ["\\[a_b\\]", "\\(x\\)", "\\[\\]", "\\[ x \\] y", "\\begin{x} a \\end{x}", "\\textbf{a}", "\\emph{b} c", "\\{a\\}", "\\%", "\\&", "\\_", "\\#", "{\\'e}", "\\'e",
            "\\href{a}{b}", "\\cite{k}", "\\\\", "a\\\\b", "\\ ", "\\,", "\\]", "\\[", "\\) \\(", "%comment", "a~b", "\\textbackslash", "\\textbackslash{}", "{}", "{a}", "}{"]


def rand_text(r, latexish=False):
    if r.random() < 0.08:
        # a value that is nothing but one URL, with characters the encoder rewrites
        return r.choice(["http://", "https://", "www."]) + _urlchars(r) + r.choice([".org/a_b", ".com/x#y_z", ".io", ".org/a%20b", ".edu/~user", ".com/q?a=1&b=2"])
    parts = []
    for _ in range(r.randint(1, 4)):
        k = r.random()
        if k < .06 and latexish:
            # (round-trip cases only: fed to the DECODER directly such a text is LaTeX, and a conversion failure is allowed)
            # text that already LOOKS like LaTeX (seed C18-m: `\\[...\\]` kept verbatim as math by the encoder, decoded with
            # line breaks around it): to the encoder it is plain text over the stated alphabet, character by character
            parts.append(r.choice(LATEXISH))
        elif k < .7:
            parts.append("".join(r.choice(ALPHABET) for _ in range(r.randint(1, 10))))
        elif k < .85:
            parts.append("$" + "".join(r.choice(MATHCH) for _ in range(r.randint(1, 6))).strip() + ("x$" if r.random() < .85 else "\\\\$"))
        else:
            parts.append(r.choice(["http://", "https://", "www."]) + _urlchars(r) + "." + r.choice(["org", "com/a_b", "io/x#y"]))
    return " ".join(parts)


ENC_OPTS = [{}, {"keep_math": True}, {"enclose_urls": True}, {"keep_math": True, "enclose_urls": True}, {"enclose_urls": False}, {"keep_math": False},
            {"keep_math": False, "enclose_urls": False}, {"keep_math": True, "enclose_urls": False}]
SCOPE_ENC_OPTS = ENC_OPTS + [{"keep_math": False}, {"enclose_urls": False}, {"keep_math": False, "enclose_urls": False}]
SCOPE_DEC_OPTS = [{}, {"keep_braced_groups": True}, {"keep_math_mode": False}, {"keep_braced_groups": True, "keep_math_mode": False}, {"keep_braced_groups": False, "keep_math_mode": True}]


def window_text(r, limit):
    """A long ordinary text whose length is just below `limit` (its LaTeX encoding is longer than `limit`)."""
    words = ["Größe", "café", "naïve", "text", "of", "the", "100%", "A&B", "x_y", "señor", "plain", "words"]
    out = []
    n = 0
    target = limit - r.randint(1, 40)
    while n < target - 8:
        w = r.choice(words)
        out.append(w)
        n += len(w) + 1
    t = " ".join(out)
    return t + "x" * max(0, target - len(t))


def cases(tier, seed, shard, nshards):
    r = rng_for(seed, shard, "c18")
    for limit in ([256, 1024, 4096, 32768, 65536] if shard % 2 == 0 else [512, 2048, 8192, 16384, 32768]):
        yield {"k": "rt", "texts": [window_text(r, limit), "b", "c"], "opts": {}, "inplace": shard % 4 < 2}
    # HOW MANY of a feature one value holds (seed C18-l: numbered place-holders without a terminator: the 11th distinct URL
    # comes back as the 2nd + '0'): k distinct / k equal URLs, math spans, both interleaved, around 10, 100 and 256
    j = 0
    for k in (2, 3, 9, 10, 11, 12, 21, 99, 100, 101, 111, 257) if tier == "quick" else (2, 3, 9, 10, 11, 12, 21, 99, 100, 101, 111, 255, 256, 257, 1000, 1001):
        urls = ["http://site%d.org/p_%d" % (i, i) for i in range(k)]
        maths = ["$x_%d + a^%d$" % (i % 7, i) for i in range(k)]
        fams = [" ".join(urls), " and ".join(["www.same.org/a_b"] * k), " ".join(maths), " ".join(u + " " + m for u, m in zip(urls, maths)), " ".join(reversed(urls)),
                " ".join("caf\u00e9%d" % i for i in range(k)), ", ".join("https://x.y/%d" % (10 ** (i % 4) + i) for i in range(k))]
        for t in fams:
            for oi in range(len(ENC_OPTS)):
                j += 1
                if j % nshards == shard:
                    yield {"k": "rt", "texts": [t, "b", rand_text(r)], "opts": ENC_OPTS[oi], "inplace": bool(j & 1)}
    n = tier_pick(tier, 24000, 960000) // nshards
    for i in range(n):
        m = i % 6
        if m < 3:
            yield {"k": "rt", "texts": [rand_text(r, latexish=True) for _ in range(3)], "opts": ENC_OPTS[r.randrange(len(ENC_OPTS))], "inplace": r.random() < .5}
        elif m < 5:
            yield {"k": "scope", "texts": [rand_text(r) for _ in range(4)], "which": r.choice(["enc", "dec"]),
                   "opts": r.randrange(7), "inplace": r.random() < .5}
        else:
            yield {"k": "fp", "texts": [rand_text(r) for _ in range(3)], "which": r.choice(["enc", "dec"]), "mode": r.choice(["always", "marker"]),
                   "inplace": r.random() < .5, "order": r.sample(range(6), 6), "exc": r.choice(["msg", "msg", "empty", "assert", "keyerror"]), "where": r.choice(["title", "note", "np.first", "np.last", "nponly.first", "nponly.von", "nponly.last", "nponly.jr"])}


_DIRECT = None


def direct_roundtrip(t, mask_math=True, mask_url=True):
    """pylatexenc called directly (its own defaults): does the third party round-trip t?  Math spans and
    URLs are masked only when the repository's own rule protects them under the options in use."""
    global _DIRECT
    if _DIRECT is None:
        from pylatexenc.latex2text import LatexNodes2Text
        from pylatexenc.latexencode import UnicodeToLatexEncoder
        _DIRECT = (UnicodeToLatexEncoder(), LatexNodes2Text(math_mode="verbatim"))
    try:
        # math spans and urls are protected by the repository's own rules: calibrate the rest
        plain = re.sub(r"\$[^$]*\$", "M", t) if mask_math else t
        plain = re.sub(r"(https?://|www\.)\S*", "U", plain) if mask_url else plain
        return _DIRECT[1].latex_to_text(_DIRECT[0].unicode_to_latex(plain)) == plain
    except Exception:
        return False


_MATH = re.compile(r"\$[abxyz012^_+\-= ]*(?:x|\\\\)\$")       # a span ends in x or in the math line break '\\\\' 
_URL = re.compile(r"(https?://|www\.)[abcxyz0189:/._\-#?=%~&]+")
LIGATURES = ("--", "``", "''", "!`", "?`")


def in_quantifier(t):
    """Text shape of the statement: no TeX ligature sequences, '^' or '\"'; '$' only as delimiters of a
    math span; URL-looking parts only of the URL shape."""
    if any(x in t for x in LIGATURES) or "^" in _MATH.sub("", t) or '"' in t:
        return False
    rest = _URL.sub(" ", _MATH.sub(" ", t))
    return "$" not in rest and "http" not in rest and "www." not in rest


def mk_library(texts, with_np=True, order=None, np_only=None, named=False):
    from bibtexparser import model as M
    from bibtexparser.library import Library
    from bibtexparser.middlewares import NameParts
    from bibtexparser.exceptions import BlockAbortedException
    t = texts + texts
    fields = [M.Field("title", t[0], 1), M.Field("year", 2020, 2), M.Field("note", t[1], 3)]
    if with_np:
        fields.append(M.Field("author", NameParts(first=[t[2]], von=[], last=[t[0], t[1]], jr=[]), 4))
        fields.append(M.Field("editor", [NameParts(first=[t[1]], last=[t[2]])], 5))
        fields.append(M.Field("keywords", [t[0], t[1]], 6))
    if order:
        fields = [fields[i % len(fields)] for i in order if i < len(fields)] + [f for j, f in enumerate(fields) if j not in order]
    e = M.Entry("article", "Key" + "é", fields, start_line=3, raw="@article{raw " + t[0] + "}")
    e.set_parser_metadata("some", {"meta": t[0]})
    # as left behind by the default parse stack: a record per field, some of them 'no-enclosing'
    e.set_parser_metadata("removed_enclosing", {f.key: ["{", "no-enclosing", '"'][(i + len(t[0])) % 3] for i, f in enumerate(fields)})
    blocks = [M.String("str" + "é", t[2], 0, "@string{raw}"), e, M.Preamble("pre " + t[0], 9, "@preamble{raw}"), M.ExplicitComment("c " + t[1], 10, "@comment{raw}"),
              M.ImplicitComment("% " + t[2], 11, "% raw"), M.ParsingFailedBlock(BlockAbortedException("x", 1), 12, "@failed{" + t[0]),
              M.Entry("book", "second", [M.Field("title", t[2], 20)], 19, "raw2")]
    # what else is in the library must not matter: @string blocks NAMED like a field's text (seed C18-g)
    if named:
        blocks += [M.String(t[0], "named like the title", 40, "@string{raw4}"), M.String(t[1], t[1], 41, "@string{raw5}")]
    if np_only is not None:
        blocks.append(M.Entry("misc", "nponly", [M.Field("author", NameParts(first=[np_only[0]], von=[np_only[1]], last=[np_only[2]], jr=[np_only[3]]), 30)], 29, "raw3"))
    return Library(blocks)


_INSTANCES = {}


def make(which, opts, inplace, **extra):
    """Default-configured instances are re-used across cases (state carried from one library to the next
    would show); instances with injected converters are fresh."""
    from bibtexparser.middlewares import LatexDecodingMiddleware, LatexEncodingMiddleware
    cls = LatexEncodingMiddleware if which == "enc" else LatexDecodingMiddleware
    if extra:
        return cls(allow_inplace_modification=inplace, **opts, **extra)
    key = repr((which, sorted(opts.items()), inplace))
    if key not in _INSTANCES:
        _INSTANCES[key] = cls(allow_inplace_modification=inplace, **opts)
    return _INSTANCES[key]


ALLOWED = re.compile(r"^(\._blocks\[\d+\]|\._entries_by_key\{[^}]*\}|\._strings_by_key\{[^}]*\})"
                     r"(\._fields\[\d+\]\._value(\.(first|von|last|jr)\[\d+\])?|\._value)$")


def nontriv_text(t):
    return any(ord(c) > 127 or c in TEXSPECIAL + "$" for c in t)


def check_rt(case, ctx):
    texts = [t for t in case["texts"]]
    mm = case["opts"].get("keep_math", True) is not False
    mu = case["opts"].get("enclose_urls", True) is not False
    good = [t for t in texts if in_quantifier(t) and direct_roundtrip(t, mm, mu) and (mm or "$" not in t or direct_roundtrip(t, False, mu))]
    ctx.note("texts_outside_calibrated_alphabet", len(texts) - len(good))
    if len(good) < 3:
        good = (good + ["plain text"] * 3)[:3]
    ctx.mon("calibrated_texts", len(good))
    lib = mk_library(good, named=True)
    out = []
    enc = make("enc", case["opts"], case["inplace"])
    dec = make("dec", {}, case["inplace"])
    st, l1 = sp.escape(lambda: enc.transform(lib))
    ctx.ran()
    if st == "raise":
        return [Violation("raised", f"C18:encode-raised:{l1.split(':')[0]}", dict(texts=good, error=l1))]
    st, l2 = sp.escape(lambda: dec.transform(l1))
    ctx.ran()
    if st == "raise":
        return [Violation("raised", f"C18:decode-raised:{l2.split(':')[0]}", dict(texts=good, error=l2))]
    ents = [b for b in l2.blocks if sp.block_kind(b) == "entry"]
    ctx.state("rt:" + ",".join(f"{k}={v}" for k, v in sorted(case["opts"].items())))
    if len(ents) != 2 or sp.block_kind(l2.blocks[0]) != "string":
        kinds = [sp.block_kind(b) for b in l2.blocks]
        return [Violation("error-on-valid-text", "C18:roundtrip:error-block-on-calibrated-text", dict(texts=good, kinds=kinds,
                                                                                                    error=srepr(next((b.error for b in l2.blocks if sp.block_kind(b) == "mwerror"), None))))]
    e = ents[0]
    t = good + good
    ctx.mon("roundtrip_field", 2)
    for key, want in (("title", t[0]), ("note", t[1])):
        if e[key] != want:
            feat = feature(want)
            out.append(Violation("roundtrip", f"C18:roundtrip:field:{feat}", dict(text=want, got=srepr(e[key]), opts=case["opts"])))
            return out
    ctx.mon("roundtrip_nameparts")
    np = e["author"]
    if [np.first, np.von, np.last, np.jr] != [[t[2]], [], [t[0], t[1]], []]:
        worst = next((f for f in ("url-with-tex-active-character", "math-span-ending-in-escaped-backslash") if any(feature(x) == f for x in good)), "")
        out.append(Violation("roundtrip", "C18:roundtrip:nameparts" + (":" + worst if worst else ""), dict(texts=good, got=srepr(np))))
    # an entry whose field keys repeat (built in code, or taken out of a duplicate-field block): EVERY field is converted, which
    # a whole-pipeline round trip cannot see when both directions skip the same field - so each encoded value is decoded on
    # its own, in a fresh single-field entry (seed C18-k)
    if not out:
        from bibtexparser import model as M
        from bibtexparser.library import Library
        ctx.mon("duplicate_field_keys_each_converted")
        keys = ["title", "title", "note", "title", "Note"]
        vals = [t[0], t[1], t[2], t[0], t[1]]
        dl = Library([M.Entry("article", "dups", [M.Field(k, v, i) for i, (k, v) in enumerate(zip(keys, vals))], 0, "rawd")])
        st, d1 = sp.escape(lambda: enc.transform(dl))
        ctx.ran()
        if st == "raise" or not d1.entries or len(d1.entries[0].fields) != len(keys):
            out.append(Violation("roundtrip", "C18:roundtrip:duplicate-field-keys:encode-failed", dict(texts=good, got=srepr(d1))))
        else:
            for i, f in enumerate(d1.entries[0].fields):
                st, d2 = sp.escape(lambda: dec.transform(Library([M.Entry("article", "one", [M.Field("title", f.value, 0)], 0, "raw1")])))
                ctx.ran()
                back = d2.entries[0].fields[0].value if st == "ok" and d2.entries else None
                if f.key != keys[i] or back != vals[i]:
                    out.append(Violation("roundtrip", "C18:roundtrip:duplicate-field-keys:field-not-converted",
                                         dict(index=i, key=f.key, text=vals[i], encoded=srepr(f.value), decoded_alone=srepr(back), opts=case["opts"])))
                    break
    ctx.mon("roundtrip_string_block")
    s = l2.blocks[0]
    if not isinstance(s.value, str) or s.value != t[2]:
        out.append(Violation("roundtrip", f"C18:roundtrip:string-block:{type(s.value).__name__}" + (":" + feature(t[2]) if feature(t[2]) in ("url-with-tex-active-character", "math-span-ending-in-escaped-backslash") else ""),
                             dict(text=t[2], got=srepr(s.value))))
    return out


def public_snapshot(lib, mask_text):
    """What a user can see of a library through the public API.  With mask_text the places the property allows to
    change (str field values, strings inside NameParts, @string values) are reduced to their TYPE."""
    from bibtexparser.middlewares import NameParts

    def val(v):
        if isinstance(v, str):
            return ("str",) if mask_text else ("str", v)
        if isinstance(v, NameParts):
            parts = [v.first, v.von, v.last, v.jr]
            return ("NameParts",) + tuple(tuple(("str",) if (mask_text and isinstance(x, str)) else (type(x).__name__, x) for x in p) for p in parts)
        return ("other", fp(v))

    out = []
    for b in lib.blocks:
        k = sp.block_kind(b)
        common = (type(b).__name__, b.start_line, b.raw, fp({kk: vv for kk, vv in b.parser_metadata.items()}))
        if k == "entry":
            out.append(common + (b.entry_type, b.key, tuple((f.key, f.start_line, val(f.value)) for f in b.fields)))
        elif k == "string":
            out.append(common + (b.key, val(b.value)))
        elif k == "preamble":
            out.append(common + (b.value,))
        elif k in ("ecomment", "icomment"):
            out.append(common + (b.comment,))
        else:
            out.append(common + (fp(b.error), fp(b.ignore_error_block)))
    return out, sorted(lib.entries_dict), sorted(lib.strings_dict)


def check_scope(case, ctx):
    texts = case["texts"]
    lib = mk_library(texts, named=True)
    which = case["which"]
    optlist = SCOPE_ENC_OPTS if which == "enc" else SCOPE_DEC_OPTS
    opts = optlist[case["opts"] % len(optlist)]
    before = public_snapshot(lib, True)
    mw = make(which, opts, case["inplace"])
    st, res = sp.escape(lambda: mw.transform(lib))
    ctx.ran()
    if st == "raise":
        return [Violation("raised", f"C18:{which}-raised:{res.split(':')[0]}", dict(texts=texts, error=res, opts=opts))]
    kinds = [sp.block_kind(b) for b in res.blocks]
    if "mwerror" in kinds:
        ctx.note("scope_skipped_conversion_error")
        return []
    ctx.mon("scope")
    after = public_snapshot(res, True)
    if after == before:
        return []
    # localise the first difference
    what, place = "outside-allowed-places", "library"
    if len(after[0]) != len(before[0]) or after[1:] != before[1:]:
        place = "blocks-or-key-index"
    else:
        for i, (a, b) in enumerate(zip(before[0], after[0])):
            if a != b:
                place = f"{a[0]}"
                if len(a) == len(b):
                    for j, (x, y) in enumerate(zip(a, b)):
                        if x != y:
                            names = ["class", "start_line", "raw", "metadata", "type-or-key-or-content", "key-or-value", "fields"]
                            place += ":" + (names[j] if j < len(names) else str(j))
                            if isinstance(x, tuple) and isinstance(y, tuple) and x and y and x[0] in ("str", "NameParts") and y[0] != x[0]:
                                what = "type-changed"
                            break
                break
    return [Violation("scope", f"C18:scope:{which}:{what}:{place}", dict(place=place, opts=opts, texts=texts,
                                                                          before=srepr(before, 600), after=srepr(after, 600)))]


def _injected(kind, msg):
    """The exception a failing converter raises: with a message, without one (str(e) == ''), a bare assert, a KeyError."""
    if kind == "empty":
        return ValueError()
    if kind == "assert":
        return AssertionError()
    if kind == "keyerror":
        return KeyError(3)
    return RuntimeError(msg)


def check_failpoint(case, ctx):
    from pylatexenc.latex2text import LatexNodes2Text
    from pylatexenc.latexencode import UnicodeToLatexEncoder
    texts = case["texts"]
    mode = case["mode"]
    marker = "FAILHERE"

    class BadEnc(UnicodeToLatexEncoder):
        def unicode_to_latex(self, s, **kw):
            if mode == "always" or marker in s:
                raise _injected(case.get("exc", "msg"), "injected encoder failure")
            return super().unicode_to_latex(s, **kw)

    class BadDec(LatexNodes2Text):
        def latex_to_text(self, s, **kw):
            if mode == "always" or marker in s:
                raise _injected(case.get("exc", "msg"), "injected decoder failure")
            return super().latex_to_text(s, **kw)

    tx = list(texts)
    where = case.get("where", "title")
    np_only = ["Aa", "bb", "Cc", "jr"]
    if mode == "marker":
        if where in ("title", "np.last"):
            tx[0] = tx[0] + " " + marker          # t[0] is the title and the first word of author.last
        elif where == "note":
            tx[1] = tx[1] + " " + marker
        elif where == "np.first":
            tx[2] = tx[2] + " " + marker          # t[2] is author.first (and the @string value)
        else:
            np_only[["nponly.first", "nponly.von", "nponly.last", "nponly.jr"].index(where)] += marker
    lib = mk_library(tx, with_np=True, order=case.get("order"), np_only=np_only)
    orig_entry_fp = fp(lib.blocks[1])
    orig_second_fp = fp(lib.blocks[6])
    orig_np_fp = fp(lib.blocks[7])
    which = case["which"]
    mw = make(which, {}, case["inplace"], **({"encoder": BadEnc()} if which == "enc" else {"decoder": BadDec()}))
    st, res = sp.escape(lambda: mw.transform(lib))
    ctx.ran()
    ctx.mon("failpoint_containment")
    if st == "raise":
        return [Violation("failure-not-contained", f"C18:failpoint:{which}:exception-escaped:{res.split(':')[0]}", dict(error=res, mode=mode))]
    out = []
    hit_main = mode == "always" or not where.startswith("nponly")
    hit_np = mode == "always" or where.startswith("nponly")
    b = res.blocks[1]
    if hit_main:
        if sp.block_kind(b) != "mwerror" or sp.block_kind(b.ignore_error_block) != "entry":
            return [Violation("failure-not-contained", f"C18:failpoint:{which}:no-error-block:{'nameparts' if where.startswith('np') else 'str'}-value",
                              dict(kinds=[sp.block_kind(x) for x in res.blocks], mode=mode, where=where, order=case.get("order")))]
        inner = b.ignore_error_block
        if inner.key != "Key" + "é" or inner.entry_type != "article":
            out.append(Violation("error-block", f"C18:failpoint:{which}:error-block-lost-entry-identity", dict(key=inner.key)))
        if mode == "always" and fp(inner) != orig_entry_fp:
            out.append(Violation("error-block", f"C18:failpoint:{which}:contained-entry-differs-from-original", dict(mode=mode)))
        if mode == "marker" and where == "title" and inner["title"] != tx[0]:
            out.append(Violation("error-block", f"C18:failpoint:{which}:failing-value-changed", dict(got=srepr(inner['title']), want=tx[0])))
    elif sp.block_kind(b) != "entry":
        out.append(Violation("error-block", f"C18:failpoint:{which}:healthy-entry-became-error", dict(kind=sp.block_kind(b), where=where)))
    b7 = res.blocks[7]
    if hit_np:
        if sp.block_kind(b7) != "mwerror" or sp.block_kind(b7.ignore_error_block) != "entry":
            return out + [Violation("failure-not-contained", f"C18:failpoint:{which}:no-error-block:nameparts-only-entry",
                                    dict(kinds=[sp.block_kind(x) for x in res.blocks], mode=mode, where=where))]
        if mode == "always" and fp(b7.ignore_error_block) != orig_np_fp:
            out.append(Violation("error-block", f"C18:failpoint:{which}:contained-entry-differs-from-original", dict(mode=mode, entry="nponly")))
    elif sp.block_kind(b7) != "entry":
        out.append(Violation("error-block", f"C18:failpoint:{which}:healthy-entry-became-error", dict(kind=sp.block_kind(b7), where=where)))
    b2 = res.blocks[6]
    if mode == "always":
        if sp.block_kind(b2) != "mwerror" or fp(b2.ignore_error_block) != orig_second_fp:
            out.append(Violation("error-block", f"C18:failpoint:{which}:second-entry-not-contained", dict(kind=sp.block_kind(b2))))
    elif where == "np.first":
        pass    # t[2] is also the title of the second entry: it fails as well
    elif sp.block_kind(b2) != "entry":
        out.append(Violation("error-block", f"C18:failpoint:{which}:healthy-entry-became-error", dict(kind=sp.block_kind(b2))))
    s = res.blocks[0]
    sk = sp.block_kind(s)
    if sk == "string":
        if not isinstance(s.value, str):
            out.append(Violation("string-value-type", f"C18:failpoint:{which}:string-value-not-str:{type(s.value).__name__}", dict(got=srepr(s.value))))
    elif not (sk == "mwerror" and sp.block_kind(s.ignore_error_block) == "string" and isinstance(s.ignore_error_block.value, str)):
        out.append(Violation("string-block", f"C18:failpoint:{which}:string-block-lost", dict(kind=sk)))
    return out


def setup(ctx):
    """Evidence: which single alphabet characters the third-party converter itself fails to round-trip
    (only those are removed by the per-text calibration; everything else that fails is the middleware's doing)."""
    if ctx.shard == 0:
        bad = [c for c in ALPHABET if not direct_roundtrip("a" + c + "b")]
        for c in bad:
            ctx.state("calibration: pylatexenc itself does not round-trip %r (U+%04X), excluded" % (c, ord(c)))
        ctx.note("alphabet_chars_not_roundtripped_by_third_party", len(bad))


def check(case, ctx):
    k = case["k"]
    out = check_rt(case, ctx) if k == "rt" else check_scope(case, ctx) if k == "scope" else check_failpoint(case, ctx)
    ctx.state(f"{k}:{case.get('which', '')}:{case.get('mode', '')}:{case['inplace']}")
    if any(nontriv_text(t) for t in case["texts"]):
        ctx.nontriv(case)
        if ctx.cases % 199 == 0:
            ctx.sample(case)
    return out


def shrink(case, still):
    from ..shrink import ddmin_str
    texts = list(case["texts"])
    for i in range(len(texts)):
        texts[i] = ddmin_str(texts[i], lambda s: still(dict(case, texts=texts[:i] + [s] + texts[i + 1:])), max_tests=60)
    return dict(case, texts=texts)
