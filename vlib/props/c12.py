"""C12 - co-author splitting loses nothing and splits only at top-level ' and '.

Monitors: icontract postcondition (conservation + idempotence) on the real
split_multiple_persons_names; differential against an independent separator scanner on
brace-balanced inputs; SeparateCoAuthors / MergeCoAuthors observed on author/editor/translator.
"""
from ..core import Violation, rng_for, srepr, tier_pick
from ..gen import tokens
from ..monitors import contracts
from ..ref import names as R
from .. import build, sp

ID = "C12"
META = {
    "technique": "runtime monitoring: icontract postcondition (conservation, idempotence) on split_multiple_persons_names + differential against an independent separator scanner, over bounded-exhaustive token sequences and random author lists",
    "level_text": "Every token sequence up to the bound over the name-list alphabet (words, and/AND/aNd, partial an/d, space/tab/newline, ~, braces, {x and y}, escapes, comma) is split by the real function under an icontract postcondition (pieces + 'and' separators account for every non-blank character; re-split of the ' and '-join is the same) and, when brace-balanced, compared with an independent reference splitter; the middlewares are observed on the three name fields and on a non-name field.",
    "level_note": "whitespace = space, tab, CR, LF (the function's own set); reference comparison only on brace-balanced inputs",
}
RULE = ("case = name-list string: all token sequences <= L over the alphabet + random lists of 1-40 persons with decoy separators; non-trivial = the "
        "input contains the letters a-n-d in sequence (any case) at brace depth 0, or an escape; distinct = distinct string")
ASSUMPTIONS = ["escaped characters and '~' are neither whitespace nor part of the word 'and' (statement)"]
MIN = {"split_names_post": (100000, 1000000), "reference_split": (100000, 1000000), "middleware_fields": (2000, 20000)}

ALPHA = ["Aa", "bb", "and", "AND", "aNd", "an", "d", " ", "\t", "\n", "~", "{", "}", "{x and y}", "\\'", "\\\\", "\\a", ",", "\\"]


def _L(tier):
    return tier_pick(tier, 5, 6)


def exhaustive(tier):
    return f"all token sequences of length <= {_L(tier)} over {ALPHA!r}"


PERSONS = ["Donald E. Knuth", "Knuth, Donald E.", "von Beethoven, Ludwig", "{Simon and Schuster}", "Sand", "andrea Anders", "Anderson, and.",
           "\\'Etienne Marc", "Jean~Paul", "{\\'E}douard", "A. {and} B.", "d'and", "Hand And", "\\and X", "X\\ and", "{and}", "Brand", "a", "AND1",
           "Per Brinch Hansen", "de la Vall{\\'e}e Poussin, Charles", "X,", "jr, Y, Z",
           "Johann Strauß", "İbrahim Ağa", "ﬁnn ﬂuß", "Éric Ñandú", "Ǆemal", "ΐota", "李 四", "ŉ", "and ß"]
SEPS = ["\\  and ", "\\ and ", " and \\ ", " and ", " AND ", " And ", "\nand\t", "  and  ", " and\n", "\tand ", " and and ", " an d ", " and, ", " and~", "~and ", " a\\'nd ", " {and} "]


def cases(tier, seed, shard, nshards):
    for seq in tokens.sequences(ALPHA, _L(tier), shard, nshards):
        yield {"s": "".join(seq)}
    r = rng_for(seed, shard, "c12")
    for _ in range(tier_pick(tier, 30000, 1000000) // nshards):
        n = r.choice([1, 2, 2, 3, 5, 10, 40])
        parts = [r.choice(PERSONS)]
        for _ in range(n - 1):
            parts.append(r.choice(SEPS))
            parts.append(r.choice(PERSONS))
        yield {"s": r.choice(["", " ", "\n"]) + "".join(parts) + r.choice(["", " ", " and", " and "])}


def feature(s):
    f = []
    if "\\" in s:
        f.append("escape")
    if "{" in s or "}" in s:
        f.append("brace")
    if "~" in s:
        f.append("tie")
    return "+".join(f) or "plain"


def setup(ctx):
    """Order of public calls: the other name functions/middlewares have been used in this process before
    (and are used again every few thousand cases) - state shared between them must not change the splitter."""
    warm_up()


def warm_up():
    from bibtexparser.middlewares import names as N
    for nm in ("Aa~bb Cc", "von~Last, Jr, First", "{x and y} z"):
        try:
            N.parse_single_name_into_parts(nm).merge_last_name_first
        except Exception:  # noqa
            pass
    lib = build.library([["entry", "article", "w", [["author", ["Aa~bb Cc", "D~E"]]]]])
    sp.escape(lambda: N.MergeNameParts().transform(N.SplitNameParts().transform(lib)))


def check(case, ctx):
    from bibtexparser.middlewares import names as N
    contracts.install_split_contract()
    if ctx.cases % 5000 == 0:
        warm_up()
    s = case["s"]
    out = []
    c0 = contracts.COUNT["split_names_post"]
    try:
        pieces = N.split_multiple_persons_names(s)
    except contracts.PostBroken as ex:
        pieces = contracts.ORIG["split"](s)
        out.append(Violation(str(ex), f"C12:{ex}:{feature(s)}", dict(input=s, pieces=pieces)))
    except BaseException as ex:  # noqa
        if isinstance(ex, (KeyboardInterrupt, SystemExit)):
            raise
        return [Violation("raised", f"C12:raised:{type(ex).__name__}", dict(input=s, error=srepr(ex)))]
    ctx.ran()
    ctx.mon("split_names_post", contracts.COUNT["split_names_post"] - c0)
    ref = R.split_ref(s)
    if ref is not None:
        ctx.mon("reference_split")
        if pieces != ref and not out:
            why = "split-where-no-separator" if len(pieces) > len(ref) else "missed-separator" if len(pieces) < len(ref) else "pieces-differ"
            out.append(Violation(why, f"C12:{why}:{feature(s)}", dict(input=s, pieces=pieces, reference=ref)))
    else:
        ctx.note("unbalanced_not_compared_with_reference")
    # middlewares on the three name fields + a non-name field (sampled: they only delegate)
    if ctx.cases % 40 == 0 and not out:
        ctx.mon("middleware_fields")
        for inplace in (False, True):
            lib = build.library([["entry", "article", "k", [["author", s], ["editor", s], ["translator", s], ["title", s], ["Author", s]]]])
            st, res = sp.escape(lambda: N.SeparateCoAuthors(allow_inplace_modification=inplace).transform(lib))
            ctx.ran()
            if st == "raise":
                out.append(Violation("middleware-raised", f"C12:separate-raised:{res.split(':')[0]}", dict(input=s, error=res)))
                break
            vals = {f.key: f.value for f in res.entries[0].fields}
            if not (vals["author"] == vals["editor"] == vals["translator"] == pieces and vals["title"] == s and vals["Author"] == s):
                out.append(Violation("middleware-fields", "C12:separate-fields", dict(input=s, got=srepr(vals), pieces=pieces)))
                break
            st, res2 = sp.escape(lambda: N.MergeCoAuthors(allow_inplace_modification=inplace).transform(res))
            ctx.ran()
            if st == "raise":
                out.append(Violation("middleware-raised", f"C12:merge-raised:{res2.split(':')[0]}", dict(input=s, error=res2)))
                break
            vals2 = {f.key: f.value for f in res2.entries[0].fields}
            if not (vals2["author"] == vals2["editor"] == vals2["translator"] == " and ".join(pieces) and vals2["title"] == s):
                out.append(Violation("middleware-fields", "C12:merge-fields", dict(input=s, got=srepr(vals2))))
                break
    m, _ = R.mask_plain(s)
    if "and" in m.lower() or "\\" in s:
        ctx.nontriv(s)
        ctx.state(f"{feature(s)}:n={min(len(pieces), 4)}")
        if ctx.cases % 9973 == 0:
            ctx.sample(s)
    return out


def shrink(case, still):
    from ..shrink import ddmin_str
    return {"s": ddmin_str(case["s"], lambda t: still({"s": t}), max_tests=300)}
