"""C17 - field sorting and key normalisation only permute/merge fields; values intact.

Postcondition monitors written from the statement (stable sorts on indices, last-wins fold),
idempotence by double application, fingerprint of everything else unchanged.
"""
import itertools

from ..core import Violation, rng_for, srepr, tier_pick
from ..monitors.fingerprint import fp
from .. import build, sp

ID = "C17"
META = {
    "technique": "runtime monitoring: permutation/stability/last-wins/idempotence postconditions on the real SortFieldsAlphabetically/SortFieldsCustom/NormalizeFieldKeys transforms over an exhaustive colliding-key space",
    "level_text": "Every entry with 0-5 fields over keys {a,A,b,B,ab} (all collision patterns) is transformed by the three real middlewares - the custom sorter with every order list that is a sub-permutation of {a,A,b,ab,zz} of length <= 3 in both case modes, both in-place modes - and the result is compared with models written from the statement; other blocks, entry type/key and all values must be untouched and a second application must change nothing. Every fourth field value is falsy or blank ('', 0, '0', ' ', 0.0, False, '{}').",
    "level_note": "alphabetical order = Python string order of the keys (the repository sorts by key)",
}
RULE = ("case = (field-key sequence over {a,A,b,B,ab}, middleware spec); all key sequences of length 0..5 (random 6..8 in thorough) x "
        "{alphabetical, normalise, custom(order, case_sensitive)}; non-trivial = >= 2 fields whose keys collide case-insensitively or tie in "
        "the sort key; distinct = distinct (keys, middleware spec)")
ASSUMPTIONS = ["field values are opaque (unique tokens) and must be carried unchanged"]
MIN = {"alphabetical": (3000, 10000), "custom": (50000, 200000), "normalise": (3000, 10000), "idempotent": (50000, 200000), "order_rejected": (500, 2000), "pipeline_step": (50000, 90000)}

KEYS = ["a", "A", "b", "B", "ab"]          # case variants and a key that contains other keys
ORDER_POOL = ["a", "A", "b", "ab", "zz"]


def orders():
    out = [()]
    for n in (1, 2, 3):
        out += list(itertools.permutations(ORDER_POOL, n))
    return out


ORDERS = orders()


def exhaustive(tier):
    return ("all field-key sequences of length 0..5 over {a,A,b,B,ab} x {alphabetical, normalise} and x every custom order "
            "(sub-permutations of {a,A,b,ab,zz} up to length 3, both case modes) for length <= 3; rotating order subset for longer")


def cases(tier, seed, shard, nshards):
    idx = 0
    for n in range(0, 6):
        for ks in itertools.product(KEYS, repeat=n):
            idx += 1
            if idx % nshards != shard:
                continue
            yield {"keys": list(ks), "mw": ["alpha"]}
            yield {"keys": list(ks), "mw": ["norm"]}
            if n <= 3:
                sel = range(len(ORDERS))
            else:
                sel = range((idx + seed) % 7, len(ORDERS), 7)
            for oi in sel:
                for cs in (False, True):
                    yield {"keys": list(ks), "mw": ["custom", list(ORDERS[oi]), cs]}
    # pipelines: the same entry goes through 2-3 of the middlewares in a row (e.g. sort, normalise, sort again)
    pidx = 0
    basic = [["alpha"], ["norm"], ["custom", ["b", "a"], False], ["custom", ["A", "zz"], True]]
    for n in (2, 3, 4):
        for ks in itertools.product(KEYS, repeat=n):
            for pipe in itertools.product(range(len(basic)), repeat=2 if n == 4 else 3):
                pidx += 1
                if pidx % nshards != shard or (tier == "quick" and n == 4 and (pidx // nshards) % 4):
                    continue
                yield {"keys": list(ks), "pipe": [basic[i] for i in pipe]}
    if True:
        r = rng_for(seed, shard, "c17")
        for _ in range(tier_pick(tier, 20000, 2000000) // nshards):
            ks = [r.choice(KEYS + ["Author", "author", "AUTHOR", "é", "É", "title", "booktitle", "straße", "µ", "ς", "ſ", "ﬁ"]) for _ in range(r.choice([6, 7, 8, 8, 12, 30]))]
            which = r.random()
            if which < .2:
                mw = ["alpha"]
            elif which < .4:
                mw = ["norm"]
            else:
                mw = ["custom", list(r.choice(ORDERS)), r.random() < .5] if r.random() < .6 else \
                     ["custom", r.sample(["straße", "µ", "ς", "ſ", "ﬁ", "zz", "b"], r.randint(1, 3)), r.random() < .5]
            yield {"keys": ks, "mw": mw}


_INSTANCES = {}


def make_mw(spec, inplace):
    """Instances are re-used across cases (a middleware object is meant to be applied to many libraries):
    state leaking from one library into the next becomes visible."""
    key = repr((spec, inplace))
    if key not in _INSTANCES:
        _INSTANCES[key] = _make_mw(spec, inplace)
    return _INSTANCES[key]


def _make_mw(spec, inplace):
    from bibtexparser import middlewares as mws
    if spec[0] == "alpha":
        return mws.SortFieldsAlphabeticallyMiddleware(allow_inplace_modification=inplace)
    if spec[0] == "norm":
        return mws.NormalizeFieldKeys(allow_inplace_modification=inplace)
    return mws.SortFieldsCustomMiddleware(order=tuple(spec[1]), case_sensitive=spec[2], allow_inplace_modification=inplace)


def model(spec, pairs):
    """pairs = [(key, value)] -> expected [(key, value)]"""
    if spec[0] == "alpha":
        idx = sorted(range(len(pairs)), key=lambda i: (pairs[i][0], i))
        return [pairs[i] for i in idx]
    if spec[0] == "norm":
        d = {}
        for k, v in pairs:
            d[k.lower()] = v          # dict keeps the position of the first occurrence, value of the last
        return list(d.items())
    order, cs = spec[1], spec[2]
    fold = (lambda k: k) if cs else (lambda k: k.lower())
    fo = [fold(x) for x in order]
    rank = lambda k: fo.index(fold(k)) if fold(k) in fo else len(fo)  # noqa: E731
    idx = sorted(range(len(pairs)), key=lambda i: (rank(pairs[i][0]), i))
    return [pairs[i] for i in idx]


FALSY = ["", 0, "0", " ", 0.0, False, "{}"]


def value_for(i, k, n):
    """Opaque values: mostly unique tokens, every few fields a falsy / blank one ('the value of the last occurrence' also
    when that value is empty; seed C17-k)."""
    if (i * 3 + n) % 4 == 0:
        return FALSY[(i + n) % len(FALSY)]
    return "{Val %d of %s}" % (i, k.upper())


LINES = [7, 3, None, 5, 1, None, 9, 2]


def relabel_lines(entry):
    """'Source order' is the order of the field list; recorded line numbers need not follow it (fields added or
    moved after parsing, entries merged from several files)."""
    from bibtexparser.model import Field
    entry.fields = [Field(f.key, f.value, LINES[i % len(LINES)]) for i, f in enumerate(entry.fields)]


def check_pipe(case, ctx):
    """The entry passes through several of the middlewares in a row (re-used instances, in place and in copy
    mode); after every step the fields must equal the model folded over the steps so far."""
    keys, pipe = case["keys"], case["pipe"]
    pairs = [(k, value_for(i, k, len(keys))) for i, k in enumerate(keys)]
    out = []
    for inplace in (False, True):
        lib = build.library([["entry", "Article", "TheKey", [list(p) for p in pairs], "raw text", 3], ["icomment", "c"]])
        relabel_lines(lib.blocks[0])
        want = list(pairs)
        for step, spec in enumerate(pipe):
            st, lib2 = sp.escape(lambda: make_mw(spec, inplace).transform(lib))
            ctx.ran()
            ctx.mon("pipeline_step")
            if st == "raise":
                return [Violation("raised", f"C17:pipeline:{spec[0]}:raised:{lib2.split(':')[0]}", dict(case=case, step=step, error=lib2))]
            lib = lib2
            want = model(spec, want)
            got = [(f.key, f.value) for f in lib.blocks[0].fields] if sp.block_kind(lib.blocks[0]) == "entry" else None
            if got != want:
                prev = "+".join(s[0] for s in pipe[:step]) or "fresh"
                out.append(Violation("fields-differ", f"C17:pipeline:{spec[0]}-after-{prev}", dict(case=case, step=step, inplace=inplace, got=got, want=want)))
                return out
    if len({k.lower() for k in keys}) < len(keys):
        ctx.nontriv(case)
    return out


def check(case, ctx):
    if "pipe" in case:
        return check_pipe(case, ctx)
    keys, spec = case["keys"], case["mw"]
    out = []
    pairs = [(k, value_for(i, k, len(keys))) for i, k in enumerate(keys)]
    nontriv = len({k.lower() for k in keys}) < len(keys)
    for inplace in (False, True):
        if spec[0] == "custom":
            fo = spec[1] if spec[2] else [x.lower() for x in spec[1]]
            dup = len(set(fo)) != len(fo)
            st, mw = sp.escape(lambda: make_mw(spec, inplace))
            if dup:
                ctx.mon("order_rejected")
                if st != "raise" or not mw.startswith("ValueError"):
                    out.append(Violation("order-not-rejected", "C17:custom:duplicate-order-accepted", dict(case=case, got=srepr(mw))))
                return out
            if st == "raise":
                return [Violation("raised", f"C17:custom:ctor-raised:{mw.split(':')[0]}", dict(case=case, error=mw))]
        else:
            mw = make_mw(spec, inplace)
        specs = [["string", "s", "{sv}"], ["entry", "Article", "TheKey", [list(p) for p in pairs], "raw text", 3],
                 ["preamble", "p"], ["entry", "book", "other", []], ["icomment", "c"]]
        lib = build.library(specs)
        relabel_lines(lib.blocks[1])
        others_before = [fp(b) for i, b in enumerate(lib.blocks) if i in (0, 2, 4)]
        st, res = sp.escape(lambda: mw.transform(lib))
        ctx.ran()
        if st == "raise":
            return [Violation("raised", f"C17:{spec[0]}:raised:{res.split(':')[0]}", dict(case=case, error=res))]
        name = {"alpha": "alphabetical", "norm": "normalise", "custom": "custom"}[spec[0]]
        ctx.mon(name)
        blocks = res.blocks
        if len(blocks) != 5 or sp.block_kind(blocks[1]) != "entry":
            return [Violation("blocks-changed", f"C17:{spec[0]}:blocks-changed", dict(case=case, got=[sp.block_kind(b) for b in blocks]))]
        e = blocks[1]
        got = [(f.key, f.value) for f in e.fields]
        want = model(spec, pairs)
        if got != want:
            if sorted(got, key=repr) != sorted(want, key=repr):
                why = "fields-lost-or-altered" if spec[0] != "norm" else "wrong-merge"
            else:
                why = "order"
            out.append(Violation("fields-differ", f"C17:{spec[0]}:{why}", dict(case=case, inplace=inplace, got=got, want=want)))
            break
        if e.entry_type != "Article" or e.key != "TheKey" or e.raw != "raw text" or e.start_line != 3:
            out.append(Violation("entry-attrs-changed", f"C17:{spec[0]}:entry-attrs", dict(case=case, got=[e.entry_type, e.key, e.raw, e.start_line])))
            break
        e2 = blocks[3]
        if ([fp(b) for i, b in enumerate(blocks) if i in (0, 2, 4)] != others_before or sp.block_kind(e2) != "entry"
                or (e2.entry_type, e2.key, e2.fields) != ("book", "other", [])):
            out.append(Violation("other-blocks-changed", f"C17:{spec[0]}:other-blocks", dict(case=case)))
            break
        # idempotence
        st, res2 = sp.escape(lambda: mw.transform(res))
        ctx.ran()
        ctx.mon("idempotent")
        if st == "raise" or [(f.key, f.value) for f in res2.blocks[1].fields] != got:
            out.append(Violation("not-idempotent", f"C17:{spec[0]}:not-idempotent", dict(case=case, once=got, twice=srepr(res2))))
            break
    ctx.state(f"{spec[0]}:n={len(keys)}:coll={nontriv}")
    if nontriv and len(keys) >= 2:
        ctx.nontriv(case)
        if ctx.cases % 4999 == 0:
            ctx.sample(case)
    return out
