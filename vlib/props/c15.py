"""C15 - month middlewares share one 12-month table, compose, and leave non-months alone.

Monitor: table monitor (harness-owned 12-row table) + escape monitor on every transform.
Workload: exhaustive 12 months x all spellings x 3 middlewares x 9 ordered pairs x 2 modes;
non-month values; hostile values for the no-raise claim.
"""
import sys
import itertools

from ..core import Violation, rng_for, srepr, tier_pick

ID = "C15"
META = {
    "technique": "runtime monitoring: harness-owned month table + escape monitor on the real middlewares' transform over an exhaustive spelling space",
    "level_text": "Every month spelling in the stated space (digit strings with 0-3, 40, 4299-4301 and 6000 leading zeros; all case variants) is run through all 3 middlewares and all 9 ordered pairs in both modes and compared with an independent table; non-month values are checked for unchanged value and type; hostile Unicode/huge digit strings for no-raise. Exhaustive on the stated finite space, sampled on hostile values. Context entries carry fields whose keys are case variants of month (mOnth, Month, MONTH) around the month field: they stay untouched and month is still converted.",
    "level_note": "trusts the 12-row table in the harness; bool/subclass/non-ASCII digit values only decide the no-raise clause",
}
RULE = ("case = one month value (spelling of a month 1..12, a stated non-month value, or a hostile value); "
        "every case is run through the 3 middlewares and the 9 ordered pairs, in copy and in-place mode; "
        "non-trivial = a month spelling (table+composition oracle applies) or a stated non-month value "
        "(unchanged-with-type oracle applies); hostile values only count for the no-raise monitor; "
        "distinct = distinct value (type, repr)")
ASSUMPTIONS = [
    "the 12-row month table written in this file is the intended table (English names, 3-letter lower-case abbreviations)",
    "bool, int/str subclasses, non-ASCII decimal digits and non-decimal digit characters are used for the no-raise claim only",
]
MIN = {"table": (3600, 3600), "compose": (3600 * 9, 3600 * 9), "nonmonth_unchanged": (30, 30), "no_raise": (2000, 100000)}

ABBR = ["jan", "feb", "mar", "apr", "may", "jun", "jul", "aug", "sep", "oct", "nov", "dec"]
FULL = ["January", "February", "March", "April", "May", "June", "July", "August", "September",
        "October", "November", "December"]


def exhaustive(tier):
    return ("12 months x {int, decimal strings with 0-3, 40, 4299-4301 and 6000 leading zeros, all 2^3 case variants of the abbreviation, "
            "all 2^n case variants of the full name} x 3 middlewares x 9 ordered pairs x {copy, in-place}")


class IntSub(int):
    pass


class StrSub(str):
    pass


def enc(v):
    if v is None:
        return {"t": "none"}
    if isinstance(v, bool):
        return {"t": "bool", "v": v}
    if type(v) is int:
        return {"t": "int", "v": str(v)}
    if type(v) is str:
        return {"t": "str", "v": v}
    if isinstance(v, float):
        return {"t": "float", "v": vrepr(v)}
    if isinstance(v, list):
        return {"t": "list", "v": [enc(x) for x in v]}
    if isinstance(v, IntSub):
        return {"t": "intsub", "v": str(int(v))}
    if isinstance(v, StrSub):
        return {"t": "strsub", "v": str(v)}
    raise TypeError(v)


def vrepr(v):
    try:
        return repr(v)
    except ValueError:          # an int with more digits than python prints
        return "<int with more than %d digits>" % sys.get_int_max_str_digits()


def dec(d):
    t = d["t"]
    if t == "none":
        return None
    if t == "bool":
        return d["v"]
    if t == "int":
        return int(d["v"])
    if t == "str":
        return d["v"]
    if t == "float":
        return float(d["v"])
    if t == "list":
        return [dec(x) for x in d["v"]]
    if t == "intsub":
        return IntSub(int(d["v"]))
    if t == "strsub":
        return StrSub(d["v"])
    if t == "bigdigits":
        return d["c"] * d["n"]
    if t == "pow10":
        return (-1 if d.get("neg") else 1) * 10 ** d["e"]
    raise TypeError(d)


def case_variants(word):
    for bits in itertools.product((0, 1), repeat=len(word)):
        yield "".join(c.upper() if b else c.lower() for c, b in zip(word, bits))


def month_spellings(m):
    yield m
    for z in (0, 1, 2, 3, 40, 4299, 4300, 4301, 6000):      # "decimal strings with leading zeros" has no length bound
        yield "0" * z + str(m)
    yield from case_variants(ABBR[m - 1])
    if len(FULL[m - 1]) > 3:      # "may" == "May": its variants are already produced above
        yield from case_variants(FULL[m - 1])


NONMONTH = [0, 13, -1, 100, "0", "13", "00", "013", "{jan}", '"1"', "{1}", '"jan"', "{January}", "foo", "janu",
            "januar", "ja", "", " jan", "jan ", "1 ", " 1", "1.0", "-1", "+1", "j an", "sept", "march.", 3.5, 0.0, 1.0,
            None, ["jan"], [], [1], "jan # feb", "1 # 2", "jän", "décembre"]

HOSTILE_CHARS = ("²³¹①②⑳❶١٢٣۱१১１２"
                 "₂⁵〇一ⅠⅫ½௰፩\U0001d7ce\U0001d7d8\U00010107"
                 "𐏿\x00\x1f\x7f​‮﻿́ \t\n0123456789abcJFMASONDjanmarch{}\"#")


def lookalikes():
    """Month names with a letter replaced by a character that some case-insensitive comparisons (but not
    str.lower()) identify with it: long s, dotless i, dotted capital I, Kelvin sign, fullwidth letters."""
    out = []
    repl = {"s": ["\u017f"], "i": ["\u0131", "\u0130"], "k": ["\u212a"], "a": ["\uff41", "\u0430"], "e": ["\u0435"], "o": ["\u043e", "\uff4f"]}
    for name in ABBR + [f.lower() for f in FULL]:
        for i, c in enumerate(name):
            for r in repl.get(c, []):
                v = name[:i] + r + name[i + 1:]
                out += [v, v.capitalize(), v.upper()]
    return sorted(set(out))


def cases(tier, seed, shard, nshards):
    idx = 0
    # (a) exhaustive month spellings
    for m in range(1, 13):
        for s in month_spellings(m):
            if idx % nshards == shard:
                yield {"k": "month", "m": m, "v": enc(s)}
            idx += 1
    # (b) stated non-month values, and an entry without a month field
    for v in NONMONTH:
        if idx % nshards == shard:
            yield {"k": "non", "v": enc(v)}
        idx += 1
    # out-of-range ints with more digits than python is willing to print (the value itself is an ordinary int)
    for e, neg in ((4299, False), (4300, False), (4300, True), (6000, False)):
        if idx % nshards == shard:
            yield {"k": "non", "v": {"t": "pow10", "e": e, "neg": neg}}
        idx += 1
    for v in lookalikes():
        if v.lower() in ABBR or v.lower() in [f.lower() for f in FULL]:
            continue            # e.g. an upper-cased look-alike that str.lower() maps back to the month name
        if idx % nshards == shard:
            yield {"k": "non", "v": enc(v)}
        idx += 1
    if shard == 0:
        yield {"k": "nomonth"}
    # (c) hostile values: no-raise only
    fixed = [True, False, IntSub(3), IntSub(13), StrSub("jan"), StrSub("3"), StrSub("²"), 10 ** 30, -(10 ** 30)]
    for v in fixed:
        if idx % nshards == shard:
            yield {"k": "hostile", "v": enc(v)}
        idx += 1
    for c in "²①١１" "1":
        for n in (4299, 4300, 4301, 5000, 20000):
            if idx % nshards == shard:
                yield {"k": "hostile", "v": {"t": "bigdigits", "c": c, "n": n}}
            idx += 1
    # every single character that str.isdigit() accepts
    digs = [chr(i) for i in range(0x110000) if chr(i).isdigit()]
    for j, c in enumerate(digs):
        if idx % nshards == shard:
            yield {"k": "hostile", "v": enc(c)}
            if j % 7 == 0:
                yield {"k": "hostile", "v": enc(c + "2")}
                yield {"k": "hostile", "v": enc("1" + c)}
        idx += 1
    n_rand = tier_pick(tier, 6000, 1000000) // nshards
    r = rng_for(seed, shard, "c15")
    for _ in range(n_rand):
        ln = r.choice([1, 1, 2, 2, 3, 4, 8, 30])
        s = "".join(r.choice(HOSTILE_CHARS) for _ in range(ln))
        yield {"k": "hostile", "v": enc(s)}


_MW = None


def _mws():
    global _MW
    if _MW is None:
        from bibtexparser.middlewares import (MonthAbbreviationMiddleware, MonthIntMiddleware,
                                              MonthLongStringMiddleware)
        _MW = {}
        for name, cls in (("int", MonthIntMiddleware), ("abbr", MonthAbbreviationMiddleware),
                          ("long", MonthLongStringMiddleware)):
            for inplace in (False, True):
                _MW[(name, inplace)] = cls(allow_inplace_modification=inplace)
    return _MW


# `raw` is the source text at parse time and is never updated: it says nothing about the entry's current fields
RAWS = [None, "@article{k, title = {T}, year = 2020}", "@article{k, title = {T}, month = dec, year = 2020}", ""]


def apply(names, value, inplace, with_month=True, context=False):
    """Run the real middlewares on a library holding the entry (optionally among other blocks: @string
    macros named like the month spelling, another entry, comments); returns (status, value-or-exception)."""
    from bibtexparser.library import Library
    from bibtexparser.model import Entry, ExplicitComment, Field, Preamble, String
    fields = [Field("title", "{T}")]
    if with_month:
        fields.append(Field("month", value))
    fields.append(Field("year", "2020"))
    if context:
        # fields whose keys are case variants of `month` around the month field (seed C15-m: a case-insensitive, last-wins
        # look-up took `Month` for the month field): keys are case-sensitive, these are other fields and stay as they are
        fields.insert(1, Field("mOnth", "feb"))
        fields.append(Field("Month", "{Spring}"))
        fields.append(Field("MONTH", "13"))
    blocks = [Entry("article", "k", fields, raw=RAWS[(len(names) + (1 if inplace else 0) + (2 if context else 0)) % len(RAWS)], start_line=3)]
    if context:
        blocks = [String("jan", '"Janvier"'), String("December", "{Dezember}"), Preamble("p"), ExplicitComment("month = jan")] + blocks + \
                 [Entry("book", "other", [Field("month", "{jan}"), Field("note", "month")])]
        if type(value) is str and value not in ("jan", "December") and value.strip():
            blocks.insert(0, String(value, "{macro named like the month value}"))
    lib = Library(blocks)
    try:
        for nm in names:
            lib = _mws()[(nm, inplace)].transform(lib)
        if len(lib.entries) != (2 if context else 1):
            return "lost", f"entries={len(lib.entries)} blocks={[type(b).__name__ for b in lib.blocks]}"
        e = lib.entries_dict["k"]
        if context and lib.entries_dict["other"]["month"] != "{jan}":
            return "lost", "enclosed month of a neighbouring entry changed"
        if not with_month:
            return "ok", [(f.key, f.value) for f in e.fields]
        others = [(f.key, f.value) for f in e.fields if f.key != "month"]
        if others != ([("title", "{T}"), ("mOnth", "feb"), ("year", "2020"), ("Month", "{Spring}"), ("MONTH", "13")] if context else [("title", "{T}"), ("year", "2020")]):
            return "lost", f"other fields changed: {others}"
        return "ok", e["month"]
    except BaseException as ex:   # escape monitor
        if isinstance(ex, (KeyboardInterrupt, SystemExit)):
            raise
        return "raise", f"{type(ex).__name__}: {str(ex)[:120]}"


def expected(name, m):
    return {"int": m, "abbr": ABBR[m - 1], "long": FULL[m - 1]}[name]


def vclass(v):
    if isinstance(v, bool):
        return "bool"
    if isinstance(v, int):
        return "int-month" if 1 <= v <= 12 and type(v) is int else ("int-out-of-range" if type(v) is int else "int-subclass")
    if isinstance(v, str):
        if type(v) is not str:
            return "str-subclass"
        if v.isascii() and v.isdigit():
            if len(v) > 12:
                return "digit-str-huge"
            return "digit-str-month" if 1 <= int(v) <= 12 else "digit-str-out-of-range"
        if v.isdigit():
            return "non-ascii-digit-str"
        if v[:1] in "{\"":
            return "enclosed"
        if v.lower() in ABBR:
            return "abbr"
        if v.lower() in [f.lower() for f in FULL]:
            return "full"
        return "other-str"
    return type(v).__name__


def same(a, b):
    return type(a) is type(b) and a == b


NAMES = ("int", "abbr", "long")


def check(case, ctx):
    out = []
    k = case["k"]
    if k == "nomonth":
        for nm in NAMES:
            for inplace in (False, True):
                st, res = apply((nm,), None, inplace, with_month=False)
                ctx.ran()
                ctx.mon("nonmonth_unchanged")
                if st != "ok" or res != [("title", "{T}"), ("year", "2020")]:
                    out.append(Violation("entry-without-month-changed", f"C15:nomonth:{nm}:{st}", res))
        ctx.nontriv(case)
        return out
    v = dec(case["v"])
    cls = vclass(v)
    ctx.state(f"{k}:{cls}")
    stacks = [(a,) for a in NAMES] + [(a, b) for a in NAMES for b in NAMES]
    single = {}
    for inplace, context in ((False, False), (True, False), (False, True), (True, True)):
        for names in stacks:
            st, res = apply(names, v, inplace, context=context)
            ctx.ran()
            ctx.mon("no_raise")
            tag = "+".join(names)
            if st == "raise":
                out.append(Violation("middleware-raised", f"C15:raise:{names[-1]}:{cls}:{res.split(':')[0]}",
                                     dict(stack=tag, inplace=inplace, context=context, value=vrepr(v)[:80], error=res)))
                continue
            if st == "lost":
                out.append(Violation("entry-lost", f"C15:lost:{tag}:{cls}", res))
                continue
            if k == "month":
                m = case["m"]
                if len(names) == 1:
                    ctx.mon("table")
                    single[(names[0], inplace, context)] = res
                    if not same(res, expected(names[0], m)):
                        out.append(Violation("wrong-month-value", f"C15:table:{names[0]}:{cls}",
                                             dict(mw=tag, value=vrepr(v), got=srepr(res), want=repr(expected(names[0], m)))))
                else:
                    ctx.mon("compose")
                    # B(A(s)) must equal B(s) (observed above) - and hence the table value
                    alone = single.get((names[1], inplace, context))
                    if not same(res, alone) or not same(res, expected(names[1], m)):
                        out.append(Violation("composition-differs", f"C15:compose:{tag}:{cls}",
                                             dict(stack=tag, value=vrepr(v), got=srepr(res), alone=srepr(alone))))
            elif k == "non":
                ctx.mon("nonmonth_unchanged")
                if not same(res, v):
                    out.append(Violation("non-month-changed", f"C15:nonmonth:{names[-1]}:{cls}",
                                         dict(stack=tag, inplace=inplace, value=vrepr(v), got=srepr(res, 120),
                                              got_type=type(res).__name__)))
    if k in ("month", "non"):
        ctx.nontriv(case)
    ctx.sample(case) if k != "hostile" or ctx.cases % 50 == 0 else None
    return out


def shrink(case, still):
    v = case.get("v")
    if not v or v.get("t") != "str":
        return case
    s = v["v"]
    from ..shrink import ddmin_str
    s2 = ddmin_str(s, lambda t: still(dict(case, v={"t": "str", "v": t})))
    return dict(case, v={"t": "str", "v": s2})
