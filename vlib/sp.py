"""Helpers shared by the splitter-facing monitors (C01-C05, C09, C11)."""
import re

from .monitors.tracer import TRACER


def block_kind(b):
    from bibtexparser import model as M
    if isinstance(b, M.DuplicateBlockKeyBlock):
        return "dupkey"
    if isinstance(b, M.DuplicateFieldKeyBlock):
        return "dupfield"
    if isinstance(b, M.MiddlewareErrorBlock):
        return "mwerror"
    if isinstance(b, M.ParsingFailedBlock):
        return "failed"
    if isinstance(b, M.Entry):
        return "entry"
    if isinstance(b, M.String):
        return "string"
    if isinstance(b, M.Preamble):
        return "preamble"
    if isinstance(b, M.ExplicitComment):
        return "ecomment"
    if isinstance(b, M.ImplicitComment):
        return "icomment"
    return type(b).__name__


def _s(x):
    return x.strip() if isinstance(x, str) else x


def project(b, raw=False, exact=False):
    """Block -> JSON-able projection (kind, type, key, fields, content), whitespace-trimmed unless `exact`."""
    k = block_kind(b)
    _s = (lambda x: x) if exact else globals()["_s"]
    if k == "entry":
        # keys are compared exactly (a KEY token has no surrounding whitespace); values up to whitespace
        p = ["entry", b.entry_type, b.key, [[f.key, _s(f.value)] for f in b.fields]]
    elif k == "string":
        p = ["string", b.key, _s(b.value)]
    elif k == "preamble":
        p = ["preamble", _s(b.value)]
    elif k in ("ecomment", "icomment"):
        p = [k, _s(b.comment)]
    else:
        p = [k, abort_class(b)]
    if raw:
        p = p + [b.raw]
    return p


def project_lib(lib, raw=False, exact=False):
    return [project(b, raw, exact) for b in lib.blocks]


def strip_truth(truth):
    out = []
    for t in truth:
        if t[0] == "entry":
            out.append(["entry", t[1], t[2], [[a, b.strip()] for a, b in t[3]]])
        else:
            out.append([t[0], t[1], t[2].strip()] if t[0] == "string" else [t[0]] + [x.strip() if isinstance(x, str) else x for x in t[1:]])
    return out


_TICK = re.compile(r"`[^`]*`")
_FOUND = re.compile(r"found (a )?.*$", re.S)


def abort_class(b):
    """Mechanism class of a failed block's error (message with the concrete marks removed)."""
    e = getattr(b, "error", None)
    msg = getattr(e, "abort_reason", None)
    if msg is None:
        return type(e).__name__
    msg = _TICK.sub("`_`", msg)
    msg = _FOUND.sub("found _", msg)
    return re.sub(r"\s+", " ", msg).strip()[:70]


def escape(fn, *a, **kw):
    """Escape monitor: returns ("ok", result) or ("raise", 'Type: msg'); never lets the
    exception of the code under test travel into the harness."""
    try:
        return "ok", fn(*a, **kw)
    except (KeyboardInterrupt, SystemExit):
        raise
    except BaseException as ex:  # noqa
        return "raise", f"{type(ex).__name__}: {str(ex)[:160]}"


def split(text):
    from bibtexparser.splitter import Splitter
    TRACER.reset_scan()
    return escape(lambda: Splitter(text).split())


def parse_raw(text):
    import bibtexparser
    TRACER.reset_scan()
    return escape(lambda: bibtexparser.parse_string(text, parse_stack=[]))


def parse_default(text):
    import bibtexparser
    TRACER.reset_scan()
    return escape(lambda: bibtexparser.parse_string(text))


def features(text):
    """Coarse lexical features of a document, used for state coverage and signatures."""
    f = []
    if '"' in text:
        f.append("quote")
    if "\\" in text:
        f.append("escape")
    if "#" in text:
        f.append("concat")
    if "\r\n" in text:
        f.append("crlf")
    if re.search(r"\{[^{}]*\{", text):
        f.append("nest")
    if "\\\n" in text:
        f.append("bsnl")
    return f


def scan_states_on():
    """Switch on the abstract scanner-transition census of the tracer (evidence only)."""
    TRACER.scan_states = set()


def scan_states_flush(ctx):
    for s in TRACER.scan_states or ():
        ctx.state("scan:" + s)
