"""Writes evidence/<id>.json from what the monitors observed on this run and validates it
against the EVIDENCE schema (a file that does not validate is treated as no evidence)."""
import json
import os

HERE = os.path.dirname(os.path.dirname(os.path.abspath(__file__)))
SCHEMA = "/root/.vp/EVIDENCE.schema.json"


def write(mod, total, args, wall, reported, known_lines, inconclusive):
    calls = {k[5:]: v for k, v in total.notes.items() if k.startswith("call:")}
    raises = {k[6:]: v for k, v in total.notes.items() if k.startswith("raise:")}
    other = {k: v for k, v in total.notes.items() if not k.startswith(("call:", "raise:"))}
    top_calls = dict(sorted(calls.items(), key=lambda kv: -kv[1])[:40])
    exh = mod.exhaustive(args.tier) if hasattr(mod, "exhaustive") else None
    cov = dict(
        evaluations=int(total.evaluations),
        distinct_nontrivial=len(total.nontrivial),
        rule=mod.RULE,
        samples=total.samples[:12] or ["<none>"],
        cases=total.cases,
        monitor_evaluations=dict(total.monitors),
        abstract_states_observed=len(total.states),
        abstract_states_sample=sorted(total.states)[:60],
        functions_reached=len(calls),
        functions_reached_top=top_calls,
        internal_raises=raises,
        counters=other,
        exhaustive=bool(exh) and not total.truncated,
        exhaustive_subspace=exh or "",
        truncated_by_soft_deadline=total.truncated,
        known_findings_reproduced=known_lines,
        inconclusive_reasons=inconclusive,
        verdict="violated" if reported else ("inconclusive" if inconclusive else "held on what was observed"),
    )
    ev = dict(
        property_id=mod.ID, tier=args.tier, seed=int(args.seed), level="exploration",
        coverage=cov, assumptions=list(getattr(mod, "ASSUMPTIONS", [])),
        wall_s=round(wall, 2), violations=len({p for p, _ in reported}),
    )
    # evidence/<id>.json describes /repo itself; a run against another tree (VERIF_REPO=<scratch copy>: seeded changes, controls,
    # self-test mutants) writes next to the replay files instead, so that it can never overwrite or be taken for the evidence
    repo = os.path.realpath(os.environ.get("VERIF_REPO", "/repo"))
    sub = "evidence" if repo == "/repo" else os.path.join("evidence", "replay", "other-tree")
    os.makedirs(os.path.join(HERE, sub), exist_ok=True)
    path = os.path.join(HERE, sub, f"{mod.ID}.json")
    with open(path, "w") as f:
        json.dump(ev, f, indent=1, ensure_ascii=True, default=repr)
    try:
        import jsonschema
        with open(SCHEMA) as f:
            schema = json.load(f)
        with open(path) as f:
            jsonschema.validate(json.load(f), schema)
    except FileNotFoundError:
        pass
    except ImportError:
        pass
    except Exception as ex:  # noqa  (jsonschema.ValidationError)
        # e.g. a run that was cut short by a flood of violations has fewer non-trivial cases than the schema asks for:
        # the verdict lines must still be printed; the file is then no evidence for anything
        print(f"NOTE: evidence/{mod.ID}.json does not validate against the schema on this run: {str(ex).splitlines()[0][:160]}")
    return path
