"""Entry point: ./check Cxx [--tier quick|thorough] [--seed N] [--replay FILE] [--workers N]

Parent: replays listed findings, starts one subprocess per shard (hard watchdog each), merges
what the monitors observed, classifies violations against known_findings.json, writes
evidence/<id>.json and prints the verdict.
Worker (--worker i/n): generates its shard of cases and runs `check` on each.
"""
import argparse
import importlib
import json
import os
import subprocess
import sys
import tempfile
import time
import traceback

from . import evidence, findings
from .core import Ctx, Violation, digest

HERE = os.path.dirname(os.path.dirname(os.path.abspath(__file__)))

# generous wall-clock watchdogs (seconds); firing => INCONCLUSIVE, never a verdict
WATCHDOG = {"quick": 600, "thorough": 3600}


def load(prop_id):
    return importlib.import_module(f"vlib.props.{prop_id.lower()}")


def quiet_logging():
    import logging
    logging.disable(logging.CRITICAL)


def start_tracer():
    from .monitors.tracer import TRACER
    try:
        TRACER.start()
    except Exception:
        pass
    return TRACER


def run_case(mod, case, ctx):
    """Run one case under the monitors; an exception escaping `check` itself is a harness
    defect (the property modules catch everything the code under test may raise)."""
    ctx.cases += 1
    if isinstance(case, dict) and "passive_test" in case:
        return replay_passive(mod, case)
    out = mod.check(case, ctx)
    return out or []


def replay_passive(mod, case):
    """A violation recorded while the repository's own suite ran: re-run the suite passively and
    report the recordings of that test again."""
    from . import passive
    data = passive.run()
    out = []
    for rec in (data or {}).get("recorded", []):
        if rec.get("test") == case["passive_test"] and passive.MONITORS.get(rec["monitor"]) == mod.ID:
            out.append(Violation("passive-" + rec["monitor"], f"{mod.ID}:passive:{rec['monitor']}:{str(rec['why'])[:60]}", rec))
    return out


def worker(args):
    quiet_logging()
    mod = load(args.prop)
    i, n = (int(x) for x in args.worker.split("/"))
    ctx = Ctx(mod.ID, args.tier, args.seed, i, n)
    tracer = start_tracer()
    if hasattr(mod, "setup"):
        mod.setup(ctx)
    max_viol = 200
    per_sig = {}
    known, _fixed = findings.load(mod.ID)
    known_sigs = {k["sig"] for k in known} | {a for k in known for a in k.get("also", [])}
    unknown_events = 0
    try:
        for case in mod.cases(args.tier, args.seed, i, n):
            try:
                vs = run_case(mod, case, ctx)
            except Exception:
                if len(ctx.errors) < 5:
                    ctx.errors.append(json.dumps(case, default=repr)[:300] + "\n" + traceback.format_exc()[-2500:])
                continue
            for v in vs:
                # keep a few witnesses per mechanism signature (a flood of one signature must not hide the others)
                per_sig[v["sig"]] = per_sig.get(v["sig"], 0) + 1
                if per_sig[v["sig"]] <= 3 and len(ctx.violations) < max_viol:
                    ctx.violations.append(dict(case=case, kind=v["kind"], sig=v["sig"], detail=v["detail"]))
                else:
                    ctx.note("violations_not_stored")
                ctx.note("violating_events")
                if v["sig"] not in known_sigs:
                    unknown_events += 1
            if unknown_events > 500:
                # the verdict of this run is decided (VIOLATION); do not spend hours on a broken tree
                ctx.note("stopped_early_after_500_violating_events")
                break
    except Exception:
        ctx.errors.append(traceback.format_exc()[-2500:])
    if hasattr(mod, "finish"):
        mod.finish(ctx)
    tracer.stop()
    for k, v in tracer.calls.items():
        ctx.notes["call:" + k] += v
    for k, v in tracer.raises.items():
        ctx.notes["raise:" + k] += v
    ctx.dump(args.out)
    return 0


def replay_case(mod, case, tier="quick", seed=0):
    quiet_logging()
    ctx = Ctx(mod.ID, tier, seed)
    if hasattr(mod, "setup"):
        mod.setup(ctx)
    return run_case(mod, case, ctx), ctx


def shrink_violation(mod, case, sig):
    """Minimise the witness while it keeps producing a violation with the same signature."""
    if not hasattr(mod, "shrink"):
        return case

    def still(c):
        try:
            vs, _ = replay_case(mod, c)
        except Exception:
            return False
        return any(v["sig"] == sig for v in vs)

    try:
        return mod.shrink(case, still)
    except Exception:
        return case


def write_replay(prop_id, case, vio):
    d = os.path.join(HERE, "evidence", "replay")
    os.makedirs(d, exist_ok=True)
    name = f"{prop_id}-{digest([case, vio['sig']]).hex()}.json"
    path = os.path.join(d, name)
    with open(path, "w") as f:
        json.dump(dict(property=prop_id, case=case, kind=vio["kind"], sig=vio["sig"],
                       detail=vio["detail"]), f, indent=1, ensure_ascii=True, default=repr)
    return path


def parent(args):
    t0 = time.monotonic()
    quiet_logging()
    mod = load(args.prop)
    pid = mod.ID
    total = Ctx(pid, args.tier, args.seed)
    known, fixed = findings.load(pid)
    reported = []          # (path, vio) new violations
    known_lines = []
    inconclusive = []

    # 1. replay the witnesses of listed findings on the current tree
    for ent in known:
        vs, _ = replay_case(mod, ent["witness"], args.tier, args.seed)
        if any(v["sig"] == ent["sig"] for v in vs):
            known_lines.append(f"KNOWN-FINDING: property={pid} {ent['what']}")
            total.known_hits[ent["sig"]] += 1
        else:
            total.note("known_finding_no_longer_reproduces")
            print(f"NOTE: listed finding no longer reproduces on this tree: {ent['what']}")
        for v in vs:
            if v["sig"] != ent["sig"] and v["sig"] not in {k["sig"] for k in known} | {a for k in known for a in k.get("also", [])}:
                reported.append((write_replay(pid, ent["witness"], v), v))
    for ent in fixed:
        vs, _ = replay_case(mod, ent["witness"], args.tier, args.seed)
        total.mon("fixed_witness_replays")
        for v in vs:
            if v["sig"] not in {k["sig"] for k in known} | {a for k in known for a in k.get("also", [])}:
                reported.append((write_replay(pid, ent["witness"], v), v))

    # 2. workers
    n = args.workers
    tmp = tempfile.mkdtemp(prefix=f"verif-{pid}-", dir=os.environ.get("VERIF_TMP") or None)
    procs = []
    for i in range(n):
        out = os.path.join(tmp, f"w{i}.json")
        cmd = [sys.executable, "-X", "faulthandler", "-W", "ignore", "-m", "vlib.main", args.prop,
               "--tier", args.tier, "--seed", str(args.seed), "--worker", f"{i}/{n}", "--out", out]
        log = open(os.path.join(tmp, f"w{i}.log"), "w")
        procs.append((i, out, subprocess.Popen(cmd, stdout=log, stderr=subprocess.STDOUT, cwd=HERE), log))
    deadline = time.monotonic() + WATCHDOG[args.tier]
    for i, out, p, log in procs:
        try:
            p.wait(timeout=max(1, deadline - time.monotonic()))
        except subprocess.TimeoutExpired:
            p.kill()
            p.wait()
            inconclusive.append(f"worker {i} hit the wall-clock watchdog")
            continue
        finally:
            log.close()
        if p.returncode != 0 or not os.path.exists(out):
            tail = open(os.path.join(tmp, f"w{i}.log")).read()[-1500:]
            inconclusive.append(f"worker {i} died rc={p.returncode}: {tail}")
            continue
        total.absorb(out)
    for e in total.errors[:3]:
        inconclusive.append("harness error inside a worker: " + e)
    import shutil
    shutil.rmtree(tmp, ignore_errors=True)

    # 2b. thorough tier: passive monitors on the repository's own test suite (DESIGN 3.5)
    from . import passive
    mine = [m for m, pr in passive.MONITORS.items() if pr == pid]
    if args.tier == "thorough" and mine:
        data = passive.run()
        if data is None:
            inconclusive.append("passive run of the repository's test suite could not be executed")
        else:
            for m in mine:
                n = sum(v for k, v in data["counts"].items() if k == m or (m == "no_mutation_post" and k.startswith("transform_copy:")))
                total.mon("passive_suite:" + m, n)
            total.note("passive_suite_tests", data.get("tests", 0))
            for rec in data["recorded"]:
                if rec["monitor"] in mine:
                    total.violations.append(dict(case={"passive_test": rec.get("test"), "witness": rec["witness"]}, kind="passive-" + rec["monitor"],
                                                 sig=f"{pid}:passive:{rec['monitor']}:{str(rec['why'])[:60]}", detail=rec))

    # 3. classify violations
    known_sigs = {k["sig"]: k for k in known}
    for k in known:
        for a in k.get("also", []):        # the same mechanism seen at another observation point
            known_sigs[a] = k
    new_by_sig = {}
    for v in total.violations:
        if v["sig"] in known_sigs:
            total.known_hits[known_sigs[v["sig"]]["sig"]] += 1
        else:
            new_by_sig.setdefault(v["sig"], []).append(v)
    for sig, vs in new_by_sig.items():
        vs.sort(key=lambda v: len(json.dumps(v["case"], default=repr)))
        v = vs[0]
        case = shrink_violation(mod, v["case"], sig) if not args.no_shrink else v["case"]
        rv, _ = replay_case(mod, case, args.tier, args.seed)
        vv = next((x for x in rv if x["sig"] == sig), v)
        reported.append((write_replay(pid, case, vv), vv))
    for ent in known:
        if total.known_hits[ent["sig"]] and not any(ent["what"] in l for l in known_lines):
            known_lines.append(f"KNOWN-FINDING: property={pid} {ent['what']}")

    # 4. non-vacuity: every deciding monitor must have been evaluated
    for name, need in getattr(mod, "MIN", {}).items():
        need_n = need[0 if args.tier == "quick" else 1] if isinstance(need, (tuple, list)) else need
        if total.monitors.get(name, 0) < need_n:
            inconclusive.append(f"monitor '{name}' evaluated {total.monitors.get(name, 0)} < {need_n} times")
    for name in getattr(mod, "FORBID", []):
        if total.notes.get(name, 0):
            inconclusive.append(f"oracle self-check '{name}' failed {total.notes[name]} times (oracle defect, not a verdict)")
    if len(total.nontrivial) < 2:
        inconclusive.append("fewer than 2 distinct non-trivial cases")

    wall = time.monotonic() - t0
    evidence.write(mod, total, args, wall, reported, known_lines, inconclusive)

    for line in known_lines:
        print(line)
    print(f"{pid} tier={args.tier} seed={args.seed}: evaluations={total.evaluations} cases={total.cases} "
          f"distinct_nontrivial={len(total.nontrivial)} states={len(total.states)} "
          f"monitors={dict(total.monitors)} wall={wall:.1f}s")
    if reported:
        seen = set()
        for path, v in reported:
            if path in seen:
                continue
            seen.add(path)
            print(f"VIOLATION property={pid} replay={path}")
            print(f"  kind={v['kind']} sig={v['sig']} detail={json.dumps(v['detail'], default=repr)[:600]}")
        for r in inconclusive:
            print(f"NOTE (would be inconclusive): {r[:800]}")
        return 1
    if inconclusive:
        for r in inconclusive:
            print(f"INCONCLUSIVE property={pid} {r}")
        return 2
    print(f"HELD property={pid} on everything observed")
    return 0


def do_replay(args):
    mod = load(args.prop)
    with open(args.replay) as f:
        d = json.load(f)
    case = d["case"] if "case" in d else d
    start_tracer()
    vs, ctx = replay_case(mod, case)
    print(json.dumps(dict(case=case, violations=vs), indent=1, default=repr, ensure_ascii=True))
    if vs:
        print(f"VIOLATION property={mod.ID} replay={args.replay}")
        return 1
    print("no violation on replay")
    return 0


def main(argv=None):
    ap = argparse.ArgumentParser()
    ap.add_argument("prop")
    ap.add_argument("--tier", default=os.environ.get("VERIF_TIER", "quick"), choices=["quick", "thorough"])
    ap.add_argument("--seed", type=int, default=int(os.environ.get("VERIF_SEED", "0") or 0))
    ap.add_argument("--workers", type=int, default=int(os.environ.get("VERIF_WORKERS", "16")))
    ap.add_argument("--worker")
    ap.add_argument("--out")
    ap.add_argument("--replay")
    ap.add_argument("--no-shrink", action="store_true")
    args = ap.parse_args(argv)
    args.prop = args.prop.upper()
    if args.worker:
        return worker(args)
    if args.replay:
        return do_replay(args)
    return parent(args)


if __name__ == "__main__":
    sys.exit(main())
