"""sys.monitoring trace monitor: which repository functions were entered, which exceptions
were raised inside the repository (origin function x type), and - for the splitter - how many
marks the scanner consumed and how deep `_next_mark` re-entered itself.

Evidence and bounded-progress only; verdicts about behaviour are taken at the public API.
"""
import os
import sys
from collections import Counter

TOOL = 3  # sys.monitoring tool id (0..5); 3 is free for profilers/monitors


class Tracer:
    def __init__(self):
        self.calls = Counter()
        self.raises = Counter()
        self.pkg = None
        self.on = False
        self._last_exc = None
        # scanner step accounting (reset per parse by the property code)
        self.next_mark_calls = 0
        self.next_mark_depth = 0
        self.next_mark_maxdepth = 0
        self.aborts = 0            # BlockAbortedException origins
        self.steps = 0             # repository function entries since reset_scan()
        self.scan_states = None    # when a set: abstract scanner transitions (caller, quote, depth, mark kind)
        self.budget = None         # when set: raise StepBudgetExceeded beyond it

    def start(self):
        import bibtexparser
        self.pkg = os.path.dirname(os.path.abspath(bibtexparser.__file__)) + os.sep
        mon = sys.monitoring
        try:
            mon.use_tool_id(TOOL, "verif-tracer")
        except ValueError:
            return False
        E = mon.events
        mon.register_callback(TOOL, E.PY_START, self._py_start)
        mon.register_callback(TOOL, E.RAISE, self._raise)
        mon.register_callback(TOOL, E.PY_RETURN, self._py_return)
        mon.register_callback(TOOL, E.PY_UNWIND, self._py_unwind)
        mon.set_events(TOOL, E.PY_START | E.RAISE | E.PY_RETURN | E.PY_UNWIND)
        self.on = True
        return True

    def stop(self):
        if self.on:
            sys.monitoring.set_events(TOOL, 0)
            sys.monitoring.free_tool_id(TOOL)
            self.on = False

    def reset_scan(self):
        self.next_mark_calls = 0
        self.next_mark_depth = 0
        self.next_mark_maxdepth = 0
        self.aborts = 0
        self.steps = 0

    def _py_start(self, code, off):
        fn = code.co_filename
        if not fn.startswith(self.pkg):
            return sys.monitoring.DISABLE
        name = code.co_qualname
        self.calls[name] += 1
        self.steps += 1
        if self.budget is not None and self.steps > self.budget:
            self.budget = None
            raise StepBudgetExceeded(f"more than the allowed number of repository function entries; last: {name}")
        if name == "Splitter._next_mark":
            self.next_mark_calls += 1
            self.next_mark_depth += 1
            if self.next_mark_depth > self.next_mark_maxdepth:
                self.next_mark_maxdepth = self.next_mark_depth

    def _py_return(self, code, off, retval):
        if not code.co_filename.startswith(self.pkg):
            return sys.monitoring.DISABLE
        if code.co_qualname == "Splitter._next_mark":
            self.next_mark_depth -= 1
            if self.scan_states is not None and self.next_mark_depth == 0:
                self._abstract(retval)

    def _abstract(self, mark):
        """(scanner function, quote open?, brace depth capped at 3, kind of mark delivered) taken from
        the frame of the scanner that asked for the mark.  Evidence only: if the internals are renamed
        the abstraction degrades to (function, ?, ?, kind)."""
        try:
            f = sys._getframe(3)      # 0=_abstract 1=_py_return 2=_next_mark 3=the scanner that called it
            loc = f.f_locals
            q = loc.get("currently_quote_escaped", "?")
            d = loc.get("num_open_curls", loc.get("num_additional_brackets", "?"))
            if isinstance(d, int):
                d = min(d, 3)
            dq = loc.get("num_open_curls_in_quote", 0)
            if isinstance(dq, int):
                dq = min(dq, 2)
            if mark is None:
                kind = "EOF"
            else:
                g = mark.group(0)
                kind = "@" if g.startswith("@") else g
            self.scan_states.add(f"{f.f_code.co_name}|q={q}|d={d}|dq={dq}|{kind}")
        except Exception:
            self.scan_states.add("abstraction-unavailable")

    def _py_unwind(self, code, off, exc):
        if code.co_filename.startswith(self.pkg) and code.co_qualname == "Splitter._next_mark":
            self.next_mark_depth -= 1

    def _raise(self, code, off, exc):
        # CPython reports RAISE in every frame an exception travels through; the origin is the
        # first report of a given exception object (kept alive here so its id cannot be reused).
        if exc is self._last_exc:
            return
        self._last_exc = exc
        if not code.co_filename.startswith(self.pkg):
            return
        tn = type(exc).__name__
        self.raises[f"{tn}@{code.co_qualname}"] += 1
        if tn == "BlockAbortedException":
            self.aborts += 1


class StepBudgetExceeded(BaseException):
    """Raised from the PY_START callback when one call into the repository exceeded its logical
    step budget (bounded-progress monitor; BaseException so that no `except Exception` eats it)."""


TRACER = Tracer()
