"""icontract-based contracts attached to the REAL classes/functions from outside the repository.

Every condition is a named function with an explicit error= (icontract turns a violation of a
lambda in call form into a SyntaxError).  Evaluation counters let a check report 'inconclusive'
when a contract was never evaluated.
"""
from collections import Counter

import icontract

COUNT = Counter()
_INSTALLED = set()


class InvariantBroken(AssertionError):
    pass


class PostBroken(AssertionError):
    pass


LAST = {}


# ------------------------------------------------------------------ Library (C08)
def _ids(xs):
    return [id(x) for x in xs]


def library_views_consistent(self):
    """entries/strings/dicts are exactly the Entry/String blocks of `blocks`; the five views partition blocks."""
    from bibtexparser import model as M
    COUNT["library_invariant"] += 1
    blocks = list(self.blocks)
    entries = [b for b in blocks if isinstance(b, M.Entry)]
    strings = [b for b in blocks if isinstance(b, M.String)]
    why = None
    if _ids(self.entries) != _ids(entries):
        why = "entries != Entry blocks in block order"
    elif sorted(_ids(self.strings)) != sorted(_ids(strings)):
        why = "strings != String blocks"
    else:
        ed, sd = self.entries_dict, self.strings_dict
        if len(ed) != len(entries) or any(ed.get(e.key) is not e for e in entries):
            why = "entries_dict != {key: entry} over held entries (or two held entries share a key)"
        elif len(sd) != len(strings) or any(sd.get(s.key) is not s for s in strings):
            why = "strings_dict != {key: string} over held strings (or two held strings share a key)"
        else:
            parts = list(self.entries) + list(self.strings) + list(self.preambles) + list(self.comments) + list(self.failed_blocks)
            if sorted(_ids(parts)) != sorted(_ids(blocks)):
                why = "entries/strings/preambles/comments/failed_blocks do not partition blocks"
    LAST["library_invariant"] = why
    return why is None or _record_or_fail("library_invariant", why, [type(b).__name__ + ":" + str(getattr(b, "key", "")) for b in blocks][:20])


def install_library_invariant():
    """The view equations are attached as an icontract postcondition to every mutating public
    method (add, remove, replace).  (A class-level icontract.invariant would also fire around
    every property read, which makes observation itself quadratic.)"""
    if "library" in _INSTALLED:
        return
    from bibtexparser import library as L
    err = lambda self: InvariantBroken(LAST.get("library_invariant"))  # noqa: E731
    for name in ("add", "remove", "replace"):
        fn = getattr(L.Library, name)
        setattr(L.Library, name, icontract.ensure(library_views_consistent, error=err)(fn))
    _INSTALLED.add("library")


# ------------------------------------------------------------------ Entry (C19)
def entry_views_agree(self):
    """fields, fields_dict and items() describe the same fields in the same order."""
    COUNT["entry_invariant"] += 1
    fields = list(self.fields)
    keys = [f.key for f in fields]
    why = None
    if len(set(keys)) == len(keys):      # quantifier: distinct field keys
        fd = self.fields_dict
        if list(fd.keys()) != keys or any(fd[k] is not f for k, f in zip(keys, fields)):
            why = "fields_dict differs from fields"
        elif self.items()[2:] != [(f.key, f.value) for f in fields]:
            why = "items() differs from fields"
        elif self.items()[:2] != [("ENTRYTYPE", self.entry_type), ("ID", self.key)]:
            why = "items() does not start with ENTRYTYPE/ID"
    else:
        COUNT["entry_invariant_out_of_quantifier"] += 1
    LAST["entry_invariant"] = why
    return why is None or _record_or_fail("entry_invariant", why, keys)


def install_entry_invariant():
    if "entry" in _INSTALLED:
        return
    from bibtexparser import model as M
    err = lambda self: InvariantBroken(LAST.get("entry_invariant"))  # noqa: E731
    for name in ("set_field", "pop", "__setitem__", "__delitem__"):
        fn = getattr(M.Entry, name)
        setattr(M.Entry, name, icontract.ensure(entry_views_agree, error=err)(fn))
    _INSTALLED.add("entry")


# ------------------------------------------------------------------ names (C12, C13)
ORIG = {}


def _split_post(names, result):
    """conservation + idempotence of split_multiple_persons_names (C12)."""
    from ..ref import names as R
    COUNT["split_names_post"] += 1
    why = None
    if not isinstance(names, str):
        COUNT["split_names_post_out_of_quantifier"] += 1
    elif not isinstance(result, list):
        why = "result-not-a-list"
    else:
        why = R.conservation(names, result)
        if why is None:
            again = ORIG["split"](" and ".join(result))
            if again != result:
                why = "not-idempotent"
    LAST["split_names_post"] = why
    return why is None or _record_or_fail("split_names_post", why, names if isinstance(names, str) else repr(names))


def install_split_contract():
    if "split" in _INSTALLED:
        return
    from bibtexparser.middlewares import names as N
    ORIG["split"] = N.split_multiple_persons_names
    err = lambda names, result: PostBroken(LAST.get("split_names_post"))  # noqa: E731
    N.split_multiple_persons_names = icontract.ensure(_split_post, error=err)(N.split_multiple_persons_names)
    _INSTALLED.add("split")


def _parse_name_post(name, strict, result):
    """word conservation of parse_single_name_into_parts on valid names (C13); strict mode only."""
    from ..ref import names as R
    COUNT["parse_name_post"] += 1
    why = None
    if not isinstance(name, str) or not strict:
        COUNT["parse_name_post_out_of_quantifier"] += 1
    else:
        try:
            secs = R.tokenize(name)
        except R.Invalid:
            why = "invalid-name-accepted"
            secs = None
        if secs is not None:
            got = [list(result.first), list(result.von), list(result.last), list(result.jr)]
            if not any(secs):
                ok = got == [[], [], [], []]
            elif len(secs) == 1:
                ok = got[0] + got[1] + got[2] == secs[0] and got[3] == []
            elif len(secs) == 2:
                ok = got[1] + got[2] == secs[0] and got[0] == secs[1] and got[3] == []
            else:
                ok = got[1] + got[2] == secs[0] and got[3] == secs[1] and got[0] == secs[2]
            if not ok:
                why = "words-not-conserved"
    LAST["parse_name_post"] = why
    return why is None or _record_or_fail("parse_name_post", why, name if isinstance(name, str) else repr(name))


def install_parse_name_contract():
    if "parse_name" in _INSTALLED:
        return
    from bibtexparser.middlewares import names as N
    ORIG["parse_name"] = N.parse_single_name_into_parts
    err = lambda name, strict, result: PostBroken(LAST.get("parse_name_post"))  # noqa: E731
    N.parse_single_name_into_parts = icontract.ensure(_parse_name_post, error=err)(N.parse_single_name_into_parts)
    _INSTALLED.add("parse_name")


# ------------------------------------------------------------------ no mutation / no aliasing (C07)
def _snap_lib(self, library):
    from .fingerprint import fp
    # keep the input alive (ids cannot be recycled) together with its fingerprint
    return (library, fp(library))


def _no_mutation_post(self, library, result, OLD):
    from .fingerprint import fp, mutable_ids
    name = type(self).__name__
    must_copy = (not self.allow_inplace_modification) or name == "SortBlocksByTypeAndKeyMiddleware"
    if not must_copy:
        COUNT["transform_inplace:" + name] += 1
        return True
    COUNT["transform_copy:" + name] += 1
    lib, before = OLD.snap
    why = None
    if fp(lib) != before:
        why = f"{name}: input library changed by a copy-mode transform"
    else:
        a, b = mutable_ids(lib), mutable_ids(result)
        shared = set(a) & set(b)
        if shared:
            kinds = sorted({a[i] for i in shared})
            why = f"{name}: result shares mutable objects with the input: {'+'.join(kinds)[:60]}"
    LAST["no_mutation_post"] = why
    return why is None or _record_or_fail("no_mutation_post", why, name)


def install_no_mutation_contract():
    """Wraps `transform` of every class in the shipped middleware package that defines one."""
    if "nomut" in _INSTALLED:
        return []
    import bibtexparser.middlewares  # noqa
    from bibtexparser.middlewares.middleware import Middleware
    err = lambda self, library, result: PostBroken(LAST.get("no_mutation_post"))  # noqa: E731
    wrapped = []
    seen = set()
    stack = [Middleware]
    while stack:
        cls = stack.pop()
        if cls in seen:
            continue
        seen.add(cls)
        stack.extend(cls.__subclasses__())
        fn = cls.__dict__.get("transform")
        if fn is None or getattr(fn, "__isabstractmethod__", False) or not cls.__module__.startswith("bibtexparser"):
            continue
        w = icontract.snapshot(_snap_lib, name="snap")(icontract.ensure(_no_mutation_post, error=err)(fn))
        setattr(cls, "transform", w)
        wrapped.append(cls.__name__)
    _INSTALLED.add("nomut")
    return wrapped


def shipped_middleware_classes():
    import inspect
    import bibtexparser.middlewares as mws
    from bibtexparser.middlewares.middleware import Middleware
    out = {}
    stack = [Middleware]
    seen = set()
    while stack:
        cls = stack.pop()
        if cls in seen:
            continue
        seen.add(cls)
        stack.extend(cls.__subclasses__())
        if cls.__module__.startswith("bibtexparser") and not inspect.isabstract(cls) and not cls.__name__.startswith("_") \
                and cls.__name__ not in ("BlockMiddleware", "LibraryMiddleware", "Middleware"):
            out[cls.__name__] = cls
    return out


# ------------------------------------------------------------------ passive (record-only) mode
RECORD_ONLY = [False]
RECORDED = []          # dict(monitor, why, witness)


def _record_or_fail(monitor, why, witness):
    """In record-only mode (passive monitoring of the repository's own test suite) a broken
    condition is recorded and the condition reports True, so the observed run is not perturbed."""
    if why is None:
        return True
    if RECORD_ONLY[0]:
        if len(RECORDED) < 200:
            RECORDED.append(dict(monitor=monitor, why=why, witness=witness))
        return True
    return False


def _tiling_post(self, library, result):
    """C03 as a postcondition of Splitter.split (fresh library only)."""
    from ..ref import tiling
    COUNT["split_tiling_post"] += 1
    if library is not None:
        COUNT["split_tiling_post_out_of_quantifier"] += 1
        return True
    text = self.bibstr[1:]
    raws = [b.raw for b in result.blocks]
    pos, prob = tiling.place(text, raws)
    why = None
    if prob:
        why = f"tiling:{prob['kind']}"
    else:
        for b, p in zip(result.blocks, pos):
            if b.start_line != text.count("\n", 0, p):
                why = "start-line"
                break
    LAST["split_tiling_post"] = why
    return _record_or_fail("split_tiling_post", why, text[:400])


def install_tiling_contract():
    if "tiling" in _INSTALLED:
        return
    from bibtexparser import splitter as S
    err = lambda self, library, result: PostBroken(LAST.get("split_tiling_post"))  # noqa: E731
    S.Splitter.split = icontract.ensure(_tiling_post, error=err)(S.Splitter.split)
    _INSTALLED.add("tiling")
