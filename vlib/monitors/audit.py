"""sys.addaudithook monitor for file opens (C20).  Hooks cannot be removed, so one permanent hook
records into a list only while armed."""
import sys

_EVENTS = []
_ARMED = [False]
_INSTALLED = [False]


def _hook(event, args):
    if _ARMED[0] and event == "open":
        try:
            _EVENTS.append((str(args[0]), args[1]))
        except Exception:
            pass


def install():
    if not _INSTALLED[0]:
        sys.addaudithook(_hook)
        _INSTALLED[0] = True


class watch:
    def __enter__(self):
        install()
        del _EVENTS[:]
        _ARMED[0] = True
        return _EVENTS

    def __exit__(self, *a):
        _ARMED[0] = False
        return False
