"""Structural fingerprint and mutable-identity graph of repository objects.

fp(obj): canonical nested tuple of the object graph (class name + sorted __dict__, containers
structurally, exceptions as (type, str)), cycle-safe; independent of the repository's own __eq__.
mutable_ids(obj): ids of every reachable mutable object (Library, Block, Field, list, dict, set,
NameParts, ...); str/int/None/tuples-of-immutables and exception objects are excluded.
paths(obj): flat {path: leaf} map, for scope monitors (which paths changed).
"""
import dataclasses

_ATOM = (str, int, float, bool, type(None), bytes, complex)


def fp(obj, _seen=None):
    if isinstance(obj, _ATOM):
        return (type(obj).__name__, obj)
    if _seen is None:
        _seen = {}
    oid = id(obj)
    if oid in _seen:
        return ("<cycle>", _seen[oid])
    _seen[oid] = len(_seen)
    try:
        if isinstance(obj, BaseException):
            return ("exc", type(obj).__name__, str(obj))
        if isinstance(obj, (list, tuple)):
            return (type(obj).__name__,) + tuple(fp(x, _seen) for x in obj)
        if isinstance(obj, (set, frozenset)):
            return (type(obj).__name__,) + tuple(sorted((fp(x, _seen) for x in obj), key=repr))
        if isinstance(obj, dict):
            return ("dict",) + tuple((fp(k, _seen), fp(v, _seen)) for k, v in obj.items())
        if isinstance(obj, type):
            return ("type", obj.__name__)
        d = getattr(obj, "__dict__", None)
        if d is not None:
            return ("obj", type(obj).__name__) + tuple((k, fp(v, _seen)) for k, v in sorted(d.items()))
        return ("repr", type(obj).__name__, repr(obj))
    finally:
        del _seen[oid]


def mutable_ids(obj, out=None, _seen=None):
    if out is None:
        out = {}
        _seen = set()
    if isinstance(obj, _ATOM) or isinstance(obj, (BaseException, type)):
        return out
    oid = id(obj)
    if oid in _seen:
        return out
    _seen.add(oid)
    if isinstance(obj, tuple):
        for x in obj:
            mutable_ids(x, out, _seen)
        return out
    out[oid] = type(obj).__name__
    if isinstance(obj, (list, set, frozenset)):
        for x in obj:
            mutable_ids(x, out, _seen)
    elif isinstance(obj, dict):
        for k, v in obj.items():
            mutable_ids(k, out, _seen)
            mutable_ids(v, out, _seen)
    else:
        d = getattr(obj, "__dict__", None)
        if d is not None:
            for v in d.values():
                mutable_ids(v, out, _seen)
    return out


def paths(obj, prefix="", out=None, _seen=None):
    """Flat map path -> (typename, value) for atoms; containers contribute their length."""
    if out is None:
        out = {}
        _seen = set()
    if isinstance(obj, _ATOM):
        out[prefix] = (type(obj).__name__, obj)
        return out
    oid = id(obj)
    if oid in _seen:
        out[prefix] = ("<cycle>", None)
        return out
    _seen.add(oid)
    if isinstance(obj, BaseException):
        out[prefix] = ("exc", type(obj).__name__ + ":" + str(obj))
    elif isinstance(obj, (list, tuple)):
        out[prefix + "#"] = (type(obj).__name__, len(obj))
        for i, x in enumerate(obj):
            paths(x, f"{prefix}[{i}]", out, _seen)
    elif isinstance(obj, (set, frozenset)):
        out[prefix] = ("set", tuple(sorted(map(repr, obj))))
    elif isinstance(obj, dict):
        out[prefix + "#"] = ("dict", tuple(map(repr, obj.keys())))
        for k, v in obj.items():
            paths(v, f"{prefix}{{{k!r}}}", out, _seen)
    else:
        d = getattr(obj, "__dict__", None)
        out[prefix + "@"] = ("class", type(obj).__name__)
        if d is not None:
            for k, v in sorted(d.items()):
                paths(v, f"{prefix}.{k}", out, _seen)
        else:
            out[prefix] = ("repr", repr(obj))
    _seen.discard(oid)
    return out


def tamper(obj, _seen=None):
    """Deliberately damages every mutable container reachable from obj (lists get a junk element,
    dicts a junk key, str-valued attributes of repository objects are overwritten).  Used by the
    'state carried between calls' monitors: after tampering with the RESULT of a call, repeating the
    call on the same input must give the original result again."""
    if _seen is None:
        _seen = set()
    if isinstance(obj, _ATOM) or isinstance(obj, (BaseException, type)) or id(obj) in _seen:
        return
    _seen.add(id(obj))
    if isinstance(obj, list):
        for x in list(obj):
            tamper(x, _seen)
        obj.append("<tampered>")
    elif isinstance(obj, dict):
        for v in list(obj.values()):
            tamper(v, _seen)
        obj["<tampered>"] = 1
    elif isinstance(obj, (set, frozenset, tuple)):
        for x in obj:
            tamper(x, _seen)
    else:
        d = getattr(obj, "__dict__", None)
        if d is not None:
            for k, v in list(d.items()):
                if isinstance(v, str):
                    d[k] = v + "<tampered>"
                else:
                    tamper(v, _seen)
