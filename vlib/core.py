"""Core of the runtime-monitoring harness: contexts, violations, merging, verdicts.

A property module (vlib/props/cXX.py) provides

    ID, RULE, ASSUMPTIONS, MIN (deciding monitors -> minimum evaluations)
    cases(tier, seed, shard, nshards) -> iterator of JSON-serialisable cases
    check(case, ctx) -> list[Violation]      runs the REAL code under monitors
    shrink(case, still_fails) -> case        optional
    exhaustive(tier) -> str | None           description of the completely enumerated sub-space

Everything that decides is in `check`: it executes repository code and the monitors
observe that execution.  `ctx` only counts what was observed.
"""
import hashlib
import json
import os
import random
import time
from collections import Counter


class Violation(dict):
    """kind: short machine name of the refuting event; sig: mechanism signature (no random
    values, no hashes) used for known-finding matching; detail: human-readable witness info."""

    def __init__(self, kind, sig, detail=None):
        super().__init__(kind=kind, sig=sig, detail=detail)


def digest(obj) -> bytes:
    s = json.dumps(obj, sort_keys=True, ensure_ascii=True, default=repr)
    return hashlib.blake2b(s.encode("utf-8", "surrogatepass"), digest_size=8).digest()


class Ctx:
    MAX_SAMPLES = 12

    def __init__(self, prop_id, tier, seed, shard=0, nshards=1):
        self.prop_id = prop_id
        self.tier = tier
        self.seed = seed
        self.shard = shard
        self.nshards = nshards
        self.evaluations = 0            # executions of the code under test
        self.cases = 0
        self.nontrivial = set()         # 8-byte digests of distinct non-trivial cases
        self.monitors = Counter()       # monitor name -> number of times it was evaluated
        self.states = set()             # abstract states / shapes observed (strings)
        self.notes = Counter()          # free counters (skipped, out-of-quantifier, ...)
        self.samples = []
        self._rs = random.Random(1234 + shard)
        self._seen_samples = 0
        self.violations = []            # dict(case=..., kind, sig, detail)
        self.known_hits = Counter()     # sig -> count (filled by main)
        self.truncated = False
        self.errors = []                # harness errors (tracebacks); any => inconclusive

    # -- recording ---------------------------------------------------------------
    def ran(self, n=1):
        self.evaluations += n

    def mon(self, name, n=1):
        self.monitors[name] += n

    def state(self, s):
        if len(self.states) < 20000:
            self.states.add(s)

    def note(self, name, n=1):
        self.notes[name] += n

    def nontriv(self, case_key):
        self.nontrivial.add(digest(case_key))

    def sample(self, case):
        self._seen_samples += 1
        if len(self.samples) < self.MAX_SAMPLES:
            self.samples.append(case)
        else:
            j = self._rs.randrange(self._seen_samples)
            if j < self.MAX_SAMPLES:
                self.samples[j] = case

    # -- serialisation between worker and parent ----------------------------------
    def dump(self, path):
        with open(path + ".nt", "wb") as f:
            f.write(b"".join(sorted(self.nontrivial)))
        data = dict(
            evaluations=self.evaluations, cases=self.cases, monitors=dict(self.monitors),
            states=sorted(self.states), notes=dict(self.notes), samples=self.samples,
            violations=self.violations, truncated=self.truncated, errors=self.errors,
        )
        with open(path, "w") as f:
            json.dump(data, f, ensure_ascii=True, default=repr)

    def absorb(self, path):
        with open(path) as f:
            d = json.load(f)
        self.evaluations += d["evaluations"]
        self.cases += d["cases"]
        self.monitors.update(d["monitors"])
        self.states.update(d["states"])
        self.notes.update(d["notes"])
        for s in d["samples"]:
            self.sample(s)
        self.violations.extend(d["violations"])
        self.truncated = self.truncated or d["truncated"]
        self.errors.extend(d.get("errors", []))
        with open(path + ".nt", "rb") as f:
            raw = f.read()
        for i in range(0, len(raw), 8):
            self.nontrivial.add(raw[i:i + 8])


def rng_for(seed, shard, *extra):
    h = hashlib.blake2b(repr((seed, shard) + extra).encode(), digest_size=8).digest()
    return random.Random(int.from_bytes(h, "big"))


class Deadline:
    """Soft wall-clock safety net for generators (count budgets are the real bound)."""

    def __init__(self, seconds):
        self.t_end = time.monotonic() + seconds

    def over(self):
        return time.monotonic() > self.t_end


def tier_pick(tier, quick, thorough):
    return thorough if tier == "thorough" else quick


def repo_root():
    return os.environ.get("VERIF_REPO", "/repo")


def srepr(x, limit=160):
    """repr that cannot raise (the repository's __repr__ may recurse on corrupted objects)."""
    try:
        s = repr(x)
    except BaseException as e:  # noqa
        s = f"<{type(x).__name__}: repr raised {type(e).__name__}>"
    return s if len(s) <= limit else s[:limit] + "..."
