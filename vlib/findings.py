"""known_findings.json: genuine defects of the repository that are recorded, keyed by mechanism.

entry = {property, status: "known"|"fixed", sig, what, witness, commit?, record}
* known  - still present; a violation whose mechanism signature equals `sig` is reported as
           KNOWN-FINDING (exit 0); any other violation of the same property is a VIOLATION.
* fixed  - repaired by a "fix:" commit in /repo; suppresses nothing: the witness is replayed on
           every run and a failure is reported as a VIOLATION.
The file is read-only at run time.
"""
import json
import os

HERE = os.path.dirname(os.path.dirname(os.path.abspath(__file__)))
PATH = os.path.join(HERE, "known_findings.json")


def load(prop_id):
    if not os.path.exists(PATH):
        return [], []
    with open(PATH) as f:
        data = json.load(f)
    ents = [e for e in data.get("findings", []) if e["property"] == prop_id]
    return [e for e in ents if e["status"] == "known"], [e for e in ents if e["status"] == "fixed"]
