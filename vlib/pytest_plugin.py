"""pytest plugin: runs the repository's OWN test suite with the passive (record-only) monitors on.

    PYTHONPATH=$VERIF_REPO:/verif:/verif/.deps pytest -p vlib.pytest_plugin tests

The suite's executions become observed executions at no generator cost, and a contract that
fires here is either stricter than what correct code legitimately does (an oracle defect to be
corrected) or a defect the tests do not assert.  Results go to $VERIF_PASSIVE_OUT (JSON).
"""
import json
import os

from vlib.monitors import contracts

_current = [""]


def pytest_configure(config):
    contracts.RECORD_ONLY[0] = True
    contracts.install_library_invariant()
    contracts.install_entry_invariant()
    contracts.install_split_contract()
    contracts.install_parse_name_contract()
    contracts.install_no_mutation_contract()
    contracts.install_tiling_contract()


def pytest_runtest_setup(item):
    _current[0] = item.nodeid
    contracts.LAST["nodeid"] = item.nodeid


def pytest_runtest_teardown(item, nextitem):
    # attribute recordings to the test during which they were made
    for r in contracts.RECORDED:
        r.setdefault("test", _current[0])


def pytest_sessionfinish(session, exitstatus):
    out = os.environ.get("VERIF_PASSIVE_OUT")
    if not out:
        return
    with open(out, "w") as f:
        json.dump(dict(counts=dict(contracts.COUNT), recorded=contracts.RECORDED, exitstatus=int(exitstatus),
                       tests=session.testscollected), f, indent=1, default=repr)
