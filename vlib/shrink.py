"""ddmin over sequences (characters of a string, tokens, operations)."""


def ddmin_list(items, fails, max_tests=400):
    items = list(items)
    tests = 0
    n = 2
    while len(items) >= 2 and tests < max_tests:
        chunk = max(1, len(items) // n)
        reduced = False
        for start in range(0, len(items), chunk):
            cand = items[:start] + items[start + chunk:]
            tests += 1
            if cand != items and fails(cand):
                items = cand
                n = max(n - 1, 2)
                reduced = True
                break
            if tests >= max_tests:
                break
        if not reduced:
            if chunk == 1:
                break
            n = min(len(items), n * 2)
    return items


def ddmin_str(s, fails, max_tests=400):
    return "".join(ddmin_list(list(s), lambda xs: fails("".join(xs)), max_tests))
