"""Builds model objects (blocks, libraries, formats) from JSON-able specs, so that cases that are
not parse results (writer, sorter, library histories) can be stored in replay files."""


def block(spec, line=None):
    """A trailing dict {"line": n} in a spec sets the block's start_line (any kind)."""
    from bibtexparser import model as M
    if isinstance(spec[-1], dict):
        return block(spec[:-1], line=spec[-1]["line"])
    k = spec[0]
    if k == "entry":
        _, typ, key, fields = spec[:4]
        raw = spec[4] if len(spec) > 4 else None
        line = line if line is not None else (spec[5] if len(spec) > 5 else None)
        return M.Entry(typ, key, [M.Field(fk, fv, i) for i, (fk, fv) in enumerate(fields)], start_line=line, raw=raw)
    if k == "string":
        return M.String(spec[1], spec[2], raw=spec[3] if len(spec) > 3 else None, start_line=line)
    if k == "preamble":
        return M.Preamble(spec[1], raw=spec[2] if len(spec) > 2 else None, start_line=line)
    if k == "ecomment":
        return M.ExplicitComment(spec[1], raw=spec[2] if len(spec) > 2 else None, start_line=line)
    if k == "icomment":
        return M.ImplicitComment(spec[1], raw=spec[2] if len(spec) > 2 else None, start_line=line)
    if k == "failed":
        from bibtexparser.exceptions import BlockAbortedException
        return M.ParsingFailedBlock(error=BlockAbortedException("synthetic abort", 0), raw=spec[1], start_line=0 if line is None else line)
    if k == "dupkey":
        inner = block(spec[2])
        return M.DuplicateBlockKeyBlock(key=spec[1], previous_block=inner, duplicate_block=inner, raw=inner.raw, start_line=0 if line is None else line)
    if k == "dupfield":
        inner = block(spec[2], line=line)
        return M.DuplicateFieldKeyBlock(duplicate_keys=set(spec[1]), entry=inner)
    if k == "mwerror":
        inner = block(spec[1], line=line)
        kind = spec[2] if len(spec) > 2 else "ValueError"
        if kind == "partial":
            from bibtexparser.exceptions import PartialMiddlewareException
            err = PartialMiddlewareException(["first reason", "second reason"])
        elif kind == "invalidname":
            from bibtexparser.middlewares.names import InvalidNameError
            err = InvalidNameError("A, B, C, D", "Too many commas")
        else:
            err = ValueError("synthetic middleware error")
        return M.MiddlewareErrorBlock(inner, err)
    raise ValueError(k)


def library(specs):
    from bibtexparser.library import Library
    return Library([block(s) for s in specs])


def fmt(spec):
    """spec = [indent, value_column, trailing_comma, separator, failed_comment or None]"""
    from bibtexparser import BibtexFormat
    f = BibtexFormat()
    f.indent, f.value_column, f.trailing_comma, f.block_separator = spec[:4]
    if len(spec) > 4 and spec[4] is not None:
        f.parsing_failed_comment = spec[4]
    return f


def apply_history(lib, steps):
    """Libraries are not only constructed: they are edited.  steps = [["remove", i], ["rekey", i, key], ["replace", i, spec],
    ["add", spec], ["readd", i]] act on the block at position i % len(blocks) through the public API; a step the library
    refuses (ValueError/KeyError, e.g. a key collision) is skipped.  Returns the number of steps that took effect."""
    done = 0
    for st in steps:
        bl = lib.blocks
        try:
            if st[0] == "add":
                lib.add(block(st[1]))
            elif not bl:
                continue
            elif st[0] == "remove":
                lib.remove(bl[st[1] % len(bl)])
            elif st[0] == "rekey":
                b = bl[st[1] % len(bl)]
                if not hasattr(b, "key") or not hasattr(b, "fields") and not hasattr(b, "value"):
                    continue
                b.key = st[2]
            elif st[0] == "replace":
                lib.replace(bl[st[1] % len(bl)], block(st[2]), fail_on_duplicate_key=False)
            elif st[0] == "readd":
                b = bl[st[1] % len(bl)]
                lib.remove(b)
                lib.add(b)
            done += 1
        except (ValueError, KeyError, AssertionError):
            # (AssertionError: the library's own consistency assertion after a block was re-keyed behind its back)
            continue
    return done
