"""Seeded random derivations of the dialect grammar (DESIGN.md 3.1) with constructive ground truth.

`document(r, opts)` returns (text, truth) where truth is the list of projected items in source
order, in the same shape as ref.recogniser.project_truth (tuples turned into lists for JSON).
The generator records the truth WHILE it builds the text; the recogniser re-derives it
independently; the two are cross-checked on every generated document.
"""
import re

OPENER = re.compile(r"@\w*[ \t]*\{")

WS_ANY = [" ", "  ", "\t", "\n", "\n  ", " \n", "\r\n", "", "", ""]
WS_ONE = [" ", "  ", "\t", "\n", "\n  ", "\r\n"]
PLAIN = list("abcXYZ019 .;:!?+-*/()[]<>|'`~^_&%$") + ["é", "ß", "λ", "中", "@", "#", "ü", "Ø", "İ", "ı", "ſ", "ﬁ", "\ufeff", "\u00a0", "K"]
ESCAPES = ["\\{", "\\}", '\\"', "\\,", "\\=", "\\\\ ", "\\\\", "\\\\", "\\'e", "\\&", "\\%", "\\@", "\\#", "\\ ", "\\o "]
TYPES = ["article", "Book", "inproceedings", "MISC", "a", "techreport", "online", "x_y", "ärticle",
         "commentary", "Comments", "stringent", "preambles", "PhdThesis", "B2", "_", "İnbook", "ǅ", "ΣΑΣ", "ẞ"]
FKEYS = ["author", "title", "year", "Month", "note", "url", "a", "b-c", "x_1", "Title", "editor", "pages",
         "journal", "doi", "é", "k.k", "a:b", "+", "volume", "number", "İd", "straße", "booktitle", "ID", "ENTRYTYPE", "id", "key", "type"]
IDENTS = ["jan", "feb", "foo", "Bar", "x1", "a.b", "k-2", "mar", "acm", "IEEE", "s_1", "é", "a:b", "a+b"]
KEYCH = "abcdefgXYZ0123456789_:.-/+*'!?|<>[]()&%$^~;"


class Opts:
    def __init__(self, **kw):
        self.max_items = 6
        self.min_items = 0
        self.nest = 3
        self.crlf = True
        self.multiline = True
        self.freetext = True
        self.entry_keys = None      # pool (list) -> duplicates possible; None -> unique
        self.string_keys = None
        self.field_keys = None      # pool for field keys (duplicates possible when not None)
        self.unique_fields = True
        self.kinds = ("entry", "entry", "entry", "string", "preamble", "ecomment", "icomment")
        self.bare_quote_in_braces = True
        self.escapes = True
        self.at_line_start = False  # every @block starts on its own line
        self.key_prefix = ""        # prepended to generated entry/string keys (disjoint pools)
        self.big = 0.0              # probability of a big entry (10-40 fields) / big document (50-200 items)
        self.repeat = 0.05          # probability that a comment/preamble repeats the exact text of an earlier one
        self.__dict__.update(kw)


def _ws(r, opts, pool=WS_ANY):
    w = r.choice(pool)
    if not opts.crlf:
        w = w.replace("\r\n", "\n")
    if not opts.multiline:
        w = w.replace("\r", "").replace("\n", " ")
    return w


def _defuse(s):
    """Remove accidental block openers (S1) by replacing the '@' that starts one."""
    while True:
        m = OPENER.search(s)
        if not m:
            return s
        s = s[:m.start()] + "&" + s[m.start() + 1:]


def _no_trailing_backslash(s):
    """(S2) the text in front of a closing delimiter must not end in an unescaped backslash (an odd run)."""
    return s + " " if (len(s) - len(s.rstrip("\\"))) % 2 else s


def body(r, opts, depth, in_quote=False):
    from . import dictionary
    lits = dictionary.literals(safe_for_grammar=True)
    out = []
    if lits and r.random() < 0.04:
        # a literal text taken from the repository's own source, at the very start of the body
        out.append(r.choice(lits) + r.choice(["", " ", ": ", ":"]))
    for _ in range(r.randint(0, 5)):
        k = r.random()
        if lits and k < .03:
            out.append(r.choice(lits))
        elif k < .42:
            out.append("".join(r.choice(PLAIN) for _ in range(r.randint(1, 4))))
        elif k < .52 and opts.escapes:
            out.append(r.choice(ESCAPES))
        elif k < .68 and depth < opts.nest:
            out.append("{" + _no_trailing_backslash(body(r, opts, depth + 1, in_quote)) + "}")
        elif k < .76:
            out.append(r.choice([",", "=", " # ", ", ", " = "]))
        elif k < .83:
            # a bare quote: fine inside braces of a braced value; inside a quoted value only
            # within a brace group (depth >= 1 counted from the quote)
            if (not in_quote and depth >= 1) or (in_quote and depth >= 1 and opts.bare_quote_in_braces):
                out.append('"')
            else:
                out.append("'")
        elif k < .92 and opts.multiline:
            out.append(r.choice(["\n", "\n   ", "\r\n" if opts.crlf else "\n"]))
        else:
            out.append(" ")
    return "".join(out)


def braced(r, opts):
    if opts.big and r.random() < opts.big:
        # a long value (beyond 256 / 4096 characters), e.g. an abstract
        return "{" + " ".join(r.choice(["lorem", "ipsum", "{Dolor}", "sit,", "amet = x", "é"]) for _ in range(r.choice([60, 300, 1200]))) + "}"
    if r.random() < 0.05:
        return "{" + _numberlike(r) + "}"
    return "{" + _no_trailing_backslash(_defuse(body(r, opts, 1))) + "}"


def _numberlike(r):
    """Digits with white space around them, ranges, signs: what a 'potentially numeric' field holds besides a plain number
    (seed C05-l: blanks around a number inside the enclosing are content)."""
    core = r.choice(["2020", "12", "0", "007", "1--2", "3", "-1", "1e5", "٣", "²", "12 34", "1,2"])
    return r.choice([" ", "", "  ", "\t", "\n", " \n "]) + core + r.choice([" ", "", "  ", "\t", "\n", "\n  "])


def quoted(r, opts):
    if r.random() < 0.05:
        return '"' + _numberlike(r) + '"'
    return '"' + _no_trailing_backslash(_defuse(body(r, opts, 0, in_quote=True))) + '"'


def ident(r, opts):
    return r.choice(IDENTS)


def number(r, opts):
    return r.choice([str(r.randint(0, 2030)), "0", "007", "1999"])


def value(r, opts):
    n = r.choice([1, 1, 1, 1, 1, 2, 2, 3])
    pieces = [r.choice([braced, braced, quoted, ident, number])(r, opts) for _ in range(n)]
    out = pieces[0]
    for p in pieces[1:]:
        out += _ws(r, opts, [" ", "", " \n ", "  "]) + "#" + _ws(r, opts, [" ", "", "\n"]) + p
    return out


NFC_VARIANTS = ["Andr\u00e9", "Andre\u0301", "\u00c5ngstr", "A\u030angstr", "\u212bngstr", "\u1e9b\u0323", "\u1e9b\u0323".encode().decode(), "\ufb01x", "fix"]


def key(r, used, pool=None, prefix=""):
    if pool is not None:
        return r.choice(pool)
    if r.random() < 0.03:
        # keys that are different strings but canonically equivalent / compatibility-equivalent Unicode
        for k in r.sample(NFC_VARIANTS, len(NFC_VARIANTS)):
            if prefix + k not in used:
                used.add(prefix + k)
                return prefix + k
    while True:
        k = prefix + "".join(r.choice(KEYCH) for _ in range(r.randint(1, 8) if r.random() < 0.99 else r.randint(257, 300)))
        if r.random() < .1:
            k += r.choice(["é", "中", "ß", "İ", "ſ", "ﬁ"])
        if k not in used and not OPENER.search(k + "{"):
            used.add(k)
            return k


def entry(r, opts, used):
    typ = r.choice(TYPES)
    k = key(r, used, opts.entry_keys, opts.key_prefix)
    nf = r.choice([0, 0, 1, 1, 2, 2, 3, 5])
    if opts.big and r.random() < opts.big:
        nf = r.randint(10, 40) if r.random() < 0.9 else r.randint(257, 300)
    if opts.field_keys is not None:
        fks = [r.choice(opts.field_keys) for _ in range(nf)]
    elif nf > len(FKEYS):
        fks = FKEYS + ["f%d" % i for i in range(nf - len(FKEYS))]
        r.shuffle(fks)
    else:
        fks = r.sample(FKEYS, nf)
    parts = ["@", typ, r.choice(["", "", " ", "\t", "  "]), "{", _ws(r, opts), k, _ws(r, opts)]
    fields = []
    if nf == 0:
        if r.random() < .5:
            parts += [",", _ws(r, opts)]
    else:
        parts.append(",")
        for i, fk in enumerate(fks):
            v = value(r, opts)
            parts += [_ws(r, opts), fk, _ws(r, opts), "=", _ws(r, opts), v, _ws(r, opts)]
            fields.append([fk, v])
            if i < nf - 1:
                parts.append(",")
            elif r.random() < .4:
                parts += [",", _ws(r, opts)]
    parts.append("}")
    return "".join(parts), ["entry", typ.lower(), k, fields]


def string(r, opts, used):
    k = key(r, used, opts.string_keys, opts.key_prefix)
    v = value(r, opts)
    txt = ("@" + r.choice(["string", "String", "STRING", "sTrInG"]) + r.choice(["", " ", "\t"]) + "{" + _ws(r, opts)
           + k + _ws(r, opts) + "=" + _ws(r, opts) + v + _ws(r, opts) + "}")
    return txt, ["string", k, v]


def preamble(r, opts):
    t = _no_trailing_backslash(_defuse(body(r, opts, 1)))
    return "@" + r.choice(["preamble", "Preamble", "PREAMBLE"]) + r.choice(["", " "]) + "{" + t + "}", ["preamble", t.strip()]


def ecomment(r, opts):
    t = _no_trailing_backslash(_defuse(body(r, opts, 1)))
    # (a comment ending in an escaped blank, '@comment{a\\ }', is in the dialect: the trimmed text must keep that blank)
    return "@" + r.choice(["comment", "Comment", "COMMENT"]) + r.choice(["", " "]) + "{" + t + "}", ["ecomment", t.strip()]


FREE = ["% a comment", " text ", "{", "}", '"', ",", "=", "\n", "x@y.z", "#", "word", "%%", "a = b", "{x}", "é"]


def freetext(r, opts):
    t = _defuse("".join(r.choice(FREE) for _ in range(r.randint(1, 6))))
    if not opts.multiline:
        t = t.replace("\n", " ")
    if not t.strip():
        t = "% c"
    if t.rstrip().endswith("\\"):
        t = t.rstrip() + "."
    return t, ["icomment", t.strip()]


def document(r, opts=None):
    opts = opts or Opts()
    used_e, used_s = set(), set()
    truth = []
    parts = [r.choice(["", "", "\n", " ", "\n\n"])]
    prev_free = True   # two free texts are never adjacent; also none directly at the start by chance only
    seen_items = []
    n_items = r.randint(opts.min_items, opts.max_items)
    if opts.big and r.random() < opts.big:
        n_items = r.randint(50, 200) if r.random() < 0.8 else r.randint(257, 320)
    made = 0
    guard = 0
    while made < n_items and guard < 50 + 3 * n_items:
        guard += 1
        kind = r.choice(opts.kinds)
        if kind == "entry":
            t, g = entry(r, opts, used_e)
        elif kind == "string":
            t, g = string(r, opts, used_s)
        elif kind == "preamble":
            t, g = preamble(r, opts)
        elif kind == "ecomment":
            t, g = ecomment(r, opts)
        else:
            if prev_free or not opts.freetext:
                continue
            t, g = freetext(r, opts)
        if kind in ("preamble", "ecomment", "icomment") and r.random() < opts.repeat:
            same = [(tt, gg) for tt, gg in seen_items if gg[0] == g[0]]
            if same:
                t, g = r.choice(same)
        seen_items.append((t, g))
        sep = r.choice(["\n", "\n", "\n\n", " ", "", "\r\n" if opts.crlf else "\n", "\n \n", "\t"])
        if opts.at_line_start and "\n" not in sep:
            sep = "\n"
        if g[0] == "icomment":
            prev_free = True
            if not sep.strip(" \t") and "\n" not in sep and False:
                sep = "\n"
        else:
            prev_free = False
        parts.append(t)
        parts.append(sep)
        truth.append(g)
        made += 1
    text = "".join(parts)
    if not opts.multiline:
        pass
    return text, truth


def jsonable(truth_from_recogniser):
    """project_truth output (tuples) -> nested lists, comparable with generator truth."""
    out = []
    for p in truth_from_recogniser:
        if p[0] == "entry":
            out.append(["entry", p[1], p[2], [[a, b] for a, b in p[3]]])
        else:
            out.append(list(p))
    return out
