"""Hostile text: random strings over Unicode classes, corruptions and injections."""

MARKS = list('{}",=@#\\\n ') + ["@a{", "@string{", "@comment{", "@preamble{", "\r\n", "\t"]
CLASSES = [
    list("abcXYZ019_"), list('{}",=@#\\'), list(" \t\n"), list("éßλ中Ж١२"), list("\x00\x01\x1f\x7f\x0b\x0c\x1c\x85"),
    [" ", " ", " ", "​", "﻿", "́", "\U0001f600", "\ud800", "\udfff"], list("%~&$^_|<>[]()!?*+-./:;'`"),
]


def text(r):
    from . import dictionary
    lits = dictionary.literals()
    n = r.choice([1, 2, 3, 5, 8, 13, 30, 80])
    w = [r.random() for _ in CLASSES]
    w[1] += 1.0
    w[0] += 0.5
    out = []
    for _ in range(n):
        if lits and r.random() < 0.06:
            out.append(r.choice(lits))
        elif r.random() < 0.25:
            out.append(r.choice(MARKS))
        else:
            cls = r.choices(CLASSES, weights=w)[0]
            out.append(r.choice(cls))
    if r.random() < 0.02:
        out.insert(r.randint(0, len(out)), "@" + "".join(r.choice("abz_09-.:") for _ in range(r.randint(20, 60))))
    return "".join(out)


def corrupt(r, s):
    """1-3 character-level corruptions: delete / duplicate / swap / replace a mark."""
    s = list(s)
    for _ in range(r.randint(1, 3)):
        if not s:
            break
        idx = [i for i, c in enumerate(s) if c in '{}",=@#\\\n'] or list(range(len(s)))
        i = r.choice(idx)
        op = r.random()
        if op < .35:
            del s[i]
        elif op < .6:
            s.insert(i, s[i])
        elif op < .8 and i + 1 < len(s):
            s[i], s[i + 1] = s[i + 1], s[i]
        else:
            s[i] = r.choice('{}",=@#\\\n x')
    return "".join(s)


def inject(r, s, what):
    for _ in range(r.randint(1, 3)):
        i = r.randint(0, len(s))
        s = s[:i] + r.choice(what) + s[i:]
    return s
