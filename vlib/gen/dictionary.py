"""Source-derived dictionary: every string literal of the repository's package (read with ast from the
CURRENT working tree) becomes a token for the generators.  Code that special-cases a literal text
("magic value" branches: field names, prefixes, keywords, macro names) is then reached without the
generators having to know the literal in advance - the same idea as a fuzzer dictionary built from
the program's comparison operands."""
import ast
import os

from ..core import repo_root

_CACHE = {}


def literals(safe_for_grammar=False):
    key = bool(safe_for_grammar)
    if key in _CACHE:
        return _CACHE[key]
    root = os.path.join(repo_root(), "bibtexparser")
    out = set()
    for dp, _, files in os.walk(root):
        for f in files:
            if not f.endswith(".py"):
                continue
            try:
                tree = ast.parse(open(os.path.join(dp, f), encoding="utf-8").read())
            except Exception:  # noqa
                continue
            doc_ids = set()
            for node in ast.walk(tree):
                if isinstance(node, (ast.Module, ast.ClassDef, ast.FunctionDef, ast.AsyncFunctionDef)):
                    b = getattr(node, "body", [])
                    if b and isinstance(b[0], ast.Expr) and isinstance(getattr(b[0], "value", None), ast.Constant):
                        doc_ids.add(id(b[0].value))
            for node in ast.walk(tree):
                if isinstance(node, ast.Constant) and isinstance(node.value, str) and id(node) not in doc_ids:
                    s = node.value
                    if 1 < len(s) <= 48 and "\n" not in s.strip("\n"):
                        out.add(s)
    lits = sorted(out)
    if safe_for_grammar:
        lits = [s for s in lits if not any(c in s for c in '{}"@\\,=#') and s.strip() == s and s]
    _CACHE[key] = lits
    return lits
