"""Bounded-exhaustive enumeration of token sequences, sharded across workers."""
import itertools


def count(alphabet, maxlen, minlen=1):
    return sum(len(alphabet) ** L for L in range(minlen, maxlen + 1))


def sequences(alphabet, maxlen, shard=0, nshards=1, minlen=1):
    """Every sequence of length minlen..maxlen over `alphabet`; a sequence belongs to the shard
    given by its global index modulo nshards (so the union over shards is the whole space)."""
    idx = 0
    for L in range(minlen, maxlen + 1):
        for seq in itertools.product(alphabet, repeat=L):
            if idx % nshards == shard:
                yield seq
            idx += 1


def sequences_stride(alphabet, length, shard, nshards, stride, offset=0):
    """A deterministic 1/stride sample of the sequences of exactly `length` tokens."""
    idx = 0
    for seq in itertools.product(alphabet, repeat=length):
        if idx % stride == offset and (idx // stride) % nshards == shard:
            yield seq
        idx += 1
