"""Independent character-level recogniser of the dialect grammar (DESIGN.md section 3.1).

No code shared with bibtexparser.splitter and no regular expression over "marks": a plain
recursive-descent scan.  `recognise(text)` returns a list of items (the ground truth) or None
when the text is not in the dialect.

item = dict(kind, start, end, raw, line, and per kind:
            entry:    type (lower-cased), key, fields=[(key, value_text, line_of_equals, line_of_key_end)]
            string:   key, value
            preamble: content            (verbatim between the braces)
            ecomment: content            (trimmed)
            icomment: content            (trimmed free text)
"""

DELIMS = '{}",='


class _WS:
    """Whitespace = str.isspace(), the notion behind Python's strip() ('up to surrounding whitespace')."""

    def __contains__(self, c):
        return c.isspace()


WS = _WS()


class NotInDialect(Exception):
    pass


def _isword(c):
    return c.isalnum() or c == "_"


def opener_at(text, i):
    """If an '@\\w*[ \\t]*{' opener starts at i return (type_text, index_of_brace) else None."""
    n = len(text)
    if i >= n or text[i] != "@":
        return None
    j = i + 1
    while j < n and _isword(text[j]):
        j += 1
    k = j
    while k < n and text[k] in " \t":
        k += 1
    if k < n and text[k] == "{":
        return text[i + 1:j], k
    return None


def is_delim(text, i):
    """A delimiter character preceded by an odd number of backslashes is a literal (ESC ::= '\\' c pairs are read
    left to right: an even run of backslashes is escaped backslashes and escapes nothing)."""
    if text[i] not in DELIMS:
        return False
    n = 0
    while i - n - 1 >= 0 and text[i - n - 1] == "\\":
        n += 1
    return n % 2 == 0


class _P:
    def __init__(self, text):
        self.t = text
        self.n = len(text)

    def fail(self, why, i):
        raise NotInDialect(f"{why} at {i}")

    def skip_ws(self, i):
        while i < self.n and self.t[i] in WS:
            i += 1
        return i

    def balanced(self, i, in_quote_group=False):
        """i = index just after an opening '{'. Returns index of the matching '}'.
        Bare quotes are allowed inside a brace group."""
        depth = 0
        t, n = self.t, self.n
        while i < n:
            c = t[i]
            if c == "@" and opener_at(t, i):
                self.fail("block opener inside a body (S1)", i)
            if is_delim(t, i):
                if c == "{":
                    depth += 1
                elif c == "}":
                    if depth == 0:
                        return i
                    depth -= 1
            i += 1
        self.fail("EOF inside braces", i)

    def quoted(self, i):
        """i = index just after an opening '"'. Returns the index of the closing quote."""
        t, n = self.t, self.n
        while i < n:
            c = t[i]
            if c == "@" and opener_at(t, i):
                self.fail("block opener inside a quoted value (S1)", i)
            if is_delim(t, i):
                if c == '"':
                    return i
                if c == "{":
                    i = self.balanced(i + 1)
                elif c == "}":
                    self.fail("unbalanced } in quoted value", i)
            i += 1
        self.fail("EOF inside quotes", i)

    def piece(self, i):
        t, n = self.t, self.n
        if i >= n:
            self.fail("EOF where a value piece was expected", i)
        c = t[i]
        if c == "{" :
            return self.balanced(i + 1) + 1
        if c == '"':
            return self.quoted(i + 1) + 1
        j = i
        while j < n and t[j] not in WS and t[j] not in DELIMS and t[j] not in "#\\@":
            j += 1
        if j == i:
            self.fail("empty value piece", i)
        return j

    def value(self, i):
        """value ::= piece (WS* '#' WS* piece)* ; returns (start, end)."""
        start = i
        end = self.piece(i)
        while True:
            j = self.skip_ws(end)
            if j < self.n and self.t[j] == "#":
                j = self.skip_ws(j + 1)
                end = self.piece(j)
            else:
                return start, end

    def name(self, i, what):
        """A key: non-empty run without whitespace, delimiters or backslash."""
        t, n = self.t, self.n
        j = i
        while j < n and t[j] not in WS and t[j] not in DELIMS and t[j] != "\\":
            if t[j] == "@" and opener_at(t, j):
                self.fail("opener inside a key", j)
            j += 1
        if j == i:
            self.fail(f"empty {what}", i)
        return j

    def entry(self, at, brace, typ):
        t, n = self.t, self.n
        i = self.skip_ws(brace + 1)
        j = self.name(i, "entry key")
        key = t[i:j]
        i = self.skip_ws(j)
        fields = []
        if i >= n:
            self.fail("EOF after key", i)
        if t[i] == "}":
            return dict(kind="entry", type=typ.lower(), key=key, fields=fields, start=at, end=i + 1)
        if t[i] != ",":
            self.fail("expected , or } after key", i)
        i += 1
        while True:
            i = self.skip_ws(i)
            if i >= n:
                self.fail("EOF in entry", i)
            if t[i] == "}":
                return dict(kind="entry", type=typ.lower(), key=key, fields=fields, start=at, end=i + 1)
            j = self.name(i, "field key")
            fkey = t[i:j]
            i = self.skip_ws(j)
            if i >= n or t[i] != "=":
                self.fail("expected =", i)
            eq = i
            i = self.skip_ws(i + 1)
            vs, ve = self.value(i)
            fields.append((fkey, t[vs:ve], t.count("\n", 0, eq), t.count("\n", 0, j)))
            i = self.skip_ws(ve)
            if i >= n:
                self.fail("EOF after value", i)
            if t[i] == ",":
                i += 1
            elif t[i] != "}":
                self.fail("expected , or } after value", i)

    def string(self, at, brace):
        t, n = self.t, self.n
        i = self.skip_ws(brace + 1)
        j = self.name(i, "string key")
        key = t[i:j]
        i = self.skip_ws(j)
        if i >= n or t[i] != "=":
            self.fail("expected = in @string", i)
        i = self.skip_ws(i + 1)
        vs, ve = self.value(i)
        i = self.skip_ws(ve)
        if i >= n or t[i] != "}":
            self.fail("expected } after @string value", i)
        return dict(kind="string", key=key, value=t[vs:ve], start=at, end=i + 1)

    def document(self):
        t, n = self.t, self.n
        items = []
        pos = 0
        i = 0
        while True:
            # next opener
            j = i
            op = None
            while j < n:
                if t[j] == "@":
                    op = opener_at(t, j)
                    if op:
                        break
                j += 1
            free = t[pos:j]
            if free.strip():
                s = pos + (len(free) - len(free.lstrip()))
                e = pos + len(free.rstrip())
                items.append(dict(kind="icomment", content=t[s:e], start=s, end=e))
            if not op:
                break
            typ, brace = op
            if typ == "":
                self.fail("empty block type", j)
            low = typ.lower()
            if low == "comment":
                e = self.balanced(brace + 1)
                items.append(dict(kind="ecomment", content=t[brace + 1:e].strip(), start=j, end=e + 1))
            elif low == "preamble":
                e = self.balanced(brace + 1)
                items.append(dict(kind="preamble", content=t[brace + 1:e], start=j, end=e + 1))
            elif low == "string":
                items.append(self.string(j, brace))
            else:
                items.append(self.entry(j, brace, typ))
            pos = i = items[-1]["end"]
        for it in items:
            it["raw"] = t[it["start"]:it["end"]]
            it["line"] = t.count("\n", 0, it["start"])
        return items


def recognise(text):
    try:
        return _P(text).document()
    except NotInDialect:
        return None


def why_not(text):
    try:
        _P(text).document()
        return None
    except NotInDialect as e:
        return str(e)


def project_truth(items, with_lines=False):
    """Ground truth in the common projection used by the differential monitors."""
    out = []
    for it in items:
        k = it["kind"]
        if k == "entry":
            p = ("entry", it["type"], it["key"], tuple((f[0], f[1]) for f in it["fields"]))
        elif k == "string":
            p = ("string", it["key"], it["value"])
        elif k == "preamble":
            p = ("preamble", it["content"].strip())
        elif k == "ecomment":
            p = ("ecomment", it["content"].strip())
        else:
            p = ("icomment", it["content"].strip())
        out.append(p)
    return out
