"""Independent references for the name functions (C12-C14), written from the property statements.

split_ref      - separator scanner for co-author lists (C12)
conservation   - placement of the returned pieces in the input with 'and' separators (C12)
tokenize/case/parse_ref - transcription of the stated First/von/Last/Jr rules (C13)
"""
import re

WS4 = " \t\r\n"


# ----------------------------------------------------------------------------- C12
def mask_plain(s):
    """Returns a string of the same length where every character that is not a plain depth-0
    character (escape pairs, braces, anything inside braces) is replaced by \\x00.
    Also returns whether the braces are balanced."""
    out = []
    depth = 0
    i, n = 0, len(s)
    balanced = True
    while i < n:
        c = s[i]
        if c == "\\":
            out.append("\x00")
            if i + 1 < n:
                out.append("\x00")
            i += 2
            continue
        if c == "{":
            depth += 1
            out.append("\x00")
        elif c == "}":
            if depth == 0:
                balanced = False
            else:
                depth -= 1
            out.append("\x00")
        elif depth > 0:
            out.append("\x00")
        else:
            out.append(c)
        i += 1
    if depth != 0:
        balanced = False
    return "".join(out), balanced


_SEP = re.compile(r"[ \t\r\n]+[aA][nN][dD][ \t\r\n]+")


def split_ref(s):
    """Pieces according to the statement: split only at a case-insensitive word 'and' at brace
    depth 0 with whitespace on both sides and a name on both sides.  None if braces unbalanced."""
    s = s.strip(WS4)
    if not s:
        return []
    m, balanced = mask_plain(s)
    if not balanced:
        return None
    pieces = []
    start = 0
    pos = 0
    while True:
        mt = _SEP.search(m, pos)
        if not mt or mt.end() >= len(s):
            break
        if mt.start() > start:
            pieces.append(s[start:mt.start()])
            start = mt.end()
        pos = mt.end()
    pieces.append(s[start:])
    return pieces


_GAP = re.compile(r"[ \t\r\n]+[aA][nN][dD][ \t\r\n]+\Z")


def conservation(s, pieces):
    """None if the pieces, in order, with 'and' separators between them, account for every
    non-whitespace character of s; else a short reason.  Placement is searched."""
    if not all(isinstance(p, str) for p in pieces):
        return "piece-not-str"
    if not pieces:
        return None if s.strip() == "" else "dropped-everything"
    if any(p == "" for p in pieces):
        return "empty-piece"

    def rec(i, end):
        if i == len(pieces):
            return s[end:].strip() == ""
        p = pieces[i]
        j = s.find(p, end)
        while j != -1:
            gap = s[end:j]
            ok = gap.strip() == "" if i == 0 else bool(_GAP.match(gap))
            if ok and rec(i + 1, j + len(p)):
                return True
            # a later occurrence can only work if the gap stays admissible
            if i == 0 and gap.strip() != "":
                return False
            j = s.find(p, j + 1)
            if j != -1 and i > 0 and len(s[end:j]) > len(gap) + 64:
                pass
        return False

    if rec(0, 0):
        return None
    # diagnose
    joined = "".join(pieces)
    if len(re.sub(r"\s", "", joined)) < len(re.sub(r"\s", "", s)) - 3 * (len(pieces) - 1):
        return "characters-dropped"
    return "not-contiguous-pieces-with-and-separators"


# ----------------------------------------------------------------------------- C13
WS_NAME = set(" ~\t\r\n")


class Invalid(Exception):
    pass


def tokenize(name):
    """comma sections -> words; an escape (backslash + non-whitespace char) is an atom."""
    sections = [[]]
    cur = []
    depth = 0
    i, n = 0, len(name)

    def flush():
        if cur:
            sections[-1].append("".join(cur))
            del cur[:]

    while i < n:
        c = name[i]
        if c == "\\" and i + 1 < n and name[i + 1] not in WS_NAME:
            cur.append(name[i:i + 2])
            i += 2
            continue
        if c == "{":
            depth += 1
            cur.append(c)
        elif c == "}":
            if depth == 0:
                raise Invalid("unmatched closing brace")
            depth -= 1
            cur.append(c)
        elif depth > 0:
            cur.append(c)
        elif c == ",":
            flush()
            if len(sections) == 3:
                raise Invalid("too many commas")
            sections.append([])
        elif c in WS_NAME:
            flush()
        else:
            cur.append(c)
        i += 1
    if depth:
        raise Invalid("unterminated brace")
    flush()
    if len(sections) > 1 and not sections[-1]:
        raise Invalid("trailing comma")
    return sections


# bibtex.web, "von_token_found": the 13 accented / foreign characters whose control sequence alone decides the case
FOREIGN = {"i": 0, "j": 0, "oe": 0, "OE": 1, "ae": 0, "AE": 1, "aa": 0, "AA": 1, "o": 0, "O": 1, "l": 0, "L": 1, "ss": 0}


def case(word):
    """1 upper, 0 lower, -1 caseless.  Transcription of BibTeX's von_token_found (bibtex.web):
    scan the word left to right; a letter at brace depth 0 decides; a '{' at depth 0 directly followed by a
    backslash opens a *special character*: its control sequence (the letters after the backslash) is looked up
    in the table of foreign characters (decides if found), otherwise the first letter up to the end of the
    special character decides, groups nested inside it included; any other brace group is skipped whole,
    whatever it contains.  The library's dialect adds backslash escapes: an escaped character is never a brace,
    an escaped letter is a letter (at depth 0 and inside a special character)."""
    i, n = 0, len(word)

    def lettercase(ch):
        # letters of scripts without case (CJK, Arabic, ...) and title-case letters decide nothing: None = keep scanning
        return 1 if (ch.isupper() or ch.istitle()) else 0 if ch.islower() else None

    while i < n:
        c = word[i]
        if c == "\\":
            if i + 1 < n and lettercase(word[i + 1]) is not None:
                return lettercase(word[i + 1])
            i += 2
            continue
        if c == "{":
            if i + 1 < n and word[i + 1] == "\\":
                # special character
                j = i + 2
                k = j
                while k < n and word[k].isalpha():
                    k += 1
                if word[j:k] in FOREIGN:
                    return FOREIGN[word[j:k]]
                if k == j:
                    k = j + 1          # a one-character, non-letter control sequence such as \' or \"
                d = 1
                j = k
                while j < n and d > 0:
                    ch = word[j]
                    if ch == "\\":
                        if j + 1 < n and lettercase(word[j + 1]) is not None:
                            return lettercase(word[j + 1])
                        j += 2
                        continue
                    if ch == "{":
                        d += 1
                    elif ch == "}":
                        d -= 1
                    elif lettercase(ch) is not None:
                        return lettercase(ch)
                    j += 1
                # bibtex.web "Check the special character (and return)": the token is decided at its first special
                # character; no foreign control sequence and no letter in it => not a von token, whatever follows
                return -1
            # a plain group: skipped whole
            d = 1
            j = i + 1
            while j < n and d > 0:
                ch = word[j]
                if ch == "\\":
                    j += 2
                    continue
                if ch == "{":
                    d += 1
                elif ch == "}":
                    d -= 1
                j += 1
            i = j
            continue
        if lettercase(c) is not None:
            return lettercase(c)
        i += 1
    return -1


def parse_ref(name):
    """dict(first, von, last, jr) per the statement; raises Invalid for invalid names."""
    secs = tokenize(name)
    out = dict(first=[], von=[], last=[], jr=[])
    if not any(secs):
        return out

    def von_last(words, start):
        cs = [case(w) for w in words]
        last_lower = -1
        for i in range(start, len(words) - 1):       # never the final word of the section
            if cs[i] == 0:
                last_lower = i
        if last_lower < 0:
            return [], words[start:]
        return words[start:last_lower + 1], words[last_lower + 1:]

    if len(secs) == 1:
        w = secs[0]
        if len(w) == 1:
            out["last"] = w
        elif len(w) == 2:
            out["first"], out["last"] = w[:1], w[1:]
        else:
            cs = [case(x) for x in w]
            start = 0
            while start < len(w) - 1 and cs[start] != 0:
                start += 1
            out["first"] = w[:start]
            out["von"], out["last"] = von_last(w, start)
    else:
        w = secs[0]
        if w:
            out["von"], out["last"] = von_last(w, 0)
        out["first"] = secs[-1]
        if len(secs) == 3:
            out["jr"] = secs[1]
    return out


def ambiguous_case(name):
    """True when the name uses constructs on which the case rule is not pinned down by the
    statement: a '{\\' below brace depth 1, a brace group inside a special character, or an
    escaped letter inside a non-special brace group."""
    depth = 0
    special_at = None
    i, n = 0, len(name)
    while i < n:
        c = name[i]
        if c == "\\":
            if depth > 0 and special_at is None and i + 1 < n and name[i + 1].isalpha():
                return True
            i += 2
            continue
        if c == "{":
            if i + 1 < n and name[i + 1] == "\\":
                if depth >= 1:
                    return True
                special_at = depth
                depth += 1
                i += 2          # the control sequence's backslash belongs to the special character
                # skip the control sequence character so that an escaped letter here is not flagged
                if i < n:
                    i += 1
                continue
            if special_at is not None:
                return True
            depth += 1
        elif c == "}":
            depth -= 1
            if special_at is not None and depth == special_at:
                special_at = None
            if depth < 0:
                return False
        i += 1
    return False
