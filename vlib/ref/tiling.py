"""Tiling oracle (C03): the raw texts of the blocks must occur in the source in block order,
without overlap, with only whitespace between/around them; start_line = number of '\\n' before
the raw's first character.

Placement is searched, not assumed: a raw may occur several times, so every admissible
position (gap before it is whitespace) is tried before a problem is declared.
"""


def _first_nonspace(text, i):
    n = len(text)
    while i < n and text[i].isspace():
        i += 1
    return i


def place(text, raws):
    """Returns (positions, None) or (partial_positions, problem) where problem is a dict."""
    n = len(raws)
    pos = []
    best = {"depth": -1}

    def rec(i, end):
        if i == n:
            if text[end:].strip() == "":
                return True
            _note(i, end, "nonspace-tail", text[end:])
            return False
        raw = raws[i]
        if not isinstance(raw, str):
            _note(i, end, "raw-not-str", repr(raw))
            return False
        limit = _first_nonspace(text, end)
        # admissible starts: end..limit (gap all whitespace)
        cands = []
        j = text.find(raw, end)
        while j != -1 and j <= limit:
            cands.append(j)
            j = text.find(raw, j + 1)
        if not cands:
            _note(i, end, None, None)
            return False
        for c in cands:
            pos.append(c)
            if rec(i + 1, c + len(raw)):
                return True
            pos.pop()
        return False

    def _note(i, end, kind, info):
        if i > best["depth"]:
            best.update(depth=i, end=end, kind=kind, info=info, pos=list(pos))

    if rec(0, 0):
        return pos, None
    # diagnose the deepest failure
    i, end = best["depth"], best["end"]
    if best["kind"]:
        return best["pos"], dict(kind=best["kind"], index=i, end=end, info=best["info"][:80])
    raw = raws[i]
    j = text.find(raw, end)
    if j != -1:
        gap = text[end:j]
        return best["pos"], dict(kind="nonspace-gap", index=i, end=end, info=gap[:80])
    if text.find(raw) != -1:
        k = text.find(raw)
        return best["pos"], dict(kind="overlap-or-order", index=i, end=end, info=f"raw occurs at {k} < {end}")
    return best["pos"], dict(kind="raw-not-in-source", index=i, end=end, info=raw[:80])
