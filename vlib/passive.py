"""Driver for the passive monitors on the repository's own suite (thorough tier, DESIGN 3.5)."""
import json
import os
import subprocess
import sys
import tempfile

from .core import repo_root

HERE = os.path.dirname(os.path.dirname(os.path.abspath(__file__)))

# monitor name -> (property it belongs to, names of tests whose recordings are outside the property's quantifier)
MONITORS = {
    "library_invariant": "C08",
    "entry_invariant": "C19",
    "split_names_post": "C12",
    "parse_name_post": "C13",
    "no_mutation_post": "C07",
    "split_tiling_post": "C03",
}


def run():
    """Returns dict(counts, recorded, exitstatus, tests) or None if the suite could not be run."""
    repo = repo_root()
    fd, out = tempfile.mkstemp(prefix="verif-passive-", suffix=".json")
    os.close(fd)
    env = dict(os.environ, PYTHONPATH=os.pathsep.join([repo, HERE, os.path.join(HERE, ".deps")]), VERIF_PASSIVE_OUT=out,
               PYTHONDONTWRITEBYTECODE="1")
    try:
        r = subprocess.run([sys.executable, "-m", "pytest", "-q", "-p", "no:cacheprovider", "-p", "vlib.pytest_plugin", "tests"],
                           cwd=repo, env=env, capture_output=True, text=True, timeout=1200)
        with open(out) as f:
            data = json.load(f)
        data["pytest_tail"] = r.stdout.strip().splitlines()[-1:] if r.stdout.strip() else []
        return data
    except Exception as ex:  # noqa
        return None
    finally:
        try:
            os.remove(out)
        except OSError:
            pass
