#!/usr/bin/env python
"""Reproducers for property C01 (parse_string / write_string never raise or hang).

Run:  PYTHONPATH=/tmp/wth-C01 /venv/bin/python /tmp/wth-C01/_hunt/repro.py
Prints one line per finding: `FINDING <n>: VIOLATED` or `FINDING <n>: holds`.
Exit code 1 if any finding is violated, else 0.
"""
import logging
import signal
import sys
import time

import bibtexparser

logging.disable(logging.CRITICAL)


class _Timeout(Exception):
    pass


def _alarm(*_):
    raise _Timeout()


signal.signal(signal.SIGALRM, _alarm)


def _dup_family(total_lines):
    """One entry with total_lines/2 one-line fields, followed by total_lines/2
    one-line entries that re-use its key.  About `total_lines` lines in total."""
    k = total_lines // 2
    m = total_lines // 2
    return "@a{k,\n" + "".join(f"f{i}=1,\n" for i in range(k)) + "}\n" + "@a{k}\n" * m


def finding_1():
    """write_string needs time quadratic in the number of lines (practical hang at 10^5 lines).

    Evidence 1: doubling the line count quadruples the write time (a linear writer doubles it).
    Evidence 2: the 10^5-line member of the family is not written within BUDGET seconds,
                while every other 10^5-line family tried is written in < 5 s on the same machine.
    """
    BUDGET = 90
    times = {}
    for n in (1000, 2000, 4000):
        lib = bibtexparser.parse_string(_dup_family(n))
        t = time.perf_counter()
        out = bibtexparser.write_string(lib)
        times[n] = time.perf_counter() - t
        assert isinstance(out, str)
    ratio_a = times[2000] / times[1000]
    ratio_b = times[4000] / times[2000]
    est_1e5 = times[4000] * (100000 / 4000) ** 2
    print(
        f"  write_string seconds: {times}; ratios on doubling: {ratio_a:.1f}, {ratio_b:.1f}; "
        f"extrapolated to 10^5 lines: {est_1e5 / 3600:.1f} h",
        file=sys.stderr,
    )

    text = _dup_family(100000)
    t = time.perf_counter()
    lib = bibtexparser.parse_string(text)
    print(
        f"  10^5-line input: {text.count(chr(10))} lines, {len(text)} chars, "
        f"parse_string took {time.perf_counter() - t:.1f}s, {len(lib.blocks)} blocks",
        file=sys.stderr,
    )
    signal.alarm(BUDGET)
    try:
        bibtexparser.write_string(lib)
        finished = True
    except _Timeout:
        finished = False
    finally:
        signal.alarm(0)
    print(f"  write_string on the 10^5-line library finished within {BUDGET}s: {finished}", file=sys.stderr)
    quadratic = ratio_a > 3.0 and ratio_b > 3.0
    return (not finished) and quadratic


FINDINGS = [finding_1]

if __name__ == "__main__":
    assert bibtexparser.__file__.startswith("/tmp/wth-C01"), bibtexparser.__file__
    bad = 0
    for i, f in enumerate(FINDINGS, 1):
        try:
            violated = f()
        except Exception as e:  # an exception from the library is itself a violation of C01
            print(f"  raised {type(e).__name__}: {e}", file=sys.stderr)
            violated = True
        print(f"FINDING {i}: {'VIOLATED' if violated else 'holds'}")
        bad += bool(violated)
    sys.exit(1 if bad else 0)
