"""Run: PYTHONPATH=/tmp/wth-C06 /venv/bin/python /tmp/wth-C06/_hunt/repro.py"""
import logging
import sys

logging.disable(logging.CRITICAL)
from bibtexparser import BibtexFormat, Library, writer
from bibtexparser.model import Entry, Field, ParsingFailedBlock


def f1():
    raw = "@article{a,\n x\n}"
    for c in ["% failed {see log}", "% {", "% }", "% {}", "% set {a,b}"]:
        f = BibtexFormat()
        f.parsing_failed_comment = c
        out = writer.write(Library([ParsingFailedBlock(error=ValueError("x"), raw=raw)]), f)
        assert out == c + "\n" + raw + "\n", out


def f2():
    lib = Library([Entry("article", "k", [Field("a", "{1}")]), Entry("book", "k", [Field("b", "{2}")])])
    out = writer.write(lib)
    assert out.startswith("@article{k,\n\ta = {1}\n}\n\n\n"), out
    assert "{2}" in out, out


def f3():
    out = writer.write(Library([Entry("article", "k", [Field("year", 2020)])]))
    assert out == "@article{k,\n\tyear = 2020\n}\n", out


bad = 0
for n, fn in enumerate([f1, f2, f3], 1):
    try:
        fn()
        print(f"FINDING {n}: holds")
    except Exception as e:  # noqa
        bad = 1
        print(f"FINDING {n}: VIOLATED  ({type(e).__name__}: {str(e)[:90]})")
sys.exit(bad)
