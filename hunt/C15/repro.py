#!/usr/bin/env python
"""Reproducers for the C15 hunt. Run: PYTHONPATH=/tmp/wth-C15 /venv/bin/python _hunt/repro.py"""
import itertools
import sys

from bibtexparser.library import Library
from bibtexparser.model import Entry, Field
from bibtexparser.middlewares.month import (
    MonthAbbreviationMiddleware,
    MonthIntMiddleware,
    MonthLongStringMiddleware,
)

MWS = [
    (MonthIntMiddleware, lambda m: m),
    (MonthAbbreviationMiddleware, lambda m: ["jan", "feb", "mar", "apr", "may", "jun", "jul", "aug", "sep", "oct", "nov", "dec"][m - 1]),
    (MonthLongStringMiddleware, lambda m: ["January", "February", "March", "April", "May", "June", "July", "August", "September", "October", "November", "December"][m - 1]),
]


def run(chain, value):
    lib = Library([Entry("article", "k", [Field("month", value)])])
    for mw in chain:
        lib = mw(allow_inplace_modification=False).transform(lib)
    return lib.entries[0]["month"]


def finding_1():
    """Decimal string with many leading zeros (longer than the interpreter's int-conversion limit)."""
    limit = sys.get_int_max_str_digits() if hasattr(sys, "get_int_max_str_digits") else 0
    n = (limit if limit else 4300) + 1
    violated = False
    for m in (1, 7, 12):
        s = str(m).rjust(n, "0")
        assert s.isascii() and s.isdigit() and len(s) == n
        for mw, exp in MWS:
            r = run([mw], s)
            if not (type(r) is type(exp(m)) and r == exp(m)):
                violated = True
        for (a, _), (b, exp) in itertools.product(MWS, repeat=2):
            r = run([a, b], s)
            if not (type(r) is type(exp(m)) and r == exp(m)):
                violated = True
    return violated


def main():
    any_violated = False
    for i, f in enumerate([finding_1], start=1):
        try:
            v = f()
        except Exception as ex:  # a raise is a violation too
            print(f"  (finding {i} raised {ex!r})")
            v = True
        print(f"FINDING {i}: {'VIOLATED' if v else 'holds'}")
        any_violated |= v
    sys.exit(1 if any_violated else 0)


if __name__ == "__main__":
    main()
